//go:build verif_harness

package format

import (
	"archive/zip"
	"io"
)

func vLetterCase(c byte) byte { // c is a lower-case letter: symbolic choice of case
	return vAnyByteOf(string([]byte{c, c - 32}))
}

var vExts = []string{"pdf", "docx", "odt", "xlsx", "pptx", "html", "htm", "epub"}
var vExtFormats = []Format{PDF, DOCX, ODT, XLSX, PPTX, HTML, HTML, EPUB}

// H_C20_extension_table: every supported extension in any letter case maps to its format; everything else is Unknown.
//
//symgo:harness prop=C20 kernel=K1-extension
//symgo:desc file name = 0..2 symbolic bytes (no '.', '/', '\\') + '.' + each supported extension with per-letter symbolic case; and names whose extension is 1..4 symbolic letters not equal (case-insensitively) to a supported one, and names without any dot: Unknown
func H_C20_extension_table() {
	var name []byte
	for i, n := 0, vAnyIntIn(0, 2); i < n; i++ {
		c := vAnyByte()
		vAssume(c != '.' && c != '/' && c != '\\')
		name = append(name, c)
	}
	k := vAnyIntIn(0, len(vExts)+1)
	switch {
	case k < len(vExts):
		name = append(name, '.')
		for i := 0; i < len(vExts[k]); i++ {
			name = append(name, vLetterCase(vExts[k][i]))
		}
		vAssert("supported-extension", Detect(string(name)) == vExtFormats[k])
	case k == len(vExts):
		vAssert("no-extension-is-unknown", Detect(string(name)) == Unknown)
	default:
		n := vAnyIntIn(1, 4)
		ext := make([]byte, n)
		for i := range ext {
			c := vAnyByte()
			vAssume((c >= 'a' && c <= 'z') || (c >= 'A' && c <= 'Z'))
			ext[i] = c
		}
		lower := make([]byte, n)
		for i, c := range ext {
			if c >= 'A' && c <= 'Z' {
				c += 32
			}
			lower[i] = c
		}
		for _, e := range vExts {
			vAssume(string(lower) != e)
		}
		name = append(append(name, '.'), ext...)
		vAssert("other-extension-is-unknown", Detect(string(name)) == Unknown)
	}
	vReach("end")
}

type vReaderAt struct{ data []byte }

func (r vReaderAt) ReadAt(p []byte, off int64) (int, error) {
	if off >= int64(len(r.data)) {
		return 0, io.EOF
	}
	n := copy(p, r.data[off:])
	if n < len(p) {
		return n, io.EOF
	}
	return n, nil
}

// H_C20_magic: content signatures decide the format of non-ZIP files, for every continuation of the signature.
//
//symgo:harness prop=C20 kernel=K2-magic
//symgo:desc data = "%PDF" + 0..4 symbolic bytes => PDF; 0..2 symbolic whitespace bytes + "<!DOCTYPE html" / "<html" with per-letter symbolic case + 0..2 symbolic bytes => HTML; every ASCII byte string of length 0..4 that is not a ZIP signature (no panic, and PDF only if it starts with %PDF); through DetectFromMagic and DetectFromReader
func H_C20_magic() {
	var data []byte
	kind := vAnyIntIn(0, 3)
	switch kind {
	case 0:
		data = append([]byte("%PDF"), vAnyBytes(vAnyIntIn(0, 4))...)
	case 1, 2:
		for i, n := 0, vAnyIntIn(0, 2); i < n; i++ {
			data = append(data, vAnyByteOf(" \t\n\r"))
		}
		sig := "<!doctype html"
		if kind == 2 {
			sig = "<html"
		}
		for i := 0; i < len(sig); i++ {
			if sig[i] >= 'a' && sig[i] <= 'z' {
				data = append(data, vLetterCase(sig[i]))
			} else {
				data = append(data, sig[i])
			}
		}
		for i, n := 0, vAnyIntIn(0, 2); i < n; i++ {
			c := vAnyByte()
			vAssume(c < 0x80)
			data = append(data, c)
		}
	default:
		data = vAnyBytes(vAnyIntIn(0, 4))
		for _, c := range data {
			vAssume(c < 0x80) // non-ASCII bytes would reach strings.ToUpper's rune path, which is not modelled
		}
		vAssume(!(len(data) >= 4 && data[0] == 'P' && data[1] == 'K' && data[2] == 3 && data[3] == 4)) // ZIP containers: K3
	}
	m := DetectFromMagic(data)
	r, err := DetectFromReader(vReaderAt{data}, int64(len(data)))
	switch kind {
	case 0:
		vAssert("pdf-magic", m == PDF && err == nil && r == PDF)
	case 1, 2:
		vAssert("html-magic", m == HTML && err == nil && r == HTML)
	default:
		isPDF := len(data) >= 4 && data[0] == '%' && data[1] == 'P' && data[2] == 'D' && data[3] == 'F'
		vAssert("pdf-only-with-magic", (m == PDF) == isPDF)
	}
	vReach("end")
}

var vZipMembers []*zip.File
var vMimetype string

func vStubZipNewReader(r io.ReaderAt, size int64) (*zip.Reader, error) {
	return &zip.Reader{File: vZipMembers}, nil
}

type vRC struct {
	s   string
	pos int
}

func (r *vRC) Read(p []byte) (int, error) {
	if r.pos >= len(r.s) {
		return 0, io.EOF
	}
	n := copy(p, r.s[r.pos:])
	r.pos += n
	return n, nil
}
func (r *vRC) Close() error { return nil }

func vStubZipOpen(f *zip.File) (io.ReadCloser, error) { return &vRC{s: vMimetype}, nil }

// H_C20_zip_member_order: the format of a ZIP-based document does not depend on the order of its members,
// nor on stray members that look like another format.
//
//symgo:harness prop=C20 kernel=K3-zip-order noreplay=1
//symgo:redirect archive/zip.NewReader vStubZipNewReader
//symgo:redirect (*archive/zip.File).Open vStubZipOpen
//symgo:desc canonical members of one format in {DOCX, XLSX, PPTX, ODT, EPUB} (enumerated) plus 0..1 decoy member under another format's directory prefix (word/, xl/, ppt/: embedded objects), in every order (enumerated permutation of <= 4 members): detected format = the format of the canonical main part; zip central-directory parsing is cut (harness-built zip.Reader)
func H_C20_zip_member_order() {
	type spec struct {
		f       Format
		members []string
		mime    string
	}
	specs := []spec{
		{DOCX, []string{"[Content_Types].xml", "word/document.xml"}, ""},
		{XLSX, []string{"[Content_Types].xml", "xl/workbook.xml"}, ""},
		{PPTX, []string{"[Content_Types].xml", "ppt/presentation.xml"}, ""},
		{ODT, []string{"mimetype", "content.xml"}, "application/vnd.oasis.opendocument.text"},
		{EPUB, []string{"mimetype", "META-INF/container.xml"}, "application/epub+zip"},
	}
	sp := specs[vAnyIntIn(0, len(specs)-1)]
	names := append([]string{}, sp.members...)
	decoys := []string{"", "word/embeddings/oleObject1.bin", "xl/embeddings/sheet1.xlsx", "ppt/embeddings/deck.pptx"}
	if d := decoys[vAnyIntIn(0, len(decoys)-1)]; d != "" {
		names = append(names, d)
	}
	// symbolic permutation (Fisher-Yates over enumerated choices)
	for i := 0; i < len(names)-1; i++ {
		j := vAnyIntIn(i, len(names)-1)
		names[i], names[j] = names[j], names[i]
	}
	vZipMembers = nil
	for _, n := range names {
		vZipMembers = append(vZipMembers, &zip.File{FileHeader: zip.FileHeader{Name: n}})
	}
	vMimetype = sp.mime
	got, err := detectZIPFormat(vReaderAt{nil}, 0)
	vAssert("no-error", err == nil)
	vAssert("format-independent-of-member-order", got == sp.f)
	vReach("end")
}

var vZipTexts map[string]string

func vStubZipOpenByName(f *zip.File) (io.ReadCloser, error) { return &vRC{s: vZipTexts[f.Name]}, nil }

// H_C20_zip_foreign_markers: a valid document is recognised as its own format although it carries a member that is the
// marker of another format.
//
//symgo:harness prop=C20 kernel=K3b-zip-foreign-markers noreplay=1
//symgo:redirect archive/zip.NewReader vStubZipNewReader
//symgo:redirect (*archive/zip.File).Open vStubZipOpenByName
//symgo:desc a valid package of one format in {DOCX, XLSX, PPTX, ODT, EPUB} (enumerated) - Office Open XML with a [Content_Types].xml that declares its main part, ODT and EPUB with their mimetype stored first - plus one foreign marker member (enumerated): META-INF/container.xml, a trailing mimetype member holding the EPUB or the ODT media type, or the main part of another Office format (word/document.xml, xl/workbook.xml, ppt/presentation.xml), stored before or after the package's own parts (enumerated; a leading mimetype stays first): detected format = the package's own format; zip central-directory parsing is cut (harness-built zip.Reader, member texts by name)
func H_C20_zip_foreign_markers() {
	type spec struct {
		f       Format
		members []string
		texts   map[string]string
	}
	ct := func(kind string) string {
		return `<?xml version="1.0"?><Types xmlns="http://schemas.openxmlformats.org/package/2006/content-types"><Default Extension="xml" ContentType="application/xml"/><Override PartName="/x" ContentType="application/vnd.openxmlformats-officedocument.` + kind + `+xml"/></Types>`
	}
	specs := []spec{
		{DOCX, []string{"[Content_Types].xml", "word/document.xml"}, map[string]string{"[Content_Types].xml": ct("wordprocessingml.document.main")}},
		{XLSX, []string{"[Content_Types].xml", "xl/workbook.xml"}, map[string]string{"[Content_Types].xml": ct("spreadsheetml.sheet.main")}},
		{PPTX, []string{"[Content_Types].xml", "ppt/presentation.xml"}, map[string]string{"[Content_Types].xml": ct("presentationml.presentation.main")}},
		{ODT, []string{"mimetype", "content.xml"}, map[string]string{"mimetype": "application/vnd.oasis.opendocument.text"}},
		{EPUB, []string{"mimetype", "META-INF/container.xml"}, map[string]string{"mimetype": "application/epub+zip"}},
	}
	sp := specs[vAnyIntIn(0, len(specs)-1)]
	type decoy struct{ name, text string }
	decoys := []decoy{{"META-INF/container.xml", "<container/>"}, {"mimetype", "application/epub+zip"}, {"mimetype", "application/vnd.oasis.opendocument.text"}, {"word/document.xml", ""}, {"xl/workbook.xml", ""}, {"ppt/presentation.xml", ""}}
	d := decoys[vAnyIntIn(0, len(decoys)-1)]
	own := false
	for _, m := range sp.members {
		if m == d.name {
			own = true
		}
	}
	vAssume(!own) // the marker must be foreign to the package
	names := append([]string{}, sp.members...)
	if vAnyIntIn(0, 1) == 1 && sp.members[0] != "mimetype" && d.name != "mimetype" {
		names = append([]string{d.name}, names...)
	} else {
		names = append(names, d.name)
	}
	vZipTexts = map[string]string{d.name: d.text}
	for k, v := range sp.texts {
		vZipTexts[k] = v
	}
	vZipMembers = nil
	for _, n := range names {
		vZipMembers = append(vZipMembers, &zip.File{FileHeader: zip.FileHeader{Name: n}})
	}
	got, err := detectZIPFormat(vReaderAt{nil}, 0)
	vAssert("no-error", err == nil)
	vAssert("own-format-despite-foreign-marker", got == sp.f)
	vReach("end")
}

// H_C20_html_openings: the ways a valid HTML document may begin other than "<!DOCTYPE html" or "<html" at byte 0.
//
//symgo:harness prop=C20 kernel=K2b-html-openings
//symgo:desc opening (enumerated): a UTF-8 byte-order mark before the doctype; a comment (and a line break) before the doctype; "<!DOCTYPE" followed by two blanks or a line break before "html"; the optional html start tag omitted ("<head>" or "<body>" first, after a doctype or alone); per-letter case of the tag names symbolic where letters are involved; followed by a short document: DetectFromMagic and DetectFromReader say HTML
func H_C20_html_openings() {
	h := string([]byte{vLetterCase('h'), vLetterCase('t'), vLetterCase('m'), vLetterCase('l')})
	doc := ""
	switch vAnyIntIn(0, 5) {
	case 0:
		doc = "\xef\xbb\xbf<!DOCTYPE " + h + "><" + h + "><body>x</body></html>"
	case 1:
		doc = "<!-- saved from url=(0014)about:internet -->\n<!DOCTYPE " + h + "><" + h + "></html>"
	case 2:
		doc = "<!DOCTYPE  " + h + "><" + h + "></html>"
	case 3:
		doc = "<!DOCTYPE\n" + h + ">\n<" + h + "></html>"
	case 4:
		doc = "<head><title>t</title></head><body>x</body>"
	default:
		doc = "<!-- c --><body><p>x</p></body>"
	}
	data := []byte(doc)
	vAssert("html-by-magic", DetectFromMagic(data) == HTML)
	r, err := DetectFromReader(vReaderAt{data}, int64(len(data)))
	vAssert("html-by-reader", err == nil && r == HTML)
	vReach("end")
}
