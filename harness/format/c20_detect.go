//go:build verif_harness

package format

import (
	"archive/zip"
	"io"
)

func vLetterCase(c byte) byte { // c is a lower-case letter: symbolic choice of case
	return vAnyByteOf(string([]byte{c, c - 32}))
}

var vExts = []string{"pdf", "docx", "odt", "xlsx", "pptx", "html", "htm", "epub"}
var vExtFormats = []Format{PDF, DOCX, ODT, XLSX, PPTX, HTML, HTML, EPUB}

// H_C20_extension_table: every supported extension in any letter case maps to its format; everything else is Unknown.
//
//symgo:harness prop=C20 kernel=K1-extension
//symgo:desc file name = 0..2 symbolic bytes (no '.', '/', '\\') + '.' + each supported extension with per-letter symbolic case; and names whose extension is 1..4 symbolic letters not equal (case-insensitively) to a supported one, and names without any dot: Unknown
func H_C20_extension_table() {
	var name []byte
	for i, n := 0, vAnyIntIn(0, 2); i < n; i++ {
		c := vAnyByte()
		vAssume(c != '.' && c != '/' && c != '\\')
		name = append(name, c)
	}
	k := vAnyIntIn(0, len(vExts)+1)
	switch {
	case k < len(vExts):
		name = append(name, '.')
		for i := 0; i < len(vExts[k]); i++ {
			name = append(name, vLetterCase(vExts[k][i]))
		}
		vAssert("supported-extension", Detect(string(name)) == vExtFormats[k])
	case k == len(vExts):
		vAssert("no-extension-is-unknown", Detect(string(name)) == Unknown)
	default:
		n := vAnyIntIn(1, 4)
		ext := make([]byte, n)
		for i := range ext {
			c := vAnyByte()
			vAssume((c >= 'a' && c <= 'z') || (c >= 'A' && c <= 'Z'))
			ext[i] = c
		}
		lower := make([]byte, n)
		for i, c := range ext {
			if c >= 'A' && c <= 'Z' {
				c += 32
			}
			lower[i] = c
		}
		for _, e := range vExts {
			vAssume(string(lower) != e)
		}
		name = append(append(name, '.'), ext...)
		vAssert("other-extension-is-unknown", Detect(string(name)) == Unknown)
	}
	vReach("end")
}

type vReaderAt struct{ data []byte }

func (r vReaderAt) ReadAt(p []byte, off int64) (int, error) {
	if off >= int64(len(r.data)) {
		return 0, io.EOF
	}
	n := copy(p, r.data[off:])
	if n < len(p) {
		return n, io.EOF
	}
	return n, nil
}

// H_C20_magic: content signatures decide the format of non-ZIP files, for every continuation of the signature.
//
//symgo:harness prop=C20 kernel=K2-magic
//symgo:desc data = "%PDF" + 0..4 symbolic bytes => PDF; 0..2 symbolic whitespace bytes + "<!DOCTYPE html" / "<html" with per-letter symbolic case + 0..2 symbolic bytes => HTML; every ASCII byte string of length 0..4 that is not a ZIP signature (no panic, and PDF only if it starts with %PDF); through DetectFromMagic and DetectFromReader
func H_C20_magic() {
	var data []byte
	kind := vAnyIntIn(0, 3)
	switch kind {
	case 0:
		data = append([]byte("%PDF"), vAnyBytes(vAnyIntIn(0, 4))...)
	case 1, 2:
		for i, n := 0, vAnyIntIn(0, 2); i < n; i++ {
			data = append(data, vAnyByteOf(" \t\n\r"))
		}
		sig := "<!doctype html"
		if kind == 2 {
			sig = "<html"
		}
		for i := 0; i < len(sig); i++ {
			if sig[i] >= 'a' && sig[i] <= 'z' {
				data = append(data, vLetterCase(sig[i]))
			} else {
				data = append(data, sig[i])
			}
		}
		for i, n := 0, vAnyIntIn(0, 2); i < n; i++ {
			c := vAnyByte()
			vAssume(c < 0x80)
			data = append(data, c)
		}
	default:
		data = vAnyBytes(vAnyIntIn(0, 4))
		for _, c := range data {
			vAssume(c < 0x80) // non-ASCII bytes would reach strings.ToUpper's rune path, which is not modelled
		}
		vAssume(!(len(data) >= 4 && data[0] == 'P' && data[1] == 'K' && data[2] == 3 && data[3] == 4)) // ZIP containers: K3
	}
	m := DetectFromMagic(data)
	r, err := DetectFromReader(vReaderAt{data}, int64(len(data)))
	switch kind {
	case 0:
		vAssert("pdf-magic", m == PDF && err == nil && r == PDF)
	case 1, 2:
		vAssert("html-magic", m == HTML && err == nil && r == HTML)
	default:
		isPDF := len(data) >= 4 && data[0] == '%' && data[1] == 'P' && data[2] == 'D' && data[3] == 'F'
		vAssert("pdf-only-with-magic", (m == PDF) == isPDF)
	}
	vReach("end")
}

var vZipMembers []*zip.File
var vMimetype string

func vStubZipNewReader(r io.ReaderAt, size int64) (*zip.Reader, error) {
	return &zip.Reader{File: vZipMembers}, nil
}

type vRC struct {
	s   string
	pos int
}

func (r *vRC) Read(p []byte) (int, error) {
	if r.pos >= len(r.s) {
		return 0, io.EOF
	}
	n := copy(p, r.s[r.pos:])
	r.pos += n
	return n, nil
}
func (r *vRC) Close() error { return nil }

func vStubZipOpen(f *zip.File) (io.ReadCloser, error) { return &vRC{s: vMimetype}, nil }

// H_C20_zip_member_order: the format of a ZIP-based document does not depend on the order of its members,
// nor on stray members that look like another format.
//
//symgo:harness prop=C20 kernel=K3-zip-order noreplay=1
//symgo:redirect archive/zip.NewReader vStubZipNewReader
//symgo:redirect (*archive/zip.File).Open vStubZipOpen
//symgo:desc canonical members of one format in {DOCX, XLSX, PPTX, ODT, EPUB} (enumerated) plus 0..1 decoy member under another format's directory prefix (word/, xl/, ppt/: embedded objects), in every order (enumerated permutation of <= 4 members): detected format = the format of the canonical main part; zip central-directory parsing is cut (harness-built zip.Reader)
func H_C20_zip_member_order() {
	type spec struct {
		f       Format
		members []string
		mime    string
	}
	specs := []spec{
		{DOCX, []string{"[Content_Types].xml", "word/document.xml"}, ""},
		{XLSX, []string{"[Content_Types].xml", "xl/workbook.xml"}, ""},
		{PPTX, []string{"[Content_Types].xml", "ppt/presentation.xml"}, ""},
		{ODT, []string{"mimetype", "content.xml"}, "application/vnd.oasis.opendocument.text"},
		{EPUB, []string{"mimetype", "META-INF/container.xml"}, "application/epub+zip"},
	}
	sp := specs[vAnyIntIn(0, len(specs)-1)]
	names := append([]string{}, sp.members...)
	decoys := []string{"", "word/embeddings/oleObject1.bin", "xl/embeddings/sheet1.xlsx", "ppt/embeddings/deck.pptx"}
	if d := decoys[vAnyIntIn(0, len(decoys)-1)]; d != "" {
		names = append(names, d)
	}
	// symbolic permutation (Fisher-Yates over enumerated choices)
	for i := 0; i < len(names)-1; i++ {
		j := vAnyIntIn(i, len(names)-1)
		names[i], names[j] = names[j], names[i]
	}
	vZipMembers = nil
	for _, n := range names {
		vZipMembers = append(vZipMembers, &zip.File{FileHeader: zip.FileHeader{Name: n}})
	}
	vMimetype = sp.mime
	got, err := detectZIPFormat(vReaderAt{nil}, 0)
	vAssert("no-error", err == nil)
	vAssert("format-independent-of-member-order", got == sp.f)
	vReach("end")
}
