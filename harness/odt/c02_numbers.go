//go:build verif_harness

package odt

import "archive/zip"

func vCatalogue() string {
	return []string{"0", "-1", "2147483648", "9223372036854775807"}[vAnyIntIn(0, 3)]
}

// H_C02_odt_numeric_fields: numbers taken from content.xml never size an allocation or a loop.
//
//symgo:harness prop=C02 kernel=odt-numeric-fields hang=1 loop=200000 steps=100000000 noreplay=1
//symgo:redirect archive/zip.OpenReader vStubOpenZip
//symgo:desc zip layer cut (member content model); an ODT package whose body holds a paragraph with <text:s text:c="N"/>, a 2x2 table and a nested list; one numeric attribute is replaced by a catalogue value (0, -1, 2^31, 2^63-1; enumerated): text:c of the space run, table:number-columns-spanned or table:number-rows-spanned of a cell, table:number-columns-repeated of the column declaration, text:outline-level of a heading: Open, Text, Markdown and Document-model conversion return without run-time panic, within the allocation budget and the loop/step bounds
func H_C02_odt_numeric_fields() {
	sc, cs, rs, cr, ol := "2", "1", "1", "2", "1"
	switch vAnyIntIn(0, 4) {
	case 0:
		sc = vCatalogue()
	case 1:
		cs = vCatalogue()
	case 2:
		rs = vCatalogue()
	case 3:
		cr = vCatalogue()
	default:
		ol = vCatalogue()
	}
	body := `<text:h text:outline-level="` + ol + `">Head</text:h><text:p>a<text:s text:c="` + sc + `"/>b</text:p>` +
		`<table:table table:name="T"><table:table-column table:number-columns-repeated="` + cr + `"/>` +
		`<table:table-row><table:table-cell table:number-columns-spanned="` + cs + `" table:number-rows-spanned="` + rs + `"><text:p>x</text:p></table:table-cell><table:table-cell><text:p>y</text:p></table:table-cell></table:table-row>` +
		`<table:table-row><table:table-cell><text:p>z</text:p></table:table-cell><table:table-cell><text:p>w</text:p></table:table-cell></table:table-row></table:table>` +
		`<text:list><text:list-item><text:p>i1</text:p><text:list><text:list-item><text:p>i2</text:p></text:list-item></text:list></text:list-item></text:list>`
	vZip = &zip.ReadCloser{}
	vMember("mimetype", "application/vnd.oasis.opendocument.text")
	vMember("content.xml", `<?xml version="1.0"?><office:document-content `+vOdtNS+`><office:body><office:text>`+body+`</office:text></office:body></office:document-content>`)
	r, err := Open("any.odt")
	if err == nil && r != nil {
		_, _ = r.Text()
		_, _ = r.Markdown()
		_, _ = r.Document()
		_ = r.Close()
	}
	vReach("end")
}

// H_C02_odt_style_parent_cycles: style inheritance written as a cycle - through the starting style or not - is resolved
// in bounded time.
//
//symgo:harness prop=C02 kernel=odt-style-cycles hang=1 loop=5000 steps=50000000 noreplay=1
//symgo:redirect archive/zip.OpenReader vStubOpenZip
//symgo:desc zip layer cut (member content model); automatic paragraph styles P1, P2, P3 whose style:parent-style-name links form (enumerated) a chain P1->P2->P3, a self-loop P1->P1, a 2-cycle P1->P2->P1, a 3-cycle through the start P1->P2->P3->P1, or a cycle that does not pass through the start P1->P2->P3->P2; a paragraph and a heading in style P1: Open, Text and Markdown return within the loop bound 5000
func H_C02_odt_style_parent_cycles() {
	parents := [][3]string{{"P2", "P3", ""}, {"P1", "", ""}, {"P2", "P1", ""}, {"P2", "P3", "P1"}, {"P2", "P3", "P2"}}[vAnyIntIn(0, 4)]
	styles := ""
	for i, n := range []string{"P1", "P2", "P3"} {
		par := ""
		if parents[i] != "" {
			par = ` style:parent-style-name="` + parents[i] + `"`
		}
		styles += `<style:style style:name="` + n + `" style:family="paragraph"` + par + `><style:paragraph-properties fo:text-align="start"/></style:style>`
	}
	vZip = &zip.ReadCloser{}
	vMember("mimetype", "application/vnd.oasis.opendocument.text")
	vMember("content.xml", `<?xml version="1.0"?><office:document-content `+vOdtNS+`><office:automatic-styles>`+styles+`</office:automatic-styles><office:body><office:text><text:h text:style-name="P1" text:outline-level="1">Head</text:h><text:p text:style-name="P1">Body text.</text:p></office:text></office:body></office:document-content>`)
	r, err := Open("any.odt")
	if err == nil && r != nil {
		_, _ = r.Text()
		_, _ = r.Markdown()
		_ = r.Close()
	}
	vReach("end")
}
