//go:build verif_harness

package odt

// vListTree builds a list of the given depth budget; every item has its own paragraph or not (symbolic) and 0..1 nested lists.
func vListTree(depth int, next *int, level int, want *[][2]int) listXML {
	var l listXML
	for i, n := 0, vAnyIntIn(1, 2); i < n; i++ {
		var it listItemXML
		if vAnyIntIn(0, 1) == 1 {
			*next++
			it.Paragraphs = []paragraphXML{{Text: "item" + string(rune('A'+*next))}}
			*want = append(*want, [2]int{*next, level})
		}
		if depth > 0 && vAnyIntIn(0, 1) == 1 {
			it.SubLists = []listXML{vListTree(depth-1, next, level+1, want)}
		}
		l.Items = append(l.Items, it)
	}
	return l
}

// H_C16_odt_nested_lists: list items keep their source order and nesting depth, including nested lists that hang under
// an item without text of its own.
//
//symgo:harness prop=C16 kernel=K3-odt-lists
//symgo:desc harness-built listXML (XML unmarshalling outside the claim): 1..2 items per list, nesting depth <= 1 (quick) / 2 (thorough), every item with or without its own paragraph and with or without a nested list (enumerated): ParseList returns exactly the items that have text, in document order, each at its nesting level. (Enumerated structure; the solver is not involved)
func H_C16_odt_nested_lists() {
	next := -1
	var want [][2]int
	l := vListTree(1+vTier(), &next, 0, &want)
	pl := NewListParser(nil).ParseList(l, 0)
	vAssert("item-count", len(pl.Items) == len(want))
	for i, w := range want {
		vAssert("item-order", pl.Items[i].Text == "item"+string(rune('A'+w[0])))
		vAssert("item-level", pl.Items[i].Level == w[1])
	}
	vReach("end")
}
