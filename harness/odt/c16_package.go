//go:build verif_harness

package odt

import (
	"archive/zip"
	"strings"
)

var vZip *zip.ReadCloser

func vStubOpenZip(name string) (*zip.ReadCloser, error) { return vZip, nil }

func vMember(name, content string) {
	vZip.File = append(vZip.File, &zip.File{FileHeader: zip.FileHeader{Name: name}})
	vZipContent(name, content)
}

const vOdtNS = `xmlns:office="urn:oasis:names:tc:opendocument:xmlns:office:1.0" xmlns:style="urn:oasis:names:tc:opendocument:xmlns:style:1.0" xmlns:text="urn:oasis:names:tc:opendocument:xmlns:text:1.0" xmlns:table="urn:oasis:names:tc:opendocument:xmlns:table:1.0" xmlns:fo="urn:oasis:names:tc:opendocument:xmlns:xsl-fo-compatible:1.0"`

// H_C16_odt_package: a whole ODT package, given as the texts of its parts, read by the real odt.Open: body in document
// order with heading levels and list nesting as authored; master-page headers and footers do not leak into the body.
//
//symgo:harness prop=C16 kernel=K5-odt-package noreplay=1
//symgo:redirect archive/zip.OpenReader vStubOpenZip
//symgo:desc zip layer cut (OpenReader returns a harness-built member list; member content model); parts: mimetype, content.xml (automatic styles + body), styles.xml (named styles, one master page with header and footer paragraphs), meta.xml; body = 2..3 quick / 2..4 thorough elements, each a paragraph with mixed inline content, a heading of outline level 1..3 whose style is named after the level, "Heading" or "Heading_20_Appendix" (enumerated per document), a list with a nested list, or a 1x2 table (enumerated): Open succeeds; the element list is in source order with IsHeading/Level and IsListItem/ListLevel as authored; Text() has every body text once and in order and none of the header/footer text; HeaderTexts/FooterTexts carry them
func H_C16_odt_package() {
	n := vAnyIntIn(2, 3+vTier())
	styleKind := 0 // how heading styles are named in this document (varied for the two-element bodies)
	if n == 2 {
		styleKind = vAnyIntIn(0, 2)
	}
	type exp struct {
		kind  string
		text  string
		level int
	}
	var want []exp
	body := ""
	for i := 0; i < n; i++ {
		w := "body" + string(rune('A'+i))
		switch vAnyIntIn(0, 3) {
		case 0:
			body += `<text:p text:style-name="P1">` + w + ` <text:span text:style-name="T1">mid</text:span> end</text:p>`
			want = append(want, exp{"p", w + " mid end", 0})
		case 1:
			lvl := vAnyIntIn(1, 3)
			// the style may carry the level in its name, or be a generic / differently named heading style: the
			// element's own outline level is the level as authored
			styleName := []string{"Heading_20_" + string(rune('0'+lvl)), "Heading", "Heading_20_Appendix"}[styleKind]
			body += `<text:h text:style-name="` + styleName + `" text:outline-level="` + string(rune('0'+lvl)) + `">` + w + `</text:h>`
			want = append(want, exp{"h", w, lvl})
		case 2:
			body += `<text:list text:style-name="L1"><text:list-item><text:p>` + w + `0</text:p><text:list><text:list-item><text:p>` + w + `1</text:p></text:list-item></text:list></text:list-item></text:list>`
			want = append(want, exp{"li", w + "0", 0}, exp{"li", w + "1", 1})
		default:
			body += `<table:table table:name="T"><table:table-column table:number-columns-repeated="2"/><table:table-row><table:table-cell><text:p>` + w + `x</text:p></table:table-cell><table:table-cell><text:p>` + w + `y</text:p></table:table-cell></table:table-row></table:table>`
			want = append(want, exp{"tbl", w, 0})
		}
	}
	content := `<?xml version="1.0" encoding="UTF-8"?><office:document-content ` + vOdtNS + ` office:version="1.2"><office:automatic-styles><style:style style:name="P1" style:family="paragraph" style:parent-style-name="Standard"><style:paragraph-properties fo:text-align="start"/></style:style><style:style style:name="T1" style:family="text"><style:text-properties fo:font-weight="bold"/></style:style></office:automatic-styles><office:body><office:text>` + body + `</office:text></office:body></office:document-content>`
	styles := `<?xml version="1.0" encoding="UTF-8"?><office:document-styles ` + vOdtNS + ` office:version="1.2"><office:styles><style:style style:name="Standard" style:family="paragraph" style:class="text"/><style:style style:name="Heading_20_1" style:display-name="Heading 1" style:family="paragraph" style:parent-style-name="Standard" style:default-outline-level="1"/></office:styles><office:automatic-styles/><office:master-styles><style:master-page style:name="Standard" style:page-layout-name="Mpm1"><style:header><text:p text:style-name="Header">RunningHeaderText</text:p></style:header><style:footer><text:p text:style-name="Footer">RunningFooterText</text:p></style:footer></style:master-page></office:master-styles></office:document-styles>`
	vZip = &zip.ReadCloser{}
	vMember("mimetype", "application/vnd.oasis.opendocument.text")
	vMember("styles.xml", styles)
	vMember("meta.xml", `<?xml version="1.0"?><office:document-meta `+vOdtNS+`><office:meta/></office:document-meta>`)
	vMember("content.xml", content)
	r, err := Open("any.odt")
	vAssert("opens", err == nil && r != nil)
	vAssert("element-count", len(r.elements) == len(want))
	for i, w := range want {
		e := r.elements[i]
		if w.kind == "tbl" {
			vAssert("table-in-source-position", e.Type == "table" && e.Table != nil && len(e.Table.Rows) == 1 && len(e.Table.Rows[0].Cells) == 2 && e.Table.Rows[0].Cells[1].Text == w.text+"y")
			continue
		}
		vAssert("paragraph-in-source-position", e.Type == "paragraph" && e.Paragraph != nil && e.Paragraph.Text == w.text)
		switch w.kind {
		case "h":
			vAssert("heading-level-as-authored", e.Paragraph.IsHeading && e.Paragraph.Level == w.level)
		case "li":
			vAssert("list-nesting-as-authored", e.Paragraph.IsListItem && e.Paragraph.ListLevel == w.level)
		default:
			vAssert("plain-paragraph", !e.Paragraph.IsHeading && !e.Paragraph.IsListItem)
		}
	}
	txt, terr := r.Text()
	vAssert("text-no-error", terr == nil)
	pos := 0
	for _, w := range want {
		k := strings.Index(txt[pos:], w.text)
		vAssert("body-texts-in-document-order", k >= 0)
		pos += k + len(w.text)
	}
	vAssert("header-does-not-leak", !strings.Contains(txt, "RunningHeaderText"))
	vAssert("footer-does-not-leak", !strings.Contains(txt, "RunningFooterText"))
	vAssert("header-read", len(r.headerTexts) == 1 && r.headerTexts[0] == "RunningHeaderText")
	vAssert("footer-read", len(r.footerTexts) == 1 && r.footerTexts[0] == "RunningFooterText")
	vReach("end")
}

// H_C15_odt_package_markdown: the Markdown of a whole ODT package keeps structure: ATX headings of the source level
// (capped at 6), list items in order with nesting depth and ordered/unordered kind, tables as pipe tables, no text lost.
//
//symgo:harness prop=C15 kernel=K3-odt-package-markdown noreplay=1
//symgo:redirect archive/zip.OpenReader vStubOpenZip
//symgo:desc zip layer cut (member content model); content.xml with automatic list styles L1 (numbered at level 1, bullets at level 2) and L2 (bullets) and a body of 2 quick / 2..3 thorough elements out of: heading of outline level 1..3, heading of outline level 8 (to be capped at 6), paragraph with a span, a three-item list in style L1 or L2 (enumerated) whose middle item sits in a nested list, a 2x2 table with a pipe in one cell (enumerated): Markdown(): every body text exactly once and in source order; heading lines are '#' x min(level,6) + text; list lines are "<number>. " or "- " by the list style's kind for that level, indented two spaces per level; the table is one pipe table read back by the reference GFM reader
func H_C15_odt_package_markdown() {
	n := vAnyIntIn(2, 2+vTier())
	type exp struct {
		kind  string
		text  string
		level int
	}
	var want []exp
	body := ""
	for i := 0; i < n; i++ {
		w := "txt" + string(rune('A'+i))
		switch vAnyIntIn(0, 4) {
		case 0:
			lvl := vAnyIntIn(1, 3)
			body += `<text:h text:style-name="Heading_20_` + string(rune('0'+lvl)) + `" text:outline-level="` + string(rune('0'+lvl)) + `">` + w + `</text:h>`
			want = append(want, exp{"h", w, lvl})
		case 1:
			body += `<text:h text:outline-level="8">` + w + `</text:h>`
			want = append(want, exp{"h", w, 8})
		case 2:
			body += `<text:p text:style-name="P1">` + w + ` <text:span text:style-name="T1">mid</text:span> end</text:p>`
			want = append(want, exp{"p", w + " mid end", 0})
		case 3:
			style, k0, k1 := "L1", "ol", "ul"
			if vAnyIntIn(0, 1) == 1 {
				style, k0, k1 = "L2", "ul", "ul"
			}
			body += `<text:list text:style-name="` + style + `"><text:list-item><text:p>` + w + `0</text:p><text:list><text:list-item><text:p>` + w + `1</text:p></text:list-item></text:list></text:list-item><text:list-item><text:p>` + w + `2</text:p></text:list-item></text:list>`
			want = append(want, exp{k0, w + "0", 0}, exp{k1, w + "1", 1}, exp{k0, w + "2", 0})
		default:
			body += `<table:table table:name="T"><table:table-column table:number-columns-repeated="2"/><table:table-row><table:table-cell><text:p>` + w + `a</text:p></table:table-cell><table:table-cell><text:p>` + w + `b|c</text:p></table:table-cell></table:table-row><table:table-row><table:table-cell><text:p>` + w + `d</text:p></table:table-cell><table:table-cell><text:p>` + w + `e</text:p></table:table-cell></table:table-row></table:table>`
			want = append(want, exp{"tbl", w, 0})
		}
	}
	content := `<?xml version="1.0" encoding="UTF-8"?><office:document-content ` + vOdtNS + ` office:version="1.2"><office:automatic-styles>` +
		`<style:style style:name="P1" style:family="paragraph" style:parent-style-name="Standard"/><style:style style:name="T1" style:family="text"><style:text-properties fo:font-weight="bold"/></style:style>` +
		`<text:list-style style:name="L1"><text:list-level-style-number text:level="1" style:num-format="1" style:num-suffix="."/><text:list-level-style-bullet text:level="2" text:bullet-char="&#9702;"/></text:list-style>` +
		`<text:list-style style:name="L2"><text:list-level-style-bullet text:level="1" text:bullet-char="&#8226;"/><text:list-level-style-bullet text:level="2" text:bullet-char="&#9702;"/></text:list-style>` +
		`</office:automatic-styles><office:body><office:text>` + body + `</office:text></office:body></office:document-content>`
	vZip = &zip.ReadCloser{}
	vMember("mimetype", "application/vnd.oasis.opendocument.text")
	vMember("content.xml", content)
	vMember("styles.xml", `<?xml version="1.0" encoding="UTF-8"?><office:document-styles `+vOdtNS+` office:version="1.2"><office:styles><style:style style:name="Standard" style:family="paragraph" style:class="text"/></office:styles></office:document-styles>`)
	r, err := Open("any.odt")
	vAssert("opens", err == nil && r != nil)
	md, merr := r.Markdown()
	vAssert("markdown-no-error", merr == nil)
	lines := strings.Split(md, "\n")
	li := 0
	for _, w := range want {
		switch w.kind {
		case "h", "p":
			prefix := ""
			if w.kind == "h" {
				lvl := w.level
				if lvl > 6 {
					lvl = 6
				}
				prefix = strings.Repeat("#", lvl) + " "
			}
			k := -1
			for q := li; q < len(lines) && k < 0; q++ {
				if lines[q] == prefix+w.text {
					k = q
				}
			}
			vAssert("heading-or-paragraph-line-in-order", k >= 0)
			li = k + 1
		case "ol", "ul":
			indent := strings.Repeat("  ", w.level)
			k := -1
			for q := li; q < len(lines) && k < 0; q++ {
				ln := lines[q]
				if !strings.HasPrefix(ln, indent) || strings.HasPrefix(ln, indent+" ") {
					continue
				}
				rest := ln[len(indent):]
				if w.kind == "ul" {
					if rest == "- "+w.text {
						k = q
					}
					continue
				}
				d := 0
				for d < len(rest) && rest[d] >= '0' && rest[d] <= '9' {
					d++
				}
				if d > 0 && rest[d:] == ". "+w.text {
					k = q
				}
			}
			vAssert("list-item-order-nesting-and-kind", k >= 0)
			li = k + 1
		default:
			k := -1
			for q := li; q < len(lines) && k < 0; q++ {
				if strings.HasPrefix(lines[q], "|") {
					k = q
				}
			}
			vAssert("table-present-in-order", k >= 0)
			e := k
			for e < len(lines) && strings.HasPrefix(lines[e], "|") {
				e++
			}
			got, ok := vGFMParse(strings.Join(lines[k:e], "\n") + "\n")
			vAssert("table-is-one-pipe-table", ok && len(got) == 2 && len(got[0]) == 2 && len(got[1]) == 2)
			vAssert("table-cell-texts", got[0][0] == w.text+"a" && got[0][1] == w.text+"b|c" && got[1][0] == w.text+"d" && got[1][1] == w.text+"e")
			li = e
		}
	}
	for _, w := range want {
		if w.kind != "tbl" {
			vAssert("no-body-text-lost-or-doubled", strings.Count(md, w.text) == 1)
		}
	}
	vReach("end")
}

// H_C16_odt_header_rows_and_tracked_changes: rows grouped under table:table-header-rows belong to the grid, and the
// record of deleted text kept in text:tracked-changes is not body text.
//
//symgo:harness prop=C16 kernel=K5b-odt-header-rows-tracked-changes noreplay=1
//symgo:redirect archive/zip.OpenReader vStubOpenZip
//symgo:desc zip layer cut (member content model); body = optional text:tracked-changes block holding a deleted paragraph (enumerated), a paragraph, a table whose first row is written directly or inside table:table-header-rows (enumerated) followed by one data row, a paragraph: Open succeeds; the elements are paragraph, table, paragraph in that order; the table has two rows whose cells read hx, hy / a, b; Text() has the four cell texts once and in order between the two paragraphs and does not contain the deleted text
func H_C16_odt_header_rows_and_tracked_changes() {
	tracked := vAnyIntIn(0, 1) == 1
	grouped := vAnyIntIn(0, 1) == 1
	row := func(x, y string) string {
		return `<table:table-row><table:table-cell><text:p>` + x + `</text:p></table:table-cell><table:table-cell><text:p>` + y + `</text:p></table:table-cell></table:table-row>`
	}
	head := row("hx", "hy")
	if grouped {
		head = `<table:table-header-rows>` + head + `</table:table-header-rows>`
	}
	body := ""
	if tracked {
		body += `<text:tracked-changes><text:changed-region text:id="ct1"><text:deletion><office:change-info><dc:creator xmlns:dc="http://purl.org/dc/elements/1.1/">x</dc:creator></office:change-info><text:p>DELETEDTEXT</text:p></text:deletion></text:changed-region></text:tracked-changes>`
	}
	body += `<text:p>before</text:p><table:table table:name="T"><table:table-column table:number-columns-repeated="2"/>` + head + row("a", "b") + `</table:table><text:p>after</text:p>`
	vZip = &zip.ReadCloser{}
	vMember("mimetype", "application/vnd.oasis.opendocument.text")
	vMember("content.xml", `<?xml version="1.0"?><office:document-content `+vOdtNS+`><office:body><office:text>`+body+`</office:text></office:body></office:document-content>`)
	r, err := Open("any.odt")
	vAssert("opens", err == nil && r != nil)
	vAssert("three-elements-in-order", len(r.elements) == 3 && r.elements[0].Type == "paragraph" && r.elements[1].Type == "table" && r.elements[2].Type == "paragraph")
	t := r.elements[1].Table
	vAssert("table-grid-as-authored", t != nil && len(t.Rows) == 2 && len(t.Rows[0].Cells) == 2 && len(t.Rows[1].Cells) == 2)
	vAssert("header-row-first", t.Rows[0].Cells[0].Text == "hx" && t.Rows[0].Cells[1].Text == "hy" && t.Rows[1].Cells[0].Text == "a" && t.Rows[1].Cells[1].Text == "b")
	txt, terr := r.Text()
	vAssert("text-no-error", terr == nil)
	pos := 0
	for _, w := range []string{"before", "hx", "hy", "a", "b", "after"} {
		k := strings.Index(txt[pos:], w)
		vAssert("body-texts-in-document-order", k >= 0)
		if k >= 0 {
			pos += k + len(w)
		}
	}
	vAssert("deleted-text-is-not-body-text", !strings.Contains(txt, "DELETEDTEXT"))
	vReach("end")
}
