//go:build verif_harness

package odt

// ---- reference reader for GitHub-flavoured-Markdown pipe tables (GFM spec 4.10), used as the oracle.

// vGFMSplitRow splits one table line into trimmed cell texts; "\|" is a literal pipe.
func vGFMSplitRow(line string) []string {
	// trim spaces
	for len(line) > 0 && (line[0] == ' ' || line[0] == '\t') {
		line = line[1:]
	}
	for len(line) > 0 && (line[len(line)-1] == ' ' || line[len(line)-1] == '\t') {
		line = line[:len(line)-1]
	}
	if len(line) > 0 && line[0] == '|' {
		line = line[1:]
	}
	// a trailing unescaped pipe closes the last cell
	if n := len(line); n > 0 && line[n-1] == '|' && (n < 2 || line[n-2] != '\\') {
		line = line[:n-1]
	}
	var cells []string
	var cur []byte
	for i := 0; i < len(line); i++ {
		c := line[i]
		if c == '\\' && i+1 < len(line) && line[i+1] == '|' {
			cur = append(cur, '|')
			i++
			continue
		}
		if c == '|' {
			cells = append(cells, vGFMTrim(string(cur)))
			cur = nil
			continue
		}
		cur = append(cur, c)
	}
	return append(cells, vGFMTrim(string(cur)))
}

func vGFMTrim(s string) string {
	for len(s) > 0 && (s[0] == ' ' || s[0] == '\t') {
		s = s[1:]
	}
	for len(s) > 0 && (s[len(s)-1] == ' ' || s[len(s)-1] == '\t') {
		s = s[:len(s)-1]
	}
	return s
}

func vGFMIsDelimiterCell(s string) bool {
	if len(s) > 0 && s[0] == ':' {
		s = s[1:]
	}
	if len(s) > 0 && s[len(s)-1] == ':' {
		s = s[:len(s)-1]
	}
	if len(s) == 0 {
		return false
	}
	for i := 0; i < len(s); i++ {
		if s[i] != '-' {
			return false
		}
	}
	return true
}

// vGFMParse reads md as exactly one pipe table and returns its rows (header first); ok=false if md is not one table.
func vGFMParse(md string) ([][]string, bool) {
	var lines []string
	start := 0
	for i := 0; i <= len(md); i++ {
		if i == len(md) || md[i] == '\n' {
			if i > start || i < len(md) {
				lines = append(lines, md[start:i])
			}
			start = i + 1
		}
	}
	for len(lines) > 0 && lines[len(lines)-1] == "" {
		lines = lines[:len(lines)-1]
	}
	if len(lines) < 2 {
		return nil, false
	}
	header := vGFMSplitRow(lines[0])
	delim := vGFMSplitRow(lines[1])
	if len(delim) != len(header) {
		return nil, false
	}
	for _, d := range delim {
		if !vGFMIsDelimiterCell(d) {
			return nil, false
		}
	}
	rows := [][]string{header}
	for _, ln := range lines[2:] {
		if ln == "" {
			return nil, false // a blank line would end the table: the output is more than one block
		}
		cells := vGFMSplitRow(ln)
		for len(cells) < len(header) {
			cells = append(cells, "")
		}
		rows = append(rows, cells[:len(header)])
	}
	return rows, true
}

// vSymCells bounds how many cells of a table are symbolic (the others hold a concrete text).
var vSymCells int

// vCellText: 0..2 symbolic bytes over the alphabet that matters for pipe tables.
func vCellText() string {
	if vSymCells <= 0 {
		return "é|y" // a non-ASCII character and a pipe
	}
	vSymCells--
	n := vAnyIntIn(0, 2)
	b := make([]byte, n)
	for i := range b {
		b[i] = vAnyByteOf("|\n a-")
	}
	return string(b)
}

// vNormCell: what a Markdown reader may legitimately see for a cell: newlines become spaces, outer blanks are trimmed.
func vNormCell(s string) string {
	b := []byte(s)
	for i := range b {
		if b[i] == '\n' {
			b[i] = ' '
		}
	}
	return vGFMTrim(string(b))
}

// H_C15_odt_table_markdown: tables with merged cells still come out as one well-formed pipe table with every cell text once.
//
//symgo:harness prop=C15 kernel=K1-odt-table
//symgo:desc 1..2 rows; each row 1..2 cells; every cell: text as above, ColSpan symbolic in {1,2}, vertical-merge continuation flag symbolic (not in the first row); the grid width is the widest row: output is one pipe table whose header and delimiter rows have the same cell count, every cell text sits in the grid column where its cell starts; covered cells and the extra columns of a spanning cell are blank
func H_C15_odt_table_markdown() {
	vSymCells = 2 + 2*vTier()
	rows := vAnyIntIn(1, 2)
	pt := &ParsedTable{}
	type placed struct {
		col  int
		text string
	}
	var want [][]placed
	width := 0
	for i := 0; i < rows; i++ {
		var r ParsedTableRow
		var w []placed
		rowWidth := 0
		for j, nc := 0, vAnyIntIn(1, 2); j < nc; j++ {
			c := ParsedTableCell{Text: vCellText(), ColSpan: vAnyIntIn(1, 2), RowSpan: 1}
			if i > 0 && vAnyIntIn(0, 1) == 1 {
				c.IsCovered = true
			}
			r.Cells = append(r.Cells, c)
			if !c.IsCovered {
				w = append(w, placed{rowWidth, vNormCell(c.Text)})
			}
			rowWidth += c.ColSpan
		}
		if rowWidth > width {
			width = rowWidth
		}
		pt.Rows = append(pt.Rows, r)
		want = append(want, w)
	}
	md := pt.ToMarkdown()
	got, ok := vGFMParse(md)
	vAssert("is-one-pipe-table", ok)
	vAssert("row-count", len(got) == rows)
	for i := 0; i < rows; i++ {
		vAssert("column-count-is-grid-width", len(got[i]) == width)
		// every cell text sits in the grid column where its cell starts; all other cells of the row are blank
		for c := 0; c < width; c++ {
			exp := ""
			for _, pl := range want[i] {
				if pl.col == c {
					exp = pl.text
				}
			}
			vAssert("cell-text-in-its-grid-column", got[i][c] == exp)
		}
	}
	vReach("end")
}

// H_C15_odt_row_spans: a cell spanning several rows (number-rows-spanned) shifts nothing: every real cell of the rows
// below still lands in its own grid column of the Markdown table, wherever the spanning cell sits - first, middle or
// last column.
//
//symgo:harness prop=C15 kernel=K1-odt-row-spans
//symgo:desc harness-built tableXML (XML unmarshalling outside the claim), 3 columns x 3..4 rows; one cell in row 1 at column k in 0..2 (enumerated) has number-rows-spanned = a symbolic digit 2..3; the rows it covers contain only their two real cells (covered cells are not part of the parsed XML); all texts distinct: ParseTable + ToMarkdown is one pipe table read back by the reference GFM reader with 3 columns in every row, each real cell's text in its grid column and the covered positions blank
func H_C15_odt_row_spans() {
	rows := vAnyIntIn(3, 4)
	k := vAnyIntIn(0, 2)
	d := vAnyByteOf("23")
	span := int(d - '0')
	var tbl tableXML
	want := make([][3]string, rows)
	for i := 0; i < rows; i++ {
		var row tableRowXML
		for c := 0; c < 3; c++ {
			if c == k && i >= 1 && i < span {
				continue // covered by the spanning cell above
			}
			txt := "r" + string(rune('0'+i)) + "c" + string(rune('0'+c))
			cell := tableCellXML{Paragraphs: []paragraphXML{{Text: txt}}}
			if c == k && i == 0 {
				cell.NumberRowsSpanned = string([]byte{d})
			}
			row.Cells = append(row.Cells, cell)
			want[i][c] = txt
		}
		tbl.Rows = append(tbl.Rows, row)
	}
	pt := NewTableParser(nil).ParseTable(tbl)
	md := pt.ToMarkdown()
	got, ok := vGFMParse(md)
	vAssert("is-one-pipe-table", ok)
	vAssert("row-count", len(got) == rows)
	for i := 0; i < rows; i++ {
		vAssert("three-columns", len(got[i]) == 3)
		for c := 0; c < 3; c++ {
			vAssert("cell-text-in-its-grid-column", got[i][c] == want[i][c])
		}
	}
	vReach("end")
}

// H_C02_odt_overlapping_spans: a table whose row and column spans overlap or run past the grid - as a damaged or hostile
// document may have them - never crashes table parsing or rendering.
//
//symgo:harness prop=C02 kernel=odt.TableParser-spans
//symgo:desc harness-built tableXML of 2..3 rows with 1..2 cells each (enumerated); in the first two rows every cell's number-rows-spanned (1..3) and number-columns-spanned (1..2) are enumerated independently: ParseTable, ToMarkdown, ToText and ToModelTable return without a run-time panic
func H_C02_odt_overlapping_spans() {
	rows := vAnyIntIn(2, 3)
	var tbl tableXML
	for i := 0; i < rows; i++ {
		var row tableRowXML
		for c, n := 0, vAnyIntIn(1, 2); c < n; c++ {
			rs, cs := "1", "1"
			if i < 2 { // spans vary in the first two rows; a third row, if any, is plain
				rs, cs = string(rune('0'+vAnyIntIn(1, 3))), string(rune('0'+vAnyIntIn(1, 2)))
			}
			row.Cells = append(row.Cells, tableCellXML{NumberRowsSpanned: rs, NumberColumnsSpanned: cs, Paragraphs: []paragraphXML{{Text: "t"}}})
		}
		tbl.Rows = append(tbl.Rows, row)
	}
	pt := NewTableParser(nil).ParseTable(tbl)
	_ = pt.ToMarkdown()
	_ = pt.ToText()
	_ = pt.ToModelTable()
	vReach("end")
}
