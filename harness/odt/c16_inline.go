//go:build verif_harness

package odt

const vOdtHead = `<?xml version="1.0" encoding="UTF-8"?><office:document-content xmlns:office="urn:oasis:names:tc:opendocument:xmlns:office:1.0" xmlns:text="urn:oasis:names:tc:opendocument:xmlns:text:1.0" xmlns:table="urn:oasis:names:tc:opendocument:xmlns:table:1.0" xmlns:xlink="http://www.w3.org/1999/xlink"><office:body><office:text>`
const vOdtTail = `</office:text></office:body></office:document-content>`

// H_C16_odt_inline_order: the text of a paragraph or heading is its inline content in source order: direct text, spans,
// tabs, line breaks and repeated spaces, however they are interleaved.
//
//symgo:harness prop=C16 kernel=K4-odt-inline-order
//symgo:desc content.xml text built by the harness and read by the real parseBodyElements (real encoding/xml tokeniser interpreted; the reflection walk of Unmarshal is the engine's model, validated natively): one text:p or text:h (enumerated) with 1..3 quick / 1..4 thorough inline pieces, each plain text, a text:span, a text:tab, a text:line-break, a text:s with a count, a text:a link or a span holding text, a nested span and a tab (enumerated): the parsed paragraph's Text is the pieces' texts concatenated in source order (tab = "\t", line break = "\n", text:s = its count of spaces, links and nested spans contribute their text)
func H_C16_odt_inline_order() {
	tag := []string{"text:p", "text:h"}[vAnyIntIn(0, 1)]
	n := vAnyIntIn(1, 3+vTier())
	xmlText, want := vOdtHead+"<"+tag+">", ""
	for i := 0; i < n; i++ {
		w := "w" + string(rune('A'+i))
		switch vAnyIntIn(0, 6) {
		case 0:
			xmlText += w
			want += w
		case 1:
			xmlText += `<text:span text:style-name="T1">` + w + `</text:span>`
			want += w
		case 2:
			xmlText += `<text:tab/>`
			want += "\t"
		case 3:
			xmlText += `<text:line-break/>`
			want += "\n"
		case 4:
			xmlText += `<text:s text:c="2"/>`
			want += "  "
		case 5:
			xmlText += `<text:a xlink:type="simple" xlink:href="http://example.org/">` + w + `</text:a>`
			want += w
		default:
			xmlText += `<text:span text:style-name="T1">` + w + `<text:span text:style-name="T2">in</text:span><text:tab/></text:span>`
			want += w + "in\t"
		}
	}
	xmlText += "</" + tag + ">" + vOdtTail
	r := &Reader{listParser: NewListParser(nil), tableParser: NewTableParser(nil)}
	err := r.parseBodyElements([]byte(xmlText))
	vAssert("no-error", err == nil)
	vAssert("one-paragraph", len(r.paragraphs) == 1 && len(r.elements) == 1)
	vObserveStr("text", r.paragraphs[0].Text)
	vAssert("inline-content-in-source-order", r.paragraphs[0].Text == want)
	vReach("end")
}

// H_C16_odt_body_order: paragraphs, headings, list items and tables come out interleaved exactly as in the source, with
// heading levels and list nesting as authored; paragraphs wrapped in a text:section are part of the body flow.
//
//symgo:harness prop=C16 kernel=K2-odt-body-order
//symgo:desc content.xml text built by the harness, read by the real parseBodyElements: 1..3 quick / 1..4 thorough body elements, each a paragraph, a heading with outline level a symbolic digit 1..9, a two-item list whose second item carries a nested one-item list, a one-row two-cell table, or a text:section holding one paragraph (enumerated): r.elements lists, in source order, one paragraph element per paragraph/heading/list item (with IsHeading/Level, IsListItem/ListLevel set) and one table element per table whose cells hold their texts
func H_C16_odt_body_order() {
	n := vAnyIntIn(1, 3+vTier())
	xmlText := vOdtHead
	type exp struct {
		kind  string // p, h, li, tbl
		text  string
		level int
	}
	var want []exp
	for i := 0; i < n; i++ {
		w := "e" + string(rune('A'+i))
		switch vAnyIntIn(0, 4) {
		case 0:
			xmlText += `<text:p text:style-name="Standard">` + w + `</text:p>`
			want = append(want, exp{"p", w, 0})
		case 1:
			d := vAnyByteOf("123456789")
			xmlText += `<text:h text:outline-level="` + string([]byte{d}) + `">` + w + `</text:h>`
			want = append(want, exp{"h", w, int(d - '0')})
		case 2:
			xmlText += `<text:list><text:list-item><text:p>` + w + `0</text:p></text:list-item><text:list-item><text:p>` + w + `1</text:p><text:list><text:list-item><text:p>` + w + `2</text:p></text:list-item></text:list></text:list-item></text:list>`
			want = append(want, exp{"li", w + "0", 0}, exp{"li", w + "1", 0}, exp{"li", w + "2", 1})
		case 3:
			xmlText += `<table:table><table:table-column table:number-columns-repeated="2"/><table:table-row><table:table-cell><text:p>` + w + `0</text:p></table:table-cell><table:table-cell><text:p>` + w + `1</text:p></table:table-cell></table:table-row></table:table>`
			want = append(want, exp{"tbl", w, 0})
		default:
			xmlText += `<text:section text:name="S"><text:p>` + w + `</text:p></text:section>`
			want = append(want, exp{"p", w, 0})
		}
	}
	xmlText += vOdtTail
	r := &Reader{listParser: NewListParser(nil), tableParser: NewTableParser(nil)}
	err := r.parseBodyElements([]byte(xmlText))
	vAssert("no-error", err == nil)
	vAssert("element-count", len(r.elements) == len(want))
	for i, w := range want {
		e := r.elements[i]
		if w.kind == "tbl" {
			vAssert("table-in-source-position", e.Type == "table" && e.Table != nil && len(e.Table.Rows) == 1 && len(e.Table.Rows[0].Cells) == 2)
			vAssert("table-cell-texts", e.Table.Rows[0].Cells[0].Text == w.text+"0" && e.Table.Rows[0].Cells[1].Text == w.text+"1")
			continue
		}
		vAssert("paragraph-in-source-position", e.Type == "paragraph" && e.Paragraph != nil && e.Paragraph.Text == w.text)
		switch w.kind {
		case "h":
			vAssert("heading-level-as-authored", e.Paragraph.IsHeading && e.Paragraph.Level == w.level)
		case "li":
			vAssert("list-nesting-as-authored", e.Paragraph.IsListItem && e.Paragraph.ListLevel == w.level)
		default:
			vAssert("plain-paragraph", !e.Paragraph.IsHeading && !e.Paragraph.IsListItem)
		}
	}
	vReach("end")
}
