//go:build verif_harness

package core

import "bytes"

type vNilResolver struct{}

func (vNilResolver) ResolveReference(ref IndirectRef) (Object, error) { return Int(3), nil }

// H_C02_core_parse_object: the document-level parser returns a value or an error for every byte string.
//
//symgo:harness prop=C02 kernel=core.ParseObject hang=1 loop=96 depth=40
//symgo:desc all byte strings of length 0..3 quick / 0..5 thorough through the real bufio.Reader: ParseObject never panics, exceeds call depth 40 or iterates a loop more than 96 times
func H_C02_core_parse_object() {
	maxN := 3
	if vTier() > 0 {
		maxN = 5
	}
	n := vAnyIntIn(0, maxN)
	b := vAnyBytes(n)
	obj, err := NewParser(bytes.NewReader(b)).ParseObject()
	_, _ = obj, err
	vReach("end")
}

// H_C02_core_parse_indirect: same for ParseIndirectObject, with and without a reference resolver.
//
//symgo:harness prop=C02 kernel=core.ParseIndirectObject hang=1 loop=96 depth=40
//symgo:desc all byte strings of length 0..3 quick / 0..4 thorough appended to the concrete prefix "1 0 obj" or to nothing (enumerated); resolver nil or a stub (enumerated)
func H_C02_core_parse_indirect() {
	maxN := 3
	if vTier() > 0 {
		maxN = 4
	}
	n := vAnyIntIn(0, maxN)
	b := vAnyBytes(n)
	var data []byte
	if vAnyIntIn(0, 1) == 1 {
		data = append([]byte("1 0 obj "), b...)
	} else {
		data = b
	}
	p := NewParser(bytes.NewReader(data))
	if vAnyIntIn(0, 1) == 1 {
		p.SetReferenceResolver(vNilResolver{})
	}
	obj, err := p.ParseIndirectObject()
	_, _ = obj, err
	vReach("end")
}
