//go:build verif_harness

package core

import "bytes"

type vNilResolver struct{}

func (vNilResolver) ResolveReference(ref IndirectRef) (Object, error) { return Int(3), nil }

// H_C02_core_parse_object: the document-level parser returns a value or an error for every byte string.
//
//symgo:harness prop=C02 kernel=core.ParseObject hang=1 loop=96 depth=40
//symgo:desc all byte strings of length 0..3 quick / 0..5 thorough through the real bufio.Reader: ParseObject never panics, exceeds call depth 40 or iterates a loop more than 96 times
func H_C02_core_parse_object() {
	maxN := 3
	if vTier() > 0 {
		maxN = 5
	}
	n := vAnyIntIn(0, maxN)
	b := vAnyBytes(n)
	obj, err := NewParser(bytes.NewReader(b)).ParseObject()
	_, _ = obj, err
	vReach("end")
}

// H_C02_core_parse_indirect: same for ParseIndirectObject, with and without a reference resolver.
//
//symgo:harness prop=C02 kernel=core.ParseIndirectObject hang=1 loop=96 depth=40
//symgo:desc all byte strings of length 0..3 quick / 0..4 thorough appended to the concrete prefix "1 0 obj" or to nothing (enumerated); resolver nil or a stub (enumerated)
func H_C02_core_parse_indirect() {
	maxN := 3
	if vTier() > 0 {
		maxN = 4
	}
	n := vAnyIntIn(0, maxN)
	b := vAnyBytes(n)
	var data []byte
	if vAnyIntIn(0, 1) == 1 {
		data = append([]byte("1 0 obj "), b...)
	} else {
		data = b
	}
	p := NewParser(bytes.NewReader(data))
	if vAnyIntIn(0, 1) == 1 {
		p.SetReferenceResolver(vNilResolver{})
	}
	obj, err := p.ParseIndirectObject()
	_, _ = obj, err
	vReach("end")
}

// H_C02_core_nesting_is_bounded: the document-level parser's recursion does not grow with the nesting an input asks for.
//
//symgo:harness prop=C02 kernel=core.ParseObject-nesting hang=1 depth=1500 loop=100000 steps=400000000
//symgo:desc object text made of k opening brackets - "[" or "<</K" or "[<</K" (enumerated) - with k = 2000 in the engine, through ParseObject and ParseIndirectObject ("1 0 obj" prefix; enumerated): the call depth stays below 1500; the candidate is replayed natively with k = 30 million
func H_C02_core_nesting_is_bounded() {
	k := 2000
	if !vIsSymbolic() {
		k = 30000000
	}
	unit := []string{"[", "<</K", "[<</K"}[vAnyIntIn(0, 2)]
	data := bytes.Repeat([]byte(unit), k)
	if vAnyIntIn(0, 1) == 0 {
		_, _ = NewParser(bytes.NewReader(data)).ParseObject()
	} else {
		_, _ = NewParser(bytes.NewReader(append([]byte("1 0 obj "), data...))).ParseIndirectObject()
	}
	vReach("end")
}
