//go:build verif_harness

package core

import "bytes"

var vXRefStreamObj *IndirectObject

func vStubParseIndirect(p *Parser) (*IndirectObject, error) { return vXRefStreamObj, nil }

// H_C02_xref_stream_fields: field widths, subsection index and size of a cross-reference stream are attacker-controlled numbers.
//
//symgo:harness prop=C02 kernel=core.parseXRefStream hang=1 loop=300 alloc=65536 noreplay=1
//symgo:redirect (*github.com/tsawler/tabula/core.Parser).ParseIndirectObject vStubParseIndirect
//symgo:desc /W = three full-range symbolic integers; /Index absent or 1..3 full-range symbolic integers (odd lengths included); /Size symbolic; data = 0..4 symbolic bytes (thorough 0..8); the object parser is cut (redirected to a harness-built stream object); loop bound 300, allocation budget 64 KiB
func H_C02_xref_stream_fields() {
	maxD := 4
	if vTier() > 0 {
		maxD = 8
	}
	d := Dict{"Type": Name("XRef"), "Size": Int(vAnyInt()), "W": Array{Int(vAnyInt()), Int(vAnyInt()), Int(vAnyInt())}}
	if k := vAnyIntIn(0, 3); k > 0 {
		idx := Array{}
		for i := 0; i < k; i++ {
			idx = append(idx, Int(vAnyInt()))
		}
		d["Index"] = idx
	}
	vXRefStreamObj = &IndirectObject{Ref: IndirectRef{Number: 9}, Object: &Stream{Dict: d, Data: vAnyBytes(vAnyIntIn(0, maxD))}}
	x := NewXRefParser(bytes.NewReader(nil))
	_, _ = x.parseXRefStream()
	vReach("end")
}

// H_C02_objstm_fields: /N, /First and the header of an object stream are attacker-controlled.
//
//symgo:harness prop=C02 kernel=core.ObjectStream hang=1 loop=300 alloc=65536
//symgo:desc /N and /First full-range symbolic integers; decoded data = 0..5 symbolic bytes quick / 0..7 thorough over {digit, space, '-'}; index symbolic; GetObjectByIndex and GetObjectByNumber
func H_C02_objstm_fields() {
	maxD := 5
	if vTier() > 0 {
		maxD = 7
	}
	n := vAnyIntIn(0, maxD)
	data := make([]byte, n)
	for i := range data {
		data[i] = vAnyByteOf("0123456789 -")
	}
	st := &Stream{Dict: Dict{"Type": Name("ObjStm"), "N": Int(vAnyInt()), "First": Int(vAnyInt())}, Data: data}
	os, err := NewObjectStream(st)
	if err == nil {
		if vAnyIntIn(0, 1) == 0 {
			_, _, _ = os.GetObjectByIndex(vAnyInt())
		} else {
			_, _, _ = os.GetObjectByNumber(vAnyInt())
		}
	}
	vReach("end")
}

var vPrevSections []*XRefTable

func vStubFromEOF2(x *XRefParser) (*XRefTable, error) { return vPrevSections[0], nil }
func vStubParseXRef2(x *XRefParser, offset int64) (*XRefTable, error) {
	if offset < 0 || int(offset) >= len(vPrevSections) {
		return nil, errVStub{}
	}
	return vPrevSections[offset], nil
}

// H_C02_prev_chain_cycles: a /Prev chain that points back into itself must not loop forever.
//
//symgo:harness prop=C02 kernel=core.ParseAllXRefs hang=1 loop=64 alloc=65536 noreplay=1
//symgo:redirect (*github.com/tsawler/tabula/core.XRefParser).ParseXRefFromEOF vStubFromEOF2
//symgo:redirect (*github.com/tsawler/tabula/core.XRefParser).ParseXRef vStubParseXRef2
//symgo:desc 1..3 sections; each /Prev absent or a symbolic section index in [0,n) (self and backward references included); file access cut; loop bound 64
func H_C02_prev_chain_cycles() {
	n := vAnyIntIn(1, 3)
	vPrevSections = nil
	for i := 0; i < n; i++ {
		t := NewXRefTable()
		if vAnyIntIn(0, 1) == 1 {
			t.Trailer["Prev"] = Int(vAnyIntIn(0, n-1))
		}
		vPrevSections = append(vPrevSections, t)
	}
	x := NewXRefParser(bytes.NewReader(nil))
	_, _ = x.ParseAllXRefs()
	vReach("end")
}
