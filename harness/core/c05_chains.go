//go:build verif_harness

package core

import "errors"

// vStubZlib stands in for filters.zlibDecompress (compress/zlib is not executable in the engine):
// an injective marker codec - a "compressed" stream is 'Z' followed by the payload.
func vStubZlib(data []byte) ([]byte, error) {
	if len(data) == 0 || data[0] != 'Z' {
		return nil, errors.New("stub zlib: bad stream")
	}
	return data[1:], nil
}

func vHexEnc(data []byte) []byte {
	const digits = "0123456789ABCDEF"
	out := make([]byte, 0, 2*len(data)+1)
	for _, b := range data {
		out = append(out, digits[b>>4], digits[b&15])
	}
	return append(out, '>')
}

// H_C05_filter_chains: a filter chain is applied in array order, the i-th DecodeParms entry goes to the i-th filter,
// abbreviated names mean the same as full names, and DecodeParms may be a dictionary, an array, null or absent.
//
//symgo:harness prop=C05 kernel=K4-chains noreplay=1
//symgo:redirect github.com/tsawler/tabula/internal/filters.zlibDecompress vStubZlib
//symgo:desc payload of 2 symbolic bytes; chain of 1..3 filters drawn from {ASCIIHexDecode, FlateDecode without predictor, FlateDecode with TIFF predictor Columns 2} (enumerated, with repetition), each spelled with its full or abbreviated name (enumerated); DecodeParms given as the matching array (null entries for filters without parameters), as a single dictionary for one-filter streams, or absent when no filter needs parameters; zlib is cut by an injective marker codec: Decode returns the payload
func H_C05_filter_chains() {
	x := vAnyBytes(2)
	n := vAnyIntIn(1, 3)
	kinds := make([]int, n)
	for i := range kinds {
		kinds[i] = vAnyIntIn(0, 2)
	}
	// encode: the last filter of the array is applied first by the encoder
	data := append([]byte{}, x...)
	for i := n - 1; i >= 0; i-- {
		switch kinds[i] {
		case 0:
			data = vHexEnc(data)
		case 1:
			data = append([]byte{'Z'}, data...)
		default:
			// TIFF predictor 2, one row per Columns 2 samples: each sample minus the one to its left
			vAssume(len(data)%2 == 0)
			enc := make([]byte, len(data))
			for k := range data {
				enc[k] = data[k]
				if k%2 == 1 {
					enc[k] -= data[k-1]
				}
			}
			data = append([]byte{'Z'}, enc...)
		}
	}
	names := [][2]string{{"ASCIIHexDecode", "AHx"}, {"FlateDecode", "Fl"}, {"FlateDecode", "Fl"}}
	var filters Array
	var parms Array
	needParms := false
	for i := 0; i < n; i++ {
		filters = append(filters, Name(names[kinds[i]][vAnyIntIn(0, 1)]))
		if kinds[i] == 2 {
			parms = append(parms, Dict{"Predictor": Int(2), "Columns": Int(2), "Colors": Int(1), "BitsPerComponent": Int(8)})
			needParms = true
		} else {
			parms = append(parms, Null{})
		}
	}
	d := Dict{}
	if n == 1 && vAnyIntIn(0, 1) == 1 {
		d["Filter"] = filters[0]
		if needParms {
			d["DecodeParms"] = parms[0]
		} else if vAnyIntIn(0, 1) == 1 {
			d["DecodeParms"] = Null{}
		}
	} else {
		d["Filter"] = filters
		if needParms || vAnyIntIn(0, 1) == 1 {
			d["DecodeParms"] = parms
		}
	}
	got, err := (&Stream{Dict: d, Data: data}).Decode()
	vAssert("no-error", err == nil)
	vAssert("length", len(got) == len(x))
	for i := range x {
		vAssert("chain-roundtrip", got[i] == x[i])
	}
	vReach("end")
}
