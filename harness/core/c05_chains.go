//go:build verif_harness

package core

import (
	"bytes"
	"compress/zlib"
	"errors"
)

// vStubZlib stands in for filters.zlibDecompress (compress/zlib is not executable in the engine):
// an injective marker codec - a "compressed" stream is 'Z' followed by the payload.
func vStubZlib(data []byte) ([]byte, error) {
	if len(data) == 0 || data[0] != 'Z' {
		return nil, errors.New("stub zlib: bad stream")
	}
	return data[1:], nil
}

func vHexEnc(data []byte) []byte {
	const digits = "0123456789ABCDEF"
	out := make([]byte, 0, 2*len(data)+1)
	for _, b := range data {
		out = append(out, digits[b>>4], digits[b&15])
	}
	return append(out, '>')
}

// H_C05_filter_chains: a filter chain is applied in array order, the i-th DecodeParms entry goes to the i-th filter,
// abbreviated names mean the same as full names, and DecodeParms may be a dictionary, an array, null or absent.
//
//symgo:harness prop=C05 kernel=K4-chains noreplay=1
//symgo:redirect github.com/tsawler/tabula/internal/filters.zlibDecompress vStubZlib
//symgo:desc payload of 2 symbolic bytes; chain of 1..3 filters drawn from {ASCIIHexDecode, FlateDecode without predictor, FlateDecode with TIFF predictor Columns 2} (enumerated, with repetition), each spelled with its full or abbreviated name (enumerated); DecodeParms given as the matching array (null entries for filters without parameters), as a single dictionary for one-filter streams, or absent when no filter needs parameters; zlib is cut by an injective marker codec: Decode returns the payload
func H_C05_filter_chains() {
	x := vAnyBytes(2)
	n := vAnyIntIn(1, 3)
	kinds := make([]int, n)
	for i := range kinds {
		kinds[i] = vAnyIntIn(0, 2)
	}
	// encode: the last filter of the array is applied first by the encoder
	data := append([]byte{}, x...)
	for i := n - 1; i >= 0; i-- {
		switch kinds[i] {
		case 0:
			data = vHexEnc(data)
		case 1:
			data = append([]byte{'Z'}, data...)
		default:
			// TIFF predictor 2, one row per Columns 2 samples: each sample minus the one to its left
			vAssume(len(data)%2 == 0)
			enc := make([]byte, len(data))
			for k := range data {
				enc[k] = data[k]
				if k%2 == 1 {
					enc[k] -= data[k-1]
				}
			}
			data = append([]byte{'Z'}, enc...)
		}
	}
	names := [][2]string{{"ASCIIHexDecode", "AHx"}, {"FlateDecode", "Fl"}, {"FlateDecode", "Fl"}}
	var filters Array
	var parms Array
	needParms := false
	for i := 0; i < n; i++ {
		filters = append(filters, Name(names[kinds[i]][vAnyIntIn(0, 1)]))
		if kinds[i] == 2 {
			parms = append(parms, Dict{"Predictor": Int(2), "Columns": Int(2), "Colors": Int(1), "BitsPerComponent": Int(8)})
			needParms = true
		} else {
			parms = append(parms, Null{})
		}
	}
	d := Dict{}
	if n == 1 && vAnyIntIn(0, 1) == 1 {
		d["Filter"] = filters[0]
		if needParms {
			d["DecodeParms"] = parms[0]
		} else if vAnyIntIn(0, 1) == 1 {
			d["DecodeParms"] = Null{}
		}
	} else {
		d["Filter"] = filters
		if needParms || vAnyIntIn(0, 1) == 1 {
			d["DecodeParms"] = parms
		}
	}
	got, err := (&Stream{Dict: d, Data: data}).Decode()
	vAssert("no-error", err == nil)
	vAssert("length", len(got) == len(x))
	for i := range x {
		vAssert("chain-roundtrip", got[i] == x[i])
	}
	vReach("end")
}

// vZlibStoredSym wraps data (which may hold symbolic bytes) in a zlib stream of one stored deflate block. The Adler-32
// trailer is computed the way hash/adler32 does for short inputs (sums first, one reduction at the end), so that the
// reader's own checksum over the same symbolic bytes is the same term.
func vZlibStoredSym(data []byte) []byte {
	n := len(data)
	s1, s2 := uint32(1), uint32(0)
	for _, b := range data {
		s1 += uint32(b)
		s2 += s1
	}
	s1 %= 65521
	s2 %= 65521
	ad := s2<<16 | s1
	out := []byte{0x78, 0x01, 0x01, byte(n), byte(n >> 8), byte(^n), byte(^n >> 8)}
	out = append(out, data...)
	return append(out, byte(ad>>24), byte(ad>>16), byte(ad>>8), byte(ad))
}

// H_C05_flate_real_zlib: FlateDecode through the real compress/zlib (interpreted): what a conforming encoder produced
// decodes to the original bytes, alone, under ASCIIHex, and with the PNG Up predictor; a corrupted checksum is an error,
// not wrong bytes.
//
//symgo:harness prop=C05 kernel=K5-flate-real-zlib
//symgo:desc payload of 1..3 fully symbolic bytes, deflate-encoded by the harness as one stored block with a correct Adler-32 (compressed blocks are not generated); pipeline enumerated: FlateDecode, [/Fl] with DecodeParms [null], FlateDecode with Predictor 12 / Columns = payload length (one row tagged Up after a zero row, i.e. the payload itself), or FlateDecode of a stream whose last checksum byte is altered by a symbolic non-zero XOR mask: Stream.Decode returns exactly the payload, or - corrupted checksum - an error
func H_C05_flate_real_zlib() {
	n := vAnyIntIn(1, 3)
	payload := vAnyBytes(n)
	mode := vAnyIntIn(0, 3)
	var s *Stream
	switch mode {
	case 0:
		s = &Stream{Dict: Dict{"Filter": Name("FlateDecode")}, Data: vZlibStoredSym(payload)}
	case 1:
		s = &Stream{Dict: Dict{"Filter": Array{Name("Fl")}, "DecodeParms": Array{Null{}}}, Data: vZlibStoredSym(payload)}
	case 2:
		row := append([]byte{2}, payload...) // PNG row: tag Up, predicted against an all-zero previous row = the payload
		s = &Stream{Dict: Dict{"Filter": Name("FlateDecode"), "DecodeParms": Dict{"Predictor": Int(12), "Columns": Int(n)}}, Data: vZlibStoredSym(row)}
	default:
		z := vZlibStoredSym(payload)
		mask := vAnyByte()
		vAssume(mask != 0)
		z[len(z)-1] ^= mask
		s = &Stream{Dict: Dict{"Filter": Name("FlateDecode")}, Data: z}
	}
	out, err := s.Decode()
	if mode == 3 {
		vAssert("corrupted-checksum-is-an-error", err != nil)
		vReach("corrupt")
		return
	}
	vAssert("decodes", err == nil)
	vAssert("length", len(out) == n)
	for i := 0; i < n && i < len(out); i++ {
		vAssert("roundtrip", out[i] == payload[i])
	}
	vReach("end")
}

// H_C05_flate_highly_compressible: long constant or periodic data - which deflate shrinks by three orders of magnitude -
// decodes completely; nothing is cut off and no error is raised.
//
//symgo:harness prop=C05 kernel=K5-flate-compressible loop=400000 steps=400000000
//symgo:desc payload of 36000 bytes: all zero, all 0xFF, or period-4 (enumerated), compressed in the harness by the real compress/zlib writer (interpreted), decoded through Stream.Decode with FlateDecode alone or with PNG predictor 10 over 36 rows of 999 data bytes + tag 0 (enumerated): the result has the full length and the same bytes
func H_C05_flate_highly_compressible() {
	const n = 36000
	kind := vAnyIntIn(0, 2)
	payload := make([]byte, n)
	for i := range payload {
		switch kind {
		case 1:
			payload[i] = 0xFF
		case 2:
			payload[i] = byte("abcd"[i%4])
		}
	}
	withPredictor := vAnyIntIn(0, 1) == 1
	var buf bytes.Buffer
	zw := zlib.NewWriter(&buf)
	_, werr := zw.Write(payload)
	cerr := zw.Close()
	vAssert("harness-compressor-ok", werr == nil && cerr == nil)
	s := &Stream{Dict: Dict{"Filter": Name("FlateDecode")}, Data: buf.Bytes()}
	want := payload
	if withPredictor {
		// read the same bytes as 36 PNG rows of 1000: a tag byte (0 for the zero payload = None; otherwise the row's
		// first byte must be a valid tag, so only the zero payload takes this branch)
		vAssume(kind == 0)
		s.Dict["DecodeParms"] = Dict{"Predictor": Int(10), "Columns": Int(999)}
		want = make([]byte, 36*999)
	}
	out, err := s.Decode()
	vAssert("decodes", err == nil)
	vAssert("full-length", len(out) == len(want))
	vAssert("same-bytes", bytes.Equal(out, want))
	vReach("end")
}

// H_C05_decodeparms_shapes: the parameters of a filter reach it whichever legal shape /Filter and /DecodeParms take.
//
//symgo:harness prop=C05 kernel=K6-decodeparms-shapes
//symgo:desc payload of 2 symbolic bytes as one PNG row tagged Up over an all-zero previous row (so the row data are the payload), deflate-stored; /Filter written as the name /FlateDecode, the abbreviated name /Fl, or a one-element array of either (enumerated); /DecodeParms << /Predictor 12 /Columns 2 >> written as the dictionary itself or as a one-element array holding it (enumerated); also the two-filter chain [/ASCIIHexDecode /FlateDecode] with DecodeParms [null dict]: Stream.Decode returns exactly the payload (the predictor stage is not skipped)
func H_C05_decodeparms_shapes() {
	payload := vAnyBytes(2)
	row := append([]byte{2}, payload...)
	parms := Dict{"Predictor": Int(12), "Columns": Int(2)}
	var filter, dp Object
	data := vZlibStoredSym(row)
	switch vAnyIntIn(0, 4) {
	case 0:
		filter = Name("FlateDecode")
	case 1:
		filter = Name("Fl")
	case 2:
		filter = Array{Name("FlateDecode")}
	case 3:
		filter = Array{Name("Fl")}
	default:
		filter = Array{Name("ASCIIHexDecode"), Name("FlateDecode")}
		hexed := make([]byte, 0, 2*len(data)+1)
		for _, b := range data {
			hexed = append(hexed, "0123456789abcdef"[b>>4], "0123456789ABCDEF"[b&15])
		}
		data = append(hexed, '>')
	}
	if fa, ok := filter.(Array); ok && len(fa) == 2 {
		dp = Array{Null{}, parms}
	} else if vAnyIntIn(0, 1) == 0 {
		dp = parms
	} else {
		dp = Array{parms}
	}
	s := &Stream{Dict: Dict{"Filter": filter, "DecodeParms": dp}, Data: data}
	out, err := s.Decode()
	vAssert("decodes", err == nil)
	vAssert("length", len(out) == 2)
	for i := 0; i < 2 && i < len(out); i++ {
		vAssert("roundtrip", out[i] == payload[i])
	}
	vReach("end")
}
