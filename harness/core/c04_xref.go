//go:build verif_harness

package core

import "bytes"

// H_C04_merge_newest_wins: after merging r revisions, every object number maps to the entry of the last
// revision that defines it and is absent iff no revision defines it, for every map iteration order.
//
//symgo:harness prop=C04 kernel=K1-merge maporder=all noreplay=1
//symgo:desc quick: 2..3 revisions over object numbers 0..1; thorough: 2..3 revisions over 0..2; per (revision, number) a symbolic 'present' bit and a fully symbolic entry (type 0..2, 64-bit offset, generation, in-use); every iteration order of every map (<= 4 keys) is explored
func H_C04_merge_newest_wins() {
	n := 2
	if vTier() > 0 {
		n = 3
	}
	r := vAnyIntIn(2, 3)
	tables := make([]*XRefTable, r)
	type ent struct {
		present bool
		e       *XRefEntry
	}
	all := make([][]ent, r)
	for t := 0; t < r; t++ {
		tables[t] = NewXRefTable()
		all[t] = make([]ent, n)
		for k := 0; k < n; k++ {
			if vAnyBool() {
				e := &XRefEntry{Type: XRefEntryType(vAnyIntIn(0, 2)), Offset: int64(vAnyInt()), Generation: vAnyInt(), InUse: vAnyBool()}
				tables[t].Set(k, e)
				all[t][k] = ent{true, e}
			}
		}
	}
	merged := MergeXRefTables(tables...)
	for k := 0; k < n; k++ {
		var want *XRefEntry
		for t := 0; t < r; t++ {
			if all[t][k].present {
				want = all[t][k].e
			}
		}
		got, ok := merged.Get(k)
		vAssert("present-iff-defined", ok == (want != nil))
		if want != nil {
			vAssert("newest-revision-wins", got != nil && got.Type == want.Type && got.Offset == want.Offset && got.Generation == want.Generation && got.InUse == want.InUse)
		}
	}
	vAssert("no-extra-entries", merged.Size() <= n)
	vReach("end")
}

// H_C04_classic_entry: a 20-byte classic cross-reference entry is read as written.
//
//symgo:harness prop=C04 kernel=K2-classic-entry
//symgo:desc line = 10 symbolic decimal digits, space, 5 symbolic decimal digits, space, flag in {n,f} (symbolic), EOL in {" \n", "\r\n", " \r"} (enumerated): offset, generation and in-use equal the reference reading (all 10^15 x 2 x 3 lines)
func H_C04_classic_entry() {
	line := make([]byte, 0, 20)
	var off int64
	for i := 0; i < 10; i++ {
		d := vAnyByte()
		vAssume(d >= '0' && d <= '9')
		line = append(line, d)
		off = off*10 + int64(d-'0')
	}
	line = append(line, ' ')
	gen := 0
	for i := 0; i < 5; i++ {
		d := vAnyByte()
		vAssume(d >= '0' && d <= '9')
		line = append(line, d)
		gen = gen*10 + int(d-'0')
	}
	line = append(line, ' ')
	flag := vAnyByteOf("nf")
	line = append(line, flag)
	switch vAnyIntIn(0, 2) {
	case 0:
		line = append(line, ' ', '\n')
	case 1:
		line = append(line, '\r', '\n')
	default:
		line = append(line, ' ', '\r')
	}
	x := &XRefParser{}
	e, err := x.parseEntry(string(line))
	vAssert("no-error", err == nil && e != nil)
	vAssert("offset", e.Offset == off)
	vAssert("generation", e.Generation == gen)
	vAssert("in-use", e.InUse == (flag == 'n'))
	vAssert("type", (flag == 'n' && e.Type == XRefEntryUncompressed) || (flag == 'f' && e.Type == XRefEntryFree))
	vReach("end")
}

// H_C04_stream_entry: a cross-reference stream entry with field widths w is the big-endian reading of its fields.
//
//symgo:harness prop=C04 kernel=K2-stream-entry
//symgo:desc w in [0,2]^3 quick / [0,4]^3 thorough (enumerated), w[1]+w[2] > 0, all field bytes symbolic: type defaults to 1 when w[0] = 0, types 0/1/2 map to free/uncompressed/compressed with (field1, field2), any other type is an error, consumed = sum of widths
func H_C04_stream_entry() {
	maxW := 2
	if vTier() > 0 {
		maxW = 4
	}
	w := []int{vAnyIntIn(0, maxW), vAnyIntIn(0, maxW), vAnyIntIn(0, maxW)}
	total := w[0] + w[1] + w[2]
	data := vAnyBytes(total + 1) // one byte of the next entry must not be touched
	ref := func(off, width int) int64 {
		var v int64
		for i := 0; i < width; i++ {
			v = v*256 + int64(data[off+i])
		}
		return v
	}
	typ := int64(1)
	if w[0] > 0 {
		typ = ref(0, w[0])
	}
	f1 := ref(w[0], w[1])
	f2 := ref(w[0]+w[1], w[2])
	x := &XRefParser{}
	e, n, err := x.parseXRefStreamEntry(data, w)
	if typ > 2 {
		vAssert("bad-type-is-error", err != nil)
	} else {
		vAssert("no-error", err == nil && e != nil)
		vAssert("consumed", n == total)
		vAssert("field1", e.Offset == f1)
		vAssert("field2", e.Generation == int(f2))
		vAssert("type", int64(e.Type) == typ)
		vAssert("in-use", e.InUse == (typ != 0))
	}
	vReach("end")
}

// H_C04_objstm_index: an object stream returns, for index i, the i-th header pair's number and the object found at First+offset_i.
//
//symgo:harness prop=C04 kernel=K3-objstm
//symgo:desc k = 1..3 objects; object numbers symbolic one/two-digit integers; each object is a symbolic one-digit integer literal at offset 2*i; index i in [-1,k] enumerated; number lookup through GetObjectByNumber for a symbolic number
func H_C04_objstm_index() {
	k := vAnyIntIn(1, 3)
	var hdr []byte
	nums := make([]int, k)
	vals := make([]byte, k)
	for i := 0; i < k; i++ {
		d1, d2 := vAnyByte(), vAnyByte()
		vAssume(d1 >= '1' && d1 <= '9' && d2 >= '0' && d2 <= '9')
		nums[i] = int(d1-'0')*10 + int(d2-'0')
		for j := 0; j < i; j++ {
			vAssume(nums[j] != nums[i])
		}
		hdr = append(hdr, d1, d2, ' ', byte('0'+2*i), ' ')
		v := vAnyByte()
		vAssume(v >= '0' && v <= '9')
		vals[i] = v
	}
	body := make([]byte, 0, 2*k)
	for i := 0; i < k; i++ {
		body = append(body, vals[i], ' ')
	}
	data := append(append([]byte{}, hdr...), body...)
	st := &Stream{Dict: Dict{"Type": Name("ObjStm"), "N": Int(k), "First": Int(len(hdr))}, Data: data}
	os, err := NewObjectStream(st)
	vAssert("constructed", err == nil && os != nil)
	i := vAnyIntIn(-1, k)
	obj, num, err := os.GetObjectByIndex(i)
	if i < 0 || i >= k {
		vAssert("out-of-range-index-is-error", err != nil)
	} else {
		vAssert("no-error", err == nil)
		vAssert("number-of-index", num == nums[i])
		iv, ok := obj.(Int)
		vAssert("object-at-offset", ok && int(iv) == int(vals[i]-'0'))
	}
	q := nums[vAnyIntIn(0, k-1)]
	obj2, idx, err2 := os.GetObjectByNumber(q)
	vAssert("by-number-no-error", err2 == nil)
	vAssert("by-number-index", idx >= 0 && idx < k && nums[idx] == q)
	iv2, ok2 := obj2.(Int)
	vAssert("by-number-object", ok2 && int(iv2) == int(vals[idx]-'0'))
	_, _, err3 := os.GetObjectByNumber(100)
	vAssert("unknown-number-is-error", err3 != nil)
	vReach("end")
}

var vSections []*XRefTable // newest first: vSections[0] is found from EOF, section i is at offset 100*(i+1)

func vStubFromEOF(x *XRefParser) (*XRefTable, error) { return vSections[0], nil }
func vStubParseXRef(x *XRefParser, offset int64) (*XRefTable, error) {
	i := int(offset/100) - 1
	if offset%100 != 0 || i < 0 || i >= len(vSections) {
		return nil, errVStub{}
	}
	return vSections[i], nil
}

type errVStub struct{}

func (errVStub) Error() string { return "stub: no section at offset" }

// H_C04_chain_order: following /Prev returns the sections oldest first, so that merging them makes the newest revision win.
//
//symgo:harness prop=C04 kernel=K5-chain noreplay=1
//symgo:redirect (*github.com/tsawler/tabula/core.XRefParser).ParseXRefFromEOF vStubFromEOF
//symgo:redirect (*github.com/tsawler/tabula/core.XRefParser).ParseXRef vStubParseXRef
//symgo:desc 1..4 sections chained by /Prev (file access cut: ParseXRefFromEOF/ParseXRef redirected to a harness table of sections); object 7 defined in a symbolic subset of sections with distinct offsets: ParseAllXRefs returns oldest-first and MergeXRefTables yields the newest definition
func H_C04_chain_order() {
	n := vAnyIntIn(1, 4)
	vSections = nil
	newest := -1
	for i := 0; i < n; i++ { // i = 0 newest
		t := NewXRefTable()
		if vAnyBool() {
			t.Set(7, &XRefEntry{Type: XRefEntryUncompressed, Offset: int64(1000 + i), InUse: true})
			if newest < 0 {
				newest = i
			}
		}
		if i+1 < n {
			t.Trailer["Prev"] = Int(100 * (i + 2))
		}
		vSections = append(vSections, t)
	}
	x := NewXRefParser(bytes.NewReader(nil))
	tables, err := x.ParseAllXRefs()
	vAssert("no-error", err == nil)
	vAssert("all-sections", len(tables) == n)
	for i := 0; i < n; i++ {
		vAssert("oldest-first", tables[i] == vSections[n-1-i])
	}
	merged := MergeXRefTables(tables...)
	e, ok := merged.Get(7)
	vAssert("defined-iff", ok == (newest >= 0))
	if newest >= 0 {
		vAssert("newest-wins", e.Offset == int64(1000+newest))
	}
	vReach("end")
}

var vXRefStm *IndirectObject

func vStubParseIndirectXRef(p *Parser) (*IndirectObject, error) { return vXRefStm, nil }

// H_C01_xref_stream_subsections: a cross-reference stream with several /Index subsections assigns the i-th entry of the
// data to the right object number (the layout incremental updates with xref streams produce).
//
//symgo:harness prop=C01 kernel=K4-xref-stream-sections noreplay=1
//symgo:redirect (*github.com/tsawler/tabula/core.Parser).ParseIndirectObject vStubParseIndirectXRef
//symgo:desc /W [1 1 1] or [1 2 0] (enumerated); /Index with 1..2 (quick) / 1..3 (thorough) subsections, first object numbers symbolic small integers in increasing order, counts 1..2 (enumerated); all entry bytes symbolic with type in 0..2: every listed object number maps to the entry decoded from its own position in the data and no other number is defined; the object parser is cut (harness-built stream object)
func H_C01_xref_stream_subsections() {
	w := []int{1, 1, 1}
	if vAnyIntIn(0, 1) == 1 {
		w = []int{1, 2, 0}
	}
	width := w[0] + w[1] + w[2]
	nsec := vAnyIntIn(1, 2+vTier())
	var index Array
	type ent struct {
		num        int
		typ        byte
		f1, f2     int64
	}
	var want []ent
	var data []byte
	prev := -1
	for s := 0; s < nsec; s++ {
		first := prev + 1 + vAnyIntIn(0, 2)
		count := vAnyIntIn(1, 2)
		index = append(index, Int(first), Int(count))
		for j := 0; j < count; j++ {
			b := vAnyBytes(width)
			vAssume(b[0] <= 2)
			data = append(data, b...)
			e := ent{num: first + j, typ: b[0]}
			if w[1] == 1 {
				e.f1, e.f2 = int64(b[1]), int64(b[2])
			} else {
				e.f1 = int64(b[1])<<8 | int64(b[2])
			}
			want = append(want, e)
		}
		prev = first + count - 1
	}
	d := Dict{"Type": Name("XRef"), "Size": Int(prev + 1), "W": Array{Int(w[0]), Int(w[1]), Int(w[2])}, "Index": index}
	vXRefStm = &IndirectObject{Ref: IndirectRef{Number: 99}, Object: &Stream{Dict: d, Data: data}}
	tbl, err := NewXRefParser(bytes.NewReader(nil)).parseXRefStream()
	vAssert("no-error", err == nil && tbl != nil)
	vAssert("entry-count", tbl.Size() == len(want))
	for _, e := range want {
		got, ok := tbl.Get(e.num)
		vAssert("object-number-defined", ok && got != nil)
		vAssert("entry-from-its-own-position", int64(got.Type) == int64(e.typ) && got.Offset == e.f1 && got.Generation == int(e.f2))
	}
	vReach("end")
}
