//go:build verif_harness

package tabula

import (
	"strconv"
	"strings"
	"unicode/utf8"

	"github.com/tsawler/tabula/core"
	"github.com/tsawler/tabula/reader"
)

// vPDFWriter is a small independent PDF writer: it lays out one logical document (pages x text) physically according to
// enumerated choices. It writes plain (unfiltered) streams only.
type vPDFWriter struct {
	buf     []byte
	eol     string
	trailer int    // classic sections: 0 "trailer" on its own line, 1 dictionary on the keyword's line, 2 dictionary over several lines with a nested dictionary
	extends string // extra entry for object stream dictionaries (e.g. "/Extends 9 0 R ")
	offsets map[int]int
	packed  map[int]string // objects waiting to be packed into an object stream (number -> body)
	order   []int
}

func (w *vPDFWriter) write(s string) { w.buf = append(w.buf, s...) }

func (w *vPDFWriter) obj(num int, body string) {
	if w.packed != nil && !strings.Contains(body, "stream") {
		if _, dup := w.packed[num]; !dup {
			w.order = append(w.order, num)
		}
		w.packed[num] = body
		return
	}
	w.offsets[num] = len(w.buf)
	w.write(strconv.Itoa(num) + " 0 obj" + w.eol + body + w.eol + "endobj" + w.eol)
}

func (w *vPDFWriter) stream(num int, dict, data string) {
	w.offsets[num] = len(w.buf)
	w.write(strconv.Itoa(num) + " 0 obj" + w.eol + "<< " + dict + " >>" + w.eol + "stream" + w.streamEOL() + data + w.eol + "endstream" + w.eol + "endobj" + w.eol)
}

// streamEOL: the stream keyword is followed by CRLF or LF, never by a lone CR.
func (w *vPDFWriter) streamEOL() string {
	if w.eol == "\r" {
		return "\r\n"
	}
	return w.eol
}

// flushObjStm writes the waiting objects as one uncompressed object stream and returns, per packed object, its index.
func (w *vPDFWriter) flushObjStm(num int) map[int]int {
	idx := map[int]int{}
	header, body := "", ""
	for i, n := range w.order {
		header += strconv.Itoa(n) + " " + strconv.Itoa(len(body)) + " "
		body += w.packed[n] + " "
		idx[n] = i
	}
	data := header + body
	w.stream(num, "/Type /ObjStm "+w.extends+"/N "+strconv.Itoa(len(w.order))+" /First "+strconv.Itoa(len(header))+" /Length "+strconv.Itoa(len(data)), data)
	w.packed, w.order = map[int]string{}, nil
	return idx
}

// vZlibStored wraps data in a zlib stream made of one stored (uncompressed) deflate block.
func vZlibStored(data string) string {
	n := len(data)
	a, b := uint32(1), uint32(0)
	for i := 0; i < n; i++ {
		a = (a + uint32(data[i])) % 65521
		b = (b + a) % 65521
	}
	ad := b<<16 | a
	return "\x78\x01\x01" + string([]byte{byte(n), byte(n >> 8), byte(^n), byte(^n >> 8)}) + data + string([]byte{byte(ad >> 24), byte(ad >> 16), byte(ad >> 8), byte(ad)})
}

func vHexEncode(data string) string {
	const hx = "0123456789ABCDEF"
	out := make([]byte, 0, 2*len(data)+len(data)/16)
	for i := 0; i < len(data); i++ {
		out = append(out, hx[data[i]>>4], hx[data[i]&15])
		if i%16 == 15 {
			out = append(out, '\n')
		}
	}
	return string(out)
}

// xref writes a cross-reference section (classic table + trailer, or cross-reference stream) for the given object
// numbers - each as its own subsection - and the free entries, then startxref/%%EOF; it returns the section's offset.
func (w *vPDFWriter) xref(xrefStream, pack bool, prev int, nums, free []int, stmNum, xrefNum, maxObj int) int {
	eol := w.eol
	pos := len(w.buf)
	if !xrefStream {
		w.write("xref" + eol)
		if prev < 0 {
			w.write("0 1" + eol + "0000000000 65535 f" + eolPad(eol) + eol[len(eol)-1:])
		}
		for _, n := range free {
			w.write(strconv.Itoa(n) + " 1" + eol + "0000000000 00001 f" + eolPad(eol) + eol[len(eol)-1:])
		}
		for _, n := range nums {
			off := strconv.Itoa(w.offsets[n])
			for len(off) < 10 {
				off = "0" + off
			}
			w.write(strconv.Itoa(n) + " 1" + eol + off + " 00000 n" + eolPad(eol) + eol[len(eol)-1:])
		}
		switch w.trailer {
		case 1:
			w.write("trailer << /Size " + strconv.Itoa(maxObj) + " /Root 1 0 R")
		case 2:
			w.write("trailer" + eol + "<<" + eol + "/Size " + strconv.Itoa(maxObj) + eol + "/VendorData << /Kind /Test" + eol + "/Level 2 >>" + eol + "/Root 1 0 R" + eol)
		default:
			w.write("trailer" + eol + "<< /Size " + strconv.Itoa(maxObj) + " /Root 1 0 R")
		}
		if prev >= 0 {
			w.write(" /Prev " + strconv.Itoa(prev))
		}
		w.write(" >>" + eol + "startxref" + eol + strconv.Itoa(pos) + eol + "%%EOF" + eol)
		return pos
	}
	var packedIdx map[int]int
	if pack && len(w.order) > 0 {
		packedIdx = w.flushObjStm(stmNum)
		nums = append(nums, stmNum)
		pos = len(w.buf)
	}
	w.offsets[xrefNum] = pos
	index, data := "", ""
	if prev < 0 {
		index, data = "0 1 ", "\x00"+vBE(0, 3)+vBE(65535, 2)
	}
	for _, n := range free {
		index += strconv.Itoa(n) + " 1 "
		data += "\x00" + vBE(0, 3) + vBE(1, 2)
	}
	for _, n := range append(nums, xrefNum) {
		index += strconv.Itoa(n) + " 1 "
		if i, ok := packedIdx[n]; ok {
			data += "\x02" + vBE(stmNum, 3) + vBE(i, 2)
		} else {
			data += "\x01" + vBE(w.offsets[n], 3) + vBE(0, 2)
		}
	}
	dict := "/Type /XRef /Size " + strconv.Itoa(maxObj) + " /W [1 3 2] /Index [" + index + "] /Root 1 0 R /Length " + strconv.Itoa(len(data))
	if prev >= 0 {
		dict += " /Prev " + strconv.Itoa(prev)
	}
	w.write(strconv.Itoa(xrefNum) + " 0 obj" + eol + "<< " + dict + " >>" + eol + "stream" + w.streamEOL() + data + eol + "endstream" + eol + "endobj" + eol)
	w.write("startxref" + eol + strconv.Itoa(pos) + eol + "%%EOF" + eol)
	return pos
}

func vBE(v, n int) string {
	b := make([]byte, n)
	for i := n - 1; i >= 0; i-- {
		b[i] = byte(v)
		v >>= 8
	}
	return string(b)
}

// H_C01_text_survives_physical_layout: the same logical document - two pages of text - is reported page by page whatever
// physical layout an independent writer chooses for the file.
//
//symgo:harness prop=C01 kernel=K5-whole-file-layouts
//symgo:desc file bytes produced by a harness-local PDF writer and read through the file content model (os.Open/Stat/Seek/Read of the real reader; natively a real temporary file); logical document: 2 pages, page i shows "Page<i> first" and "Page<i> second" with Helvetica/WinAnsi; enumerated physical choices: cross-reference as classic table or as (unfiltered) cross-reference stream; with an xref stream, non-stream objects packed into an (unfiltered) object stream or not; page content in one stream or split over an array of two streams between operators; /Length direct or by reference with the length object after the stream; pages directly under the root or under an intermediate /Pages node, with /Resources and /MediaBox on the page or inherited from the root; zero, one or two incremental revisions: one that replaces page 1's content stream or page 1's page object (which then points to a new content stream), or two in a row replacing page 1's and then page 2's content stream (three cross-reference sections) (classic revisions append a classic section with /Prev, stream revisions an xref stream with /Prev and /Index); line ends LF or CRLF; page 1's content stream short or - for flat page trees, LF and unfiltered content - longer than 4 KB (padded with comment lines); content streams unfiltered or ASCIIHex over Flate (quick), plus Flate alone and ASCIIHex under its abbreviated name /AHx (thorough) - the Flate data are stored deflate blocks, inflated by the real compress/zlib, interpreted: PageCount is 2 and Pages(i).Text() holds exactly page i's current texts in content order and none of the other page's or of the replaced revision
func H_C01_text_survives_physical_layout() {
	xrefStream := vAnyIntIn(0, 1) == 1
	pack := xrefStream && vAnyIntIn(0, 1) == 1
	split := vAnyIntIn(0, 1) == 1
	indirectLen := vAnyIntIn(0, 1) == 1
	deep := vAnyIntIn(0, 1) == 1
	inherit := vAnyIntIn(0, 1) == 1
	// 0 none, 1 replace page 1's content stream, 2 replace page 1's page object (new content stream),
	// 3 two further revisions: the first replaces page 1's content stream, the second page 2's
	reviseKind := vAnyIntIn(0, 3)
	revise := reviseKind > 0
	eol := "\n"
	if vAnyIntIn(0, 1) == 1 {
		eol = "\r\n"
	}
	filterKind := 0 // content streams: plain, Flate (stored blocks), ASCIIHex over Flate, or ASCIIHex under its abbreviated name
	if vTier() > 0 {
		filterKind = vAnyIntIn(0, 3)
	} else if vAnyIntIn(0, 1) == 1 {
		filterKind = 2
	}
	w := &vPDFWriter{eol: eol, offsets: map[int]int{}}
	if pack {
		w.packed = map[int]string{}
	}
	w.write("%PDF-1.5" + eol + "%\xe2\xe3\xcf\xd3" + eol)
	// object numbers: 1 catalog, 2 root pages, 3 intermediate pages (if deep), 4/5 pages, 6 font,
	// 10,11 content of page 1 (11 only if split), 12,13 content of page 2, 20.. length objects, 30 objstm, 31 xref stream
	res := "/Resources << /Font << /F1 6 0 R >> >> /MediaBox [0 0 612 792]"
	pageAttrs, rootAttrs := res, ""
	if inherit {
		pageAttrs, rootAttrs = "", res
	}
	parent := 2
	if deep {
		parent = 3
	}
	contentRef := func(a, b int) string {
		if split {
			return "[" + strconv.Itoa(a) + " 0 R " + strconv.Itoa(b) + " 0 R]"
		}
		return strconv.Itoa(a) + " 0 R"
	}
	w.obj(1, "<< /Type /Catalog /Pages 2 0 R >>")
	if deep {
		w.obj(2, "<< /Type /Pages /Kids [3 0 R] /Count 2 "+rootAttrs+" >>")
		w.obj(3, "<< /Type /Pages /Parent 2 0 R /Kids [4 0 R 5 0 R] /Count 2 >>")
	} else {
		w.obj(2, "<< /Type /Pages /Kids [4 0 R 5 0 R] /Count 2 "+rootAttrs+" >>")
	}
	w.obj(4, "<< /Type /Page /Parent "+strconv.Itoa(parent)+" 0 R "+pageAttrs+" /Contents "+contentRef(10, 11)+" >>")
	w.obj(5, "<< /Type /Page /Parent "+strconv.Itoa(parent)+" 0 R "+pageAttrs+" /Contents "+contentRef(12, 13)+" >>")
	w.obj(6, "<< /Type /Font /Subtype /Type1 /BaseFont /Helvetica /Encoding /WinAnsiEncoding >>")
	nextLen := 20
	putContent := func(num int, data string) {
		filter := ""
		switch filterKind {
		case 1:
			data, filter = vZlibStored(data), "/Filter /FlateDecode "
		case 2:
			data, filter = vHexEncode(vZlibStored(data))+">", "/Filter [/ASCIIHexDecode /FlateDecode] "
		case 3:
			data, filter = vHexEncode(data)+">", "/Filter /AHx "
		}
		if indirectLen {
			ln := nextLen
			nextLen++
			w.stream(num, filter+"/Length "+strconv.Itoa(ln)+" 0 R", data)
			w.obj(ln, strconv.Itoa(len(data)))
		} else {
			w.stream(num, filter+"/Length "+strconv.Itoa(len(data)), data)
		}
	}
	// page 1's (first) content stream may be longer than the lexer's 4 KB read buffer; to keep the product of choices
	// in reach this is varied only for flat page trees with LF line ends and unfiltered content
	big := !deep && !inherit && eol == "\n" && filterKind == 0 && vAnyIntIn(0, 1) == 1
	pageContent := func(a, b int, t1, t2 string) {
		first := "BT /F1 12 Tf 72 720 Td (" + t1 + ") Tj" + eol
		if big && a == 10 {
			first += strings.Repeat("% a comment line that pads the content stream"+eol, 100)
		}
		second := "0 -20 Td (" + t2 + ") Tj ET"
		if split {
			putContent(a, first)
			putContent(b, second)
		} else {
			putContent(a, first+second)
		}
	}
	pageContent(10, 11, "Page1 first", "Page1 second")
	pageContent(12, 13, "Page2 first", "Page2 second")
	writeXRef := func(prev int, nums []int, stmNum, xrefNum int) int {
		return w.xref(xrefStream, pack, prev, nums, nil, stmNum, xrefNum, 32)
	}
	nums := []int{1, 2, 4, 5, 6, 10, 12}
	if deep {
		nums = append(nums, 3)
	}
	if split {
		nums = append(nums, 11, 13)
	}
	for n := 20; n < nextLen; n++ {
		nums = append(nums, n)
	}
	first := writeXRef(-1, nums, 30, 31)
	want1 := []string{"Page1 first", "Page1 second"}
	want2 := []string{"Page2 first", "Page2 second"}
	if revise {
		// the revision replaces the (first) content stream of page 1; a split page keeps its second stream
		lenBefore := nextLen
		if reviseKind == 2 {
			// the page dictionary itself - a non-stream object, packed into revision 1's object stream when packing
			// is on - is superseded; its new content lives in a new object
			putContent(14, "BT /F1 12 Tf 72 720 Td (Page1 revised) Tj ET")
			w.obj(4, "<< /Type /Page /Parent "+strconv.Itoa(parent)+" 0 R "+pageAttrs+" /Contents 14 0 R >>")
			want1 = []string{"Page1 revised"}
			rev := []int{4, 14}
			for n := lenBefore; n < nextLen; n++ {
				rev = append(rev, n)
			}
			writeXRef(first, rev, 28, 29)
		} else if split {
			putContent(10, "BT /F1 12 Tf 72 720 Td (Page1 revised) Tj"+eol)
			want1 = []string{"Page1 revised", "Page1 second"}
		} else {
			putContent(10, "BT /F1 12 Tf 72 720 Td (Page1 revised) Tj ET")
			want1 = []string{"Page1 revised"}
		}
		if reviseKind == 1 || reviseKind == 3 {
			rev := []int{10}
			for n := lenBefore; n < nextLen; n++ {
				rev = append(rev, n)
			}
			second := writeXRef(first, rev, 28, 29)
			if reviseKind == 3 {
				// a third cross-reference section: page 2's (first) content stream is replaced as well
				lenBefore = nextLen
				if split {
					putContent(12, "BT /F1 12 Tf 72 720 Td (Page2 revised) Tj"+eol)
					want2 = []string{"Page2 revised", "Page2 second"}
				} else {
					putContent(12, "BT /F1 12 Tf 72 720 Td (Page2 revised) Tj ET")
					want2 = []string{"Page2 revised"}
				}
				rev3 := []int{12}
				for n := lenBefore; n < nextLen; n++ {
					rev3 = append(rev3, n)
				}
				writeXRef(second, rev3, 26, 27)
			}
		}
	}
	name := "/tmp/symgo-replay-c01.pdf"
	vFileContent(name, string(w.buf))
	n, err := Open(name).PageCount()
	vAssert("page-count-no-error", err == nil)
	vAssert("page-count-is-number-of-leaves", n == 2)
	check := func(page int, want []string, absent []string) {
		txt, _, terr := Open(name).Pages(page).Text()
		vAssert("text-no-error", terr == nil)
		vObserveStr("page-text", txt)
		pos := 0
		for _, s := range want {
			k := strings.Index(txt[pos:], s)
			vAssert("page-text-in-content-order", k >= 0)
			pos += k + len(s)
		}
		for _, s := range absent {
			vAssert("no-text-of-other-pages-or-old-revisions", !strings.Contains(txt, s))
		}
	}
	absent1 := []string{"Page2"}
	if revise {
		absent1 = append(absent1, "Page1 first")
	}
	if reviseKind == 2 {
		absent1 = append(absent1, "Page1 second")
	}
	check(1, want1, absent1)
	absent2 := []string{"Page1"}
	if reviseKind == 3 {
		absent2 = append(absent2, "Page2 first")
	}
	check(2, want2, absent2)
	vReach("end")
}

// eolPad: a classic xref entry is exactly 20 bytes: with a one-byte line end the entry is padded with a space.
func eolPad(eol string) string {
	if len(eol) == 1 {
		return " "
	}
	return eol[:1]
}

// H_C01_layout_spellings: legal spellings of the file structure that a writer other than the usual ones may choose.
//
//symgo:harness prop=C01 kernel=K6-whole-file-spellings
//symgo:desc same logical two-page document and harness-local writer as K5, flat page tree; enumerated: line ends LF, CRLF or a lone CR (the stream keyword then followed by CRLF); cross-reference as classic table or stream; classic trailer written as "trailer" on its own line, as "trailer << ... >>" on one line, or over several lines with a nested dictionary value before /Root; each page's content in one stream or split over two streams where the first ends directly after an operator with no trailing white space ("...Tj" | "ET") or inside the operand list ("(text)" | "Tj"); with a cross-reference stream, objects packed into an object stream whose dictionary carries /Extends (a reference to an earlier, empty-purpose object stream) or not; zero or one incremental revision replacing page 1's content: PageCount is 2, each page's text holds its own strings in content order and nothing of the other page or the replaced revision
func H_C01_layout_spellings() {
	eol := []string{"\n", "\r\n", "\r"}[vAnyIntIn(0, 2)]
	xrefStream := vAnyIntIn(0, 1) == 1
	trailer, extends := 0, false
	if xrefStream {
		extends = vAnyIntIn(0, 1) == 1
	} else {
		trailer = vAnyIntIn(0, 2)
	}
	split := vAnyIntIn(0, 2) // 0 one stream, 1 split after an operator, 2 split between operand and operator
	revise := vAnyIntIn(0, 1) == 1
	w := &vPDFWriter{eol: eol, offsets: map[int]int{}, trailer: trailer}
	w.write("%PDF-1.5" + eol + "%\xe2\xe3\xcf\xd3" + eol)
	if xrefStream {
		w.packed = map[int]string{}
	}
	if extends {
		w.extends = "/Extends 9 0 R "
	}
	contents := func(a, b int) string {
		if split > 0 {
			return "[" + strconv.Itoa(a) + " 0 R " + strconv.Itoa(b) + " 0 R]"
		}
		return strconv.Itoa(a) + " 0 R"
	}
	w.obj(1, "<< /Type /Catalog /Pages 2 0 R >>")
	w.obj(2, "<< /Type /Pages /Kids [4 0 R 5 0 R] /Count 2 /Resources << /Font << /F1 6 0 R >> >> /MediaBox [0 0 612 792] >>")
	w.obj(4, "<< /Type /Page /Parent 2 0 R /Contents "+contents(10, 11)+" >>")
	w.obj(5, "<< /Type /Page /Parent 2 0 R /Contents "+contents(12, 13)+" >>")
	w.obj(6, "<< /Type /Font /Subtype /Type1 /BaseFont /Helvetica /Encoding /WinAnsiEncoding >>")
	put := func(num int, data string) { w.stream(num, "/Length "+strconv.Itoa(len(data)), data) }
	page := func(a, b int, t1, t2 string) {
		switch split {
		case 0:
			put(a, "BT /F1 12 Tf 72 720 Td ("+t1+") Tj 0 -20 Td ("+t2+") Tj ET")
		case 1:
			put(a, "BT /F1 12 Tf 72 720 Td ("+t1+") Tj 0 -20 Td ("+t2+") Tj")
			put(b, "ET")
		default:
			put(a, "BT /F1 12 Tf 72 720 Td ("+t1+") Tj 0 -20 Td ("+t2+")")
			put(b, "Tj ET")
		}
	}
	page(10, 11, "Page1 first", "Page1 second")
	page(12, 13, "Page2 first", "Page2 second")
	nums := []int{1, 2, 4, 5, 6, 10, 12}
	if split > 0 {
		nums = append(nums, 11, 13)
	}
	if extends {
		// an earlier object stream holding one unrelated object, named by the main object stream's /Extends
		w.offsets[9] = len(w.buf)
		data := "8 0 (unrelated)"
		w.write("9 0 obj" + eol + "<< /Type /ObjStm /N 1 /First 4 /Length " + strconv.Itoa(len(data)) + " >>" + eol + "stream" + w.streamEOL() + data + eol + "endstream" + eol + "endobj" + eol)
		nums = append(nums, 9)
	}
	first := w.xref(xrefStream, xrefStream, -1, nums, nil, 30, 31, 32)
	want1 := []string{"Page1 first", "Page1 second"}
	if revise {
		if split > 0 {
			put(10, "BT /F1 12 Tf 72 720 Td (Page1 revised) Tj")
			put(11, "ET")
			w.xref(xrefStream, xrefStream, first, []int{10, 11}, nil, 28, 29, 32)
		} else {
			put(10, "BT /F1 12 Tf 72 720 Td (Page1 revised) Tj ET")
			w.xref(xrefStream, xrefStream, first, []int{10}, nil, 28, 29, 32)
		}
		want1 = []string{"Page1 revised"}
	}
	name := "/tmp/symgo-replay-c01s.pdf"
	vFileContent(name, string(w.buf))
	n, err := Open(name).PageCount()
	vAssert("page-count-no-error", err == nil)
	vAssert("page-count-is-number-of-leaves", n == 2)
	check := func(pg int, want, absent []string) {
		txt, _, terr := Open(name).Pages(pg).Text()
		vAssert("text-no-error", terr == nil)
		vObserveStr("page-text", txt)
		pos := 0
		for _, s := range want {
			k := strings.Index(txt[pos:], s)
			vAssert("page-text-in-content-order", k >= 0)
			pos += k + len(s)
		}
		for _, s := range absent {
			vAssert("no-text-of-other-pages-or-old-revisions", !strings.Contains(txt, s))
		}
	}
	absent1 := []string{"Page2"}
	if revise {
		absent1 = append(absent1, "Page1 first", "Page1 second")
	}
	check(1, want1, absent1)
	check(2, []string{"Page2 first", "Page2 second"}, []string{"Page1"})
	vReach("end")
}

// H_C04_lookup_over_revisions: in a file with layered incremental updates every lookup returns the newest revision of the
// object - replaced, deleted, re-added, moved into an object stream - in whatever order objects are fetched, with or
// without clearing the cache in between.
//
//symgo:harness prop=C04 kernel=K6-whole-file-revisions
//symgo:desc file bytes produced by the harness-local PDF writer and read through the file content model (natively a real temporary file); revision 1 defines X = <</V 1>> and Y = <</V 10>> besides a minimal page tree; revision 2 (optional) replaces X by <</V 2>> and frees Y; revision 3 (optional, only after 2) re-adds Y = <</V 30>> and rewrites X = <</V 3>>; cross-reference sections classic or streams (enumerated), with streams the non-stream objects of each revision optionally packed into that revision's object stream; lookups X then Y or Y then X (enumerated), optionally preceded by a lookup of an unchanged object stored next to the old versions, optionally ClearCache between them and a repeated lookup afterwards: GetObject returns the dictionary of the newest revision for X; for Y the newest value, or an error when its newest entry is free; a repeated lookup returns the same
func H_C04_lookup_over_revisions() {
	xrefStream := vAnyIntIn(0, 1) == 1
	pack := xrefStream && vAnyIntIn(0, 1) == 1
	revs := vAnyIntIn(1, 3)
	w := &vPDFWriter{eol: "\n", offsets: map[int]int{}}
	if pack {
		w.packed = map[int]string{}
	}
	w.write("%PDF-1.5\n")
	w.obj(1, "<< /Type /Catalog /Pages 2 0 R >>")
	w.obj(2, "<< /Type /Pages /Kids [3 0 R] /Count 1 /MediaBox [0 0 612 792] >>")
	w.obj(3, "<< /Type /Page /Parent 2 0 R >>")
	w.obj(7, "<< /V 1 >>")
	w.obj(8, "<< /V 10 >>")
	prev := w.xref(xrefStream, pack, -1, []int{1, 2, 3, 7, 8}, nil, 30, 31, 40)
	wantX, wantY := 1, 10
	if revs >= 2 {
		w.obj(7, "<< /V 2 >>")
		prev = w.xref(xrefStream, pack, prev, []int{7}, []int{8}, 32, 33, 40)
		wantX, wantY = 2, -1
	}
	if revs >= 3 {
		w.obj(8, "<< /V 30 >>")
		w.obj(7, "<< /V 3 >>")
		w.xref(xrefStream, pack, prev, []int{7, 8}, nil, 34, 35, 40)
		wantX, wantY = 3, 30
	}
	name := "/tmp/symgo-replay-c04.pdf"
	vFileContent(name, string(w.buf))
	r, err := reader.Open(name)
	vAssert("opens", err == nil && r != nil)
	get := func(num, want int) {
		obj, gerr := r.GetObject(num)
		if want < 0 {
			vAssert("freed-object-is-not-returned", gerr != nil)
			return
		}
		vAssert("lookup-no-error", gerr == nil)
		d, ok := obj.(core.Dict)
		vAssert("lookup-returns-a-dictionary", ok)
		v, isInt := d.Get("V").(core.Int)
		vAssert("newest-revision-wins", isInt && int(v) == want)
	}
	order := vAnyIntIn(0, 1)
	clear := vAnyIntIn(0, 1) == 1
	if vAnyIntIn(0, 1) == 1 {
		// first touch an object that never changed: with packing it lives in revision 1's object stream,
		// next to the old versions of X and Y
		pg, perr := r.GetObject(2)
		_, isDict := pg.(core.Dict)
		vAssert("unchanged-object-readable", perr == nil && isDict)
	}
	for pass := 0; pass < 2; pass++ {
		if order == 0 {
			get(7, wantX)
			get(8, wantY)
		} else {
			get(8, wantY)
			get(7, wantX)
		}
		if clear && pass == 0 {
			r.ClearCache()
		}
	}
	vAssert("close", r.Close() == nil)
	vReach("end")
}

// H_C02_whole_file_one_byte: a well-formed file with one byte replaced by an arbitrary value never crashes or hangs the
// reader - at worst it is refused or loses text.
//
//symgo:harness prop=C02 kernel=whole-file-single-byte hang=1 depth=400 loop=100000 steps=80000000
//symgo:desc a one-page PDF (classic cross-reference table, or cross-reference stream with an object stream - enumerated) produced by the harness-local writer, about 500 bytes; one byte at an enumerated offset (quick: every offset in the trailer/xref/object-header regions plus every 4th elsewhere; thorough: every offset) is replaced by a fully symbolic byte; the file is opened and PageCount, Text of page 1 and Close are called: no run-time panic, no unbounded recursion (call depth 400) or loop (100000 iterations)
func H_C02_whole_file_one_byte() {
	xrefStream := vAnyIntIn(0, 1) == 1
	w := &vPDFWriter{eol: "\n", offsets: map[int]int{}}
	if xrefStream {
		w.packed = map[int]string{}
	}
	w.write("%PDF-1.5\n")
	w.obj(1, "<< /Type /Catalog /Pages 2 0 R >>")
	w.obj(2, "<< /Type /Pages /Kids [3 0 R] /Count 1 /MediaBox [0 0 612 792] /Resources << /Font << /F1 4 0 R >> >> >>")
	w.obj(3, "<< /Type /Page /Parent 2 0 R /Contents 5 0 R >>")
	w.obj(4, "<< /Type /Font /Subtype /Type1 /BaseFont /Helvetica /Encoding /WinAnsiEncoding >>")
	data := "BT /F1 12 Tf 72 720 Td (Hi) Tj ET"
	w.stream(5, "/Length "+strconv.Itoa(len(data)), data)
	xrefAt := w.xref(xrefStream, xrefStream, -1, []int{1, 2, 3, 4, 5}, nil, 6, 7, 8)
	b := []byte(string(w.buf))
	pos := vAnyIntIn(0, len(b)-1)
	if vTier() == 0 {
		// quick: all offsets from the first cross-reference byte on, the object headers, every 4th elsewhere
		hot := pos >= xrefAt
		for _, o := range w.offsets {
			if pos >= o && pos < o+12 {
				hot = true
			}
		}
		vAssume(hot || pos%4 == 0)
	}
	b[pos] = vAnyByte()
	name := "/tmp/symgo-replay-c02.pdf"
	vFileContent(name, string(b))
	e := Open(name)
	_, _ = e.PageCount()
	_, _, _ = e.Pages(1).Text()
	_ = e.Close()
	vReach("end")
}

// vSmallPDF writes a one-page document showing the given text; the font either carries its own /Widths (which must not
// rub off on any shared table) or relies on the standard metrics.
func vSmallPDF(text string, ownWidths, xrefStream bool) string {
	w := &vPDFWriter{eol: "\n", offsets: map[int]int{}}
	if xrefStream {
		w.packed = map[int]string{}
	}
	w.write("%PDF-1.5\n")
	w.obj(1, "<< /Type /Catalog /Pages 2 0 R >>")
	w.obj(2, "<< /Type /Pages /Kids [3 0 R] /Count 1 /MediaBox [0 0 612 792] /Resources << /Font << /F1 4 0 R >> >> >>")
	w.obj(3, "<< /Type /Page /Parent 2 0 R /Contents 5 0 R >>")
	font := "<< /Type /Font /Subtype /Type1 /BaseFont /Helvetica /Encoding /WinAnsiEncoding"
	if ownWidths {
		font += " /FirstChar 32 /LastChar 40 /Widths [100 100 100 100 100 100 100 100 100]"
	}
	w.obj(4, font+" >>")
	data := "BT /F1 12 Tf 72 720 Td (" + text + ") Tj 40 0 Td (tail) Tj ET"
	w.stream(5, "/Length "+strconv.Itoa(len(data)), data)
	w.xref(xrefStream, xrefStream, -1, []int{1, 2, 3, 4, 5}, nil, 6, 7, 8)
	return string(w.buf)
}

// H_C03_whole_file_repeatable: extracting a document gives the same text alone, again, and after extracting a different
// document in between - and the whole pipeline writes nothing to package-level memory on the way.
//
//symgo:harness prop=C03 kernel=F4-whole-pipeline-repeatable globwrite=1
//symgo:desc two one-page PDFs from the harness-local writer, read through the file content model (natively real temporary files): A shows "Hello (1) World" with standard Helvetica metrics; B (enumerated: Helvetica with its own /Widths array, or no B at all) shows other text; cross-reference kind enumerated; sequence Text(A), Text(A), Text(B), Text(A) plus PageCount: every Text(A) is byte-identical; on every path no store, map update or append goes through memory reachable from package-level variables (glob.write), from file open to Close
func H_C03_whole_file_repeatable() {
	xs := vAnyIntIn(0, 1) == 1
	withB := vAnyIntIn(0, 1) == 1
	a, b := "/tmp/symgo-replay-c03a.pdf", "/tmp/symgo-replay-c03b.pdf"
	vFileContent(a, vSmallPDF("Hello \\(1\\) World", false, xs))
	vFileContent(b, vSmallPDF("Other !\"#$ text", true, !xs))
	t1, _, e1 := Open(a).Text()
	vAssert("first-extraction-ok", e1 == nil && strings.Contains(t1, "Hello"))
	t2, _, e2 := Open(a).Text()
	vAssert("repeating-gives-identical-text", e2 == nil && t2 == t1)
	if withB {
		tb, _, eb := Open(b).Text()
		vAssert("other-document-ok", eb == nil && strings.Contains(tb, "tail"))
	}
	t3, _, e3 := Open(a).Text()
	vAssert("same-text-after-other-extractions", e3 == nil && t3 == t1)
	n, en := Open(a).PageCount()
	vAssert("page-count", en == nil && n == 1)
	vObserveStr("text", t3)
	vReach("end")
}

// H_C07_whole_file_fonts: through a whole file - font dictionaries behind references, ToUnicode CMaps in streams - codes
// decode to the text the fonts define, and ToUnicode wins over the base encoding.
//
//symgo:harness prop=C07 kernel=K5-whole-file-fonts
//symgo:desc one-page PDFs from the harness-local writer read through the file content model (natively a real temporary file); the page's font is enumerated: Type1 with WinAnsiEncoding, Type1 with MacRomanEncoding, TrueType with WinAnsiEncoding plus a ToUnicode CMap (bfchar + bfrange, entries on separate lines or on one line) that remaps some codes, Type0 / Identity-H with a CIDFontType2 descendant and a 2-byte ToUnicode CMap whose targets include a supplementary-plane character, a Type1 font with an encoding dictionary (/BaseEncoding + /Differences by glyph name), a TrueType font whose encoding dictionary and /Differences array are behind references, a 2-byte ToUnicode CMap whose code space bounds stand on separate lines, the standard Symbol font without an /Encoding entry, or text shown before any font is selected (result must still be valid UTF-8); the content shows a string of those codes (literal or hex string, enumerated); cross-reference kind enumerated: Text() contains exactly the text the font defines for the codes, in order
func H_C07_whole_file_fonts() {
	xs := vAnyIntIn(0, 1) == 1
	kind := vAnyIntIn(0, 8)
	hexStr := vAnyIntIn(0, 1) == 1
	nl := "\n"
	if vAnyIntIn(0, 1) == 1 {
		nl = " "
	}
	w := &vPDFWriter{eol: "\n", offsets: map[int]int{}}
	if xs {
		w.packed = map[int]string{}
	}
	w.write("%PDF-1.5\n")
	w.obj(1, "<< /Type /Catalog /Pages 2 0 R >>")
	w.obj(2, "<< /Type /Pages /Kids [3 0 R] /Count 1 /MediaBox [0 0 612 792] >>")
	w.obj(3, "<< /Type /Page /Parent 2 0 R /Resources << /Font << /F1 4 0 R >> >> /Contents 5 0 R >>")
	nums := []int{1, 2, 3, 4, 5}
	var codes []byte
	want := ""
	cmapHead := "/CIDInit /ProcSet findresource begin" + nl + "12 dict begin" + nl + "begincmap" + nl + "/CMapName /Adobe-Identity-UCS def" + nl + "/CMapType 2 def" + nl
	switch kind {
	case 0:
		w.obj(4, "<< /Type /Font /Subtype /Type1 /BaseFont /Helvetica /Encoding /WinAnsiEncoding >>")
		codes, want = []byte{'c', 'a', 'f', 0xE9, ' ', 0x80, '5'}, "café €5"
	case 1:
		w.obj(4, "<< /Type /Font /Subtype /Type1 /BaseFont /Times-Roman /Encoding /MacRomanEncoding >>")
		codes, want = []byte{'c', 'a', 'f', 0x8E, ' ', 0xA5, 'x'}, "café •x"
	case 2:
		w.obj(4, "<< /Type /Font /Subtype /TrueType /BaseFont /ABCDEF+Custom /Encoding /WinAnsiEncoding /ToUnicode 6 0 R >>")
		cm := cmapHead + "1 begincodespacerange" + nl + "<00> <FF>" + nl + "endcodespacerange" + nl + "1 beginbfchar" + nl + "<41> <03A9>" + nl + "endbfchar" + nl + "1 beginbfrange" + nl + "<61> <63> <0430>" + nl + "endbfrange" + nl + "endcmap" + nl + "end end"
		w.stream(6, "/Length "+strconv.Itoa(len(cm)), cm)
		nums = append(nums, 6)
		codes, want = []byte{'A', 'a', 'b', 'c'}, "Ωабв"
	case 4: // Type1 font whose encoding dictionary overrides codes by glyph name
		w.obj(4, "<< /Type /Font /Subtype /Type1 /BaseFont /ABCDEF+Custom /Encoding << /Type /Encoding /BaseEncoding /WinAnsiEncoding /Differences [65 /Euro /bullet 100 /pi] >> >>")
		codes, want = []byte{'A', 'B', ' ', 'C', 'd', 0xE9}, "€• Cπé"
	case 5: // TrueType font, encoding dictionary behind a reference, Differences behind another
		w.obj(4, "<< /Type /Font /Subtype /TrueType /BaseFont /ABCDEF+Custom /Encoding 6 0 R >>")
		w.obj(6, "<< /Type /Encoding /BaseEncoding /MacRomanEncoding /Differences 7 0 R >>")
		w.obj(7, "[ 1 /Omega 66 /quotedblleft /quotedblright ]")
		nums = append(nums, 6, 7)
		codes, want = []byte{'A', 1, 'B', 'C', 0x8E}, "AΩ“”é"
	case 6: // 2-byte ToUnicode CMap whose code space range has its two bounds on separate lines
		w.obj(4, "<< /Type /Font /Subtype /Type0 /BaseFont /ABCDEF+CJK /Encoding /Identity-H /DescendantFonts [7 0 R] /ToUnicode 6 0 R >>")
		w.obj(7, "<< /Type /Font /Subtype /CIDFontType2 /BaseFont /ABCDEF+CJK /CIDSystemInfo << /Registry (Adobe) /Ordering (Identity) /Supplement 0 >> /DW 1000 >>")
		cm := cmapHead + "1 begincodespacerange\n<0000>\n<FFFF>\nendcodespacerange" + nl + "2 beginbfchar" + nl + "<0003> <0061>" + nl + "<0300> <0062>" + nl + "endbfchar" + nl + "endcmap" + nl + "end end"
		w.stream(6, "/Length "+strconv.Itoa(len(cm)), cm)
		nums = append(nums, 6, 7)
		codes, want = []byte{3, 0, 0, 3}, "ba"
	case 7: // the standard Symbol font with no /Encoding entry: its built-in encoding applies
		w.obj(4, "<< /Type /Font /Subtype /Type1 /BaseFont /Symbol >>")
		codes, want = []byte{'a', 'b', 'g', 0xA0}, "αβγ€"
	case 8: // no font at all is selected before text is shown (no Tf): the text is still valid UTF-8
		w.obj(4, "<< /Type /Font /Subtype /Type1 /BaseFont /Helvetica >>")
		codes, want = []byte{'c', 'a', 'f', 0xE9}, "caf"
	default:
		w.obj(4, "<< /Type /Font /Subtype /Type0 /BaseFont /ABCDEF+CJK /Encoding /Identity-H /DescendantFonts [7 0 R] /ToUnicode 6 0 R >>")
		w.obj(7, "<< /Type /Font /Subtype /CIDFontType2 /BaseFont /ABCDEF+CJK /CIDSystemInfo << /Registry (Adobe) /Ordering (Identity) /Supplement 0 >> /DW 1000 >>")
		cm := cmapHead + "1 begincodespacerange" + nl + "<0000> <FFFF>" + nl + "endcodespacerange" + nl + "2 beginbfchar" + nl + "<0003> <65E5>" + nl + "<0004> <D83DDE00>" + nl + "endbfchar" + nl + "1 beginbfrange" + nl + "<0010> <0012> <3042>" + nl + "endbfrange" + nl + "endcmap" + nl + "end end"
		w.stream(6, "/Length "+strconv.Itoa(len(cm)), cm)
		nums = append(nums, 6, 7)
		codes, want = []byte{0, 3, 0, 0x10, 0, 0x12, 0, 4}, "日あい\U0001F600"
	}
	str := "("
	if hexStr {
		str = "<" + vHexEncode(string(codes)) + ">"
	} else {
		for _, c := range codes {
			switch {
			case c == '(' || c == ')' || c == '\\':
				str += "\\" + string([]byte{c})
			case c < 32 || c > 126:
				str += "\\" + string([]byte{'0' + c>>6, '0' + (c>>3)&7, '0' + c&7})
			default:
				str += string([]byte{c})
			}
		}
		str += ")"
	}
	data := "BT /F1 12 Tf 72 720 Td " + str + " Tj ET"
	if kind == 8 {
		data = "BT 72 720 Td " + str + " Tj ET"
	}
	w.stream(5, "/Length "+strconv.Itoa(len(data)), data)
	w.xref(xs, xs, -1, nums, nil, 8, 9, 10)
	name := "/tmp/symgo-replay-c07.pdf"
	vFileContent(name, string(w.buf))
	txt, _, err := Open(name).Text()
	vAssert("text-no-error", err == nil)
	vObserveStr("text", txt)
	vAssert("codes-decode-to-the-fonts-text", strings.Contains(txt, want))
	vAssert("valid-utf8", utf8.ValidString(txt))
	vReach("end")
}

// H_C10_whole_file_handles: after any terminal operation on a PDF - successful or failed - no file handle remains open.
//
//symgo:harness prop=C10 kernel=K5-handles-after-terminal-operations noreplay=1
//symgo:desc file content and file-handle model (os.Open hands out a handle that counts as open until Close); file enumerated: a valid one-page PDF, a file with a valid header but no cross-reference data, a file that is not a PDF, an empty file; operation enumerated: Text, ToMarkdown, Fragments, Lines, Paragraphs, Document, Chunks, Text on a page number outside the document, or the non-terminal PageCount; optionally a second operation on the same extractor value: after each terminal operation returns, and in any case after Close, the number of open handles is zero
func H_C10_whole_file_handles() {
	name := "/tmp/symgo-replay-c10.pdf"
	switch vAnyIntIn(0, 3) {
	case 0:
		vFileContent(name, vSmallPDF("Hello", false, vAnyIntIn(0, 1) == 1))
	case 1:
		vFileContent(name, "%PDF-1.5\n1 0 obj\n<< /Type /Catalog >>\nendobj\n")
	case 2:
		vFileContent(name, "PK\x03\x04 this is not a pdf at all")
	default:
		vFileContent(name, "")
	}
	e := Open(name)
	run := func(op int) {
		switch op {
		case 0:
			_, _, _ = e.Text()
		case 1:
			_, _, _ = e.ToMarkdown()
		case 2:
			_, _ = e.PageCount()
		case 3:
			_, _, _ = e.Fragments()
		case 4:
			_, _ = e.Lines()
		case 5:
			_, _ = e.Paragraphs()
		case 6:
			_, _, _ = e.Document()
		case 7:
			_, _, _ = e.Chunks()
		default:
			_, _, _ = e.Pages(7).Text()
		}
		if op != 2 { // PageCount is documented as non-terminal: it keeps the reader for further calls until Close
			vAssert("no-handle-left-open-after-terminal-operation", vOpenFiles() == 0)
		}
	}
	run(vAnyIntIn(0, 8))
	if vAnyIntIn(0, 1) == 1 {
		run(vAnyIntIn(0, 2))
	}
	_ = e.Close()
	vAssert("no-handle-left-open-after-close", vOpenFiles() == 0)
	vReach("end")
}

// vTwoPagePDF: a flat two-page document ("Page1 text" / "Page2 text") with a classic cross-reference table.
func vTwoPagePDF() string {
	w := &vPDFWriter{eol: "\n", offsets: map[int]int{}}
	w.write("%PDF-1.4\n")
	w.obj(1, "<< /Type /Catalog /Pages 2 0 R >>")
	w.obj(2, "<< /Type /Pages /Kids [4 0 R 5 0 R] /Count 2 /Resources << /Font << /F1 6 0 R >> >> /MediaBox [0 0 612 792] >>")
	w.obj(4, "<< /Type /Page /Parent 2 0 R /Contents 10 0 R >>")
	w.obj(5, "<< /Type /Page /Parent 2 0 R /Contents 12 0 R >>")
	w.obj(6, "<< /Type /Font /Subtype /Type1 /BaseFont /Helvetica /Encoding /WinAnsiEncoding >>")
	for i, n := range []int{10, 12} {
		data := "BT /F1 12 Tf 72 720 Td (Page" + strconv.Itoa(i+1) + " text) Tj ET"
		w.stream(n, "/Length "+strconv.Itoa(len(data)), data)
	}
	w.xref(false, false, -1, []int{1, 2, 4, 5, 6, 10, 12}, nil, 30, 31, 32)
	return string(w.buf)
}

// H_C10_derived_extractors_on_an_open_base: using an extractor derived from a base that has already opened the file
// (by a non-terminal call) changes nothing for the base or for its other derivations.
//
//symgo:harness prop=C10 kernel=K7-derived-from-open-base
//symgo:desc two-page PDF from the harness-local writer through the file content and file-handle models; the base extractor first runs a non-terminal operation (PageCount, IsMultiColumn, IsCharacterLevel, or none; enumerated), then base.Pages(1).Text(), base.Pages(2).Text() (or in the other order; enumerated), then base.Text(): every call succeeds and returns exactly its own pages; base.Close() and a second Close() return without panic and leave zero handles open
func H_C10_derived_extractors_on_an_open_base() {
	name := "/tmp/symgo-replay-c10b.pdf"
	vFileContent(name, vTwoPagePDF())
	base := Open(name)
	switch vAnyIntIn(0, 3) {
	case 0:
		n, err := base.PageCount()
		vAssert("page-count", err == nil && n == 2)
	case 1:
		_, err := base.IsMultiColumn()
		vAssert("is-multi-column-no-error", err == nil)
	case 2:
		_, err := base.IsCharacterLevel()
		vAssert("is-character-level-no-error", err == nil)
	}
	order := []int{1, 2}
	if vAnyIntIn(0, 1) == 1 {
		order = []int{2, 1}
	}
	for _, p := range order {
		txt, _, err := base.Pages(p).Text()
		vAssert("derived-text-no-error", err == nil)
		vAssert("derived-text-is-its-own-page", strings.Contains(txt, "Page"+strconv.Itoa(p)+" text") && !strings.Contains(txt, "Page"+strconv.Itoa(3-p)+" text"))
	}
	all, _, err := base.Text()
	vAssert("base-text-no-error", err == nil)
	vAssert("base-text-has-both-pages", strings.Contains(all, "Page1 text") && strings.Contains(all, "Page2 text"))
	vAssert("first-close-reports-no-error", base.Close() == nil)
	_ = base.Close()
	vAssert("no-handle-left-open", vOpenFiles() == 0)
	vReach("end")
}

// H_C02_stream_length_faults: a stream's /Length is a number from the file: replaced by the catalogue values, or by a
// reference that leads back to the stream itself, every entry point still returns a value or an error.
//
//symgo:harness prop=C02 kernel=whole-file-stream-length-faults hang=1 depth=400 loop=100000 steps=80000000
//symgo:desc one-page PDF from the harness-local writer through the file content model; the content stream's /Length is (enumerated) a reference to the stream object itself, a reference to a second stream whose /Length refers back to the first, or one of 9223372036854775807, 2147483648, -1, 0; classic table or cross-reference stream (enumerated): Open/PageCount/Text/Close return without run-time panic, without an allocation sized from the number (allocation budget), within call depth 400 and the loop/step bounds
func H_C02_stream_length_faults() {
	xs := vAnyIntIn(0, 1) == 1
	w := &vPDFWriter{eol: "\n", offsets: map[int]int{}}
	if xs {
		w.packed = map[int]string{}
	}
	w.write("%PDF-1.5\n")
	w.obj(1, "<< /Type /Catalog /Pages 2 0 R >>")
	w.obj(2, "<< /Type /Pages /Kids [3 0 R] /Count 1 /MediaBox [0 0 612 792] >>")
	w.obj(3, "<< /Type /Page /Parent 2 0 R /Resources << /Font << /F1 4 0 R >> >> /Contents 5 0 R >>")
	w.obj(4, "<< /Type /Font /Subtype /Type1 /BaseFont /Helvetica /Encoding /WinAnsiEncoding >>")
	data := "BT /F1 12 Tf 72 720 Td (Hello) Tj ET"
	nums := []int{1, 2, 3, 4, 5}
	switch vAnyIntIn(0, 5) {
	case 0:
		w.stream(5, "/Length 5 0 R", data)
	case 1:
		w.stream(5, "/Length 6 0 R", data)
		w.stream(6, "/Length 5 0 R", "12")
		nums = append(nums, 6)
	case 2:
		w.stream(5, "/Length 9223372036854775807", data)
	case 3:
		w.stream(5, "/Length 2147483648", data)
	case 4:
		w.stream(5, "/Length -1", data)
	default:
		w.stream(5, "/Length 0", data)
	}
	w.xref(xs, xs, -1, nums, nil, 8, 9, 10)
	name := "/tmp/symgo-replay-c02l.pdf"
	vFileContent(name, string(w.buf))
	e := Open(name)
	_, _ = e.PageCount()
	_, _, _ = e.Text()
	_, _, _ = Open(name).ToMarkdown()
	_ = e.Close()
	vReach("end")
}
