//go:build verif_harness

package tabula

import (
	"archive/zip"
	"io"
	"strings"
)

var vZipRC *zip.ReadCloser

func vStubOpenZipRoot(name string) (*zip.ReadCloser, error) { return vZipRC, nil }

func vStubNewZipReaderRoot(r io.ReaderAt, size int64) (*zip.Reader, error) { return &vZipRC.Reader, nil }

func vZipMember(name, content string) {
	vZipRC.File = append(vZipRC.File, &zip.File{FileHeader: zip.FileHeader{Name: name}})
	vZipContent(name, content)
}

const vDocxNS = `xmlns:w="http://schemas.openxmlformats.org/wordprocessingml/2006/main" xmlns:r="http://schemas.openxmlformats.org/officeDocument/2006/relationships"`

// H_C12_docx_file_chunks: from a DOCX file to RAG chunks through the public API: every body text - paragraphs, list
// items, table cells - lands in the chunks exactly once and in document order, and each chunk's section path names the
// headings that really enclose it.
//
//symgo:harness prop=C12 kernel=K5-docx-file-to-chunks noreplay=1
//symgo:redirect archive/zip.OpenReader vStubOpenZipRoot
//symgo:redirect archive/zip.NewReader vStubNewZipReaderRoot
//symgo:desc zip layer cut (member content model); a DOCX package (Content_Types, document.xml, styles.xml with Heading1/Heading2, numbering.xml) whose body is: H1 "Alpha", a paragraph, then 1..2 further elements out of {H2 "Beta" + paragraph, two list items, a 2x2 table, H1 "Gamma" + paragraph} (enumerated), opened by tabula.Open(name).Chunks() (format detection, docx reader, model conversion, chunker): the concatenated chunk texts contain every body text marker exactly once and in document order; a chunk that contains a marker written under H2 "Beta" has a section path ending in Beta under the H1 that precedes it; a marker under H1 "Gamma" is not attributed to Alpha
func H_C12_docx_file_chunks() {
	run := func(t string) string { return `<w:r><w:t>` + t + `</w:t></w:r>` }
	para := func(t string) string { return `<w:p>` + run(t) + `</w:p>` }
	head := func(lvl int, t string) string {
		return `<w:p><w:pPr><w:pStyle w:val="Heading` + string(rune('0'+lvl)) + `"/></w:pPr>` + run(t) + `</w:p>`
	}
	body := head(1, "Alpha") + para("MarkIntro text.")
	markers := []string{"MarkIntro"}
	section := map[string]string{"MarkIntro": "Alpha"}
	parentOf := map[string]string{}
	cur, top := "Alpha", "Alpha"
	for i, n := 0, vAnyIntIn(1, 2); i < n; i++ {
		tag := string(rune('A' + i))
		switch vAnyIntIn(0, 3) {
		case 0:
			body += head(2, "Beta") + para("MarkSub"+tag+" text.")
			markers = append(markers, "MarkSub"+tag)
			section["MarkSub"+tag] = "Beta"
			parentOf["MarkSub"+tag] = top
			cur = "Beta"
		case 1:
			for k := 0; k < 2; k++ {
				m := "MarkItem" + tag + string(rune('0'+k))
				body += `<w:p><w:pPr><w:numPr><w:ilvl w:val="0"/><w:numId w:val="1"/></w:numPr></w:pPr>` + run(m+" entry") + `</w:p>`
				markers = append(markers, m)
				section[m] = cur
				parentOf[m] = top
			}
		case 2:
			body += `<w:tbl><w:tr><w:tc>` + para("MarkCell"+tag+"a") + `</w:tc><w:tc>` + para("MarkCell"+tag+"b") + `</w:tc></w:tr><w:tr><w:tc>` + para("MarkCell"+tag+"c") + `</w:tc><w:tc>` + para("MarkCell"+tag+"d") + `</w:tc></w:tr></w:tbl>`
			for _, c := range []string{"a", "b", "c", "d"} {
				markers = append(markers, "MarkCell"+tag+c)
				section["MarkCell"+tag+c] = cur
				parentOf["MarkCell"+tag+c] = top
			}
		default:
			body += head(1, "Gamma") + para("MarkTop"+tag+" text.")
			markers = append(markers, "MarkTop"+tag)
			section["MarkTop"+tag] = "Gamma"
			cur, top = "Gamma", "Gamma"
		}
	}
	vZipRC = &zip.ReadCloser{}
	vZipMember("[Content_Types].xml", `<?xml version="1.0"?><Types xmlns="http://schemas.openxmlformats.org/package/2006/content-types"><Default Extension="xml" ContentType="application/xml"/><Override PartName="/word/document.xml" ContentType="application/vnd.openxmlformats-officedocument.wordprocessingml.document.main+xml"/></Types>`)
	vZipMember("word/document.xml", `<?xml version="1.0" encoding="UTF-8" standalone="yes"?><w:document `+vDocxNS+`><w:body>`+body+`<w:sectPr/></w:body></w:document>`)
	vZipMember("word/styles.xml", `<?xml version="1.0"?><w:styles `+vDocxNS+`><w:style w:type="paragraph" w:styleId="Heading1"><w:name w:val="heading 1"/><w:pPr><w:outlineLvl w:val="0"/></w:pPr></w:style><w:style w:type="paragraph" w:styleId="Heading2"><w:name w:val="heading 2"/><w:pPr><w:outlineLvl w:val="1"/></w:pPr></w:style></w:styles>`)
	vZipMember("word/numbering.xml", `<?xml version="1.0"?><w:numbering `+vDocxNS+`><w:abstractNum w:abstractNumId="0"><w:lvl w:ilvl="0"><w:start w:val="1"/><w:numFmt w:val="bullet"/><w:lvlText w:val="-"/></w:lvl></w:abstractNum><w:num w:numId="1"><w:abstractNumId w:val="0"/></w:num></w:numbering>`)
	name := "/tmp/symgo-c12.docx"
	vFileContent(name, "PK\x03\x04")
	cc, _, err := Open(name).Chunks()
	vAssert("chunks-no-error", err == nil && cc != nil)
	all := ""
	for _, c := range cc.Chunks {
		all += c.Text + "\n"
	}
	pos := 0
	for _, m := range markers {
		vAssert("every-body-text-exactly-once", strings.Count(all, m) == 1)
		k := strings.Index(all[pos:], m)
		vAssert("body-texts-in-document-order", k >= 0)
		if k >= 0 {
			pos += k + len(m)
		}
		for _, c := range cc.Chunks {
			if !strings.Contains(c.Text, m) {
				continue
			}
			sp := c.Metadata.SectionPath
			want := section[m]
			switch want {
			case "Beta":
				vAssert("section-path-names-enclosing-headings", len(sp) >= 2 && sp[len(sp)-1] == "Beta" && sp[len(sp)-2] == parentOf[m])
			default:
				vAssert("section-path-names-enclosing-heading", len(sp) >= 1 && sp[len(sp)-1] == want)
			}
		}
	}
	vReach("end")
}
