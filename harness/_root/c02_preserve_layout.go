//go:build verif_harness

package tabula

import "github.com/tsawler/tabula/text"

// H_C02_preserve_layout_positions: coordinates come from the file; the layout-preserving rendering must not turn them
// into allocation sizes or loop counts.
//
//symgo:harness prop=C02 kernel=extractPreserveLayout hang=1 loop=20000
//symgo:desc two fragments of font size 12 on a 612-point-wide page: the first at (72,700), the second at a position taken from the fault catalogue - x in {72, 1e9, 1e18, -1e18}, y in {688, -1e9, -1e18} (enumerated), as a content stream can place text anywhere: extractPreserveLayout returns within the allocation budget (the run of spaces is not sized by x) and the loop bound 20000 (the run of blank lines is not sized by the y gap)
func H_C02_preserve_layout_positions() {
	x := []float64{72, 1e9, 1e18, -1e18}[vAnyIntIn(0, 3)]
	y := []float64{688, -1e9, -1e18}[vAnyIntIn(0, 2)]
	frags := []text.TextFragment{
		{Text: "first", X: 72, Y: 700, Width: 30, Height: 12, FontSize: 12},
		{Text: "second", X: x, Y: y, Width: 36, Height: 12, FontSize: 12},
	}
	e := &Extractor{options: defaultOptions()}
	_ = e.extractPreserveLayout(frags, 612)
	vReach("end")
}
