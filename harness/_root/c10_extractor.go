//go:build verif_harness

package tabula

import (
	"errors"

	"github.com/tsawler/tabula/core"
	"github.com/tsawler/tabula/docx"
	"github.com/tsawler/tabula/epubdoc"
	"github.com/tsawler/tabula/format"
	"github.com/tsawler/tabula/htmldoc"
	"github.com/tsawler/tabula/odt"
	"github.com/tsawler/tabula/pages"
	"github.com/tsawler/tabula/pptx"
	"github.com/tsawler/tabula/reader"
	"github.com/tsawler/tabula/text"
	"github.com/tsawler/tabula/xlsx"
)

var vPageCount int
var vCloseCalls int
var vCloseErr bool

func vStubPageCount(r *reader.Reader) (int, error) { return vPageCount, nil }
func vStubGetInfo(r *reader.Reader) (core.Dict, error) {
	return nil, errors.New("stub: no info dictionary")
}
func vStubGetPage(r *reader.Reader, index int) (*pages.Page, error) {
	if index < 0 || index >= vPageCount {
		return nil, errors.New("stub: page out of range")
	}
	d := core.Dict{"Type": core.Name("Page"), "MediaBox": core.Array{core.Int(0), core.Int(0), core.Int(612), core.Int(792)}}
	return pages.NewPage(d, nil, vIdentityResolver{}), nil
}

type vIdentityResolver struct{}

func (vIdentityResolver) Resolve(obj core.Object) (core.Object, error)     { return obj, nil }
func (vIdentityResolver) ResolveDeep(obj core.Object) (core.Object, error) { return obj, nil }
func (vIdentityResolver) ResolveReference(ref core.IndirectRef) (core.Object, error) {
	return core.Null{}, nil
}
func vStubFragments(r *reader.Reader, p *pages.Page) ([]text.TextFragment, error) { return nil, nil }
func vStubClose(r *reader.Reader) error {
	vCloseCalls++
	if vCloseErr {
		return errors.New("stub: close failed")
	}
	return nil
}
func vStubCloseDocx(r *docx.Reader) error    { vCloseCalls++; return nil }
func vStubCloseOdt(r *odt.Reader) error      { vCloseCalls++; return nil }
func vStubCloseXlsx(r *xlsx.Reader) error    { vCloseCalls++; return nil }
func vStubClosePptx(r *pptx.Reader) error    { vCloseCalls++; return nil }
func vStubCloseHTML(r *htmldoc.Reader) error { vCloseCalls++; return nil }
func vStubCloseEpub(r *epubdoc.Reader) error { vCloseCalls++; return nil }

// H_C10_page_selection: selecting pages S yields exactly {p-1 | p in S} in ascending order without duplicates,
// however S is spelled, and a page number outside the document is an error.
//
//symgo:harness prop=C10 kernel=K1-selection noreplay=1
//symgo:redirect (*github.com/tsawler/tabula/reader.Reader).PageCount vStubPageCount
//symgo:desc page count symbolic in [0,5]; 1..3 page numbers, full-range symbolic integers, given through Pages(...) in one or several chained calls (enumerated) plus optionally PageRange(a,b) with a,b symbolic in [-1,6]: error iff some selected number lies outside 1..count, otherwise strictly ascending zero-based indices, exactly the selected set; PDF reader cut at Reader.PageCount
func H_C10_page_selection() {
	vPageCount = vAnyIntRange(0, 5)
	n := vAnyIntIn(1, 3)
	ps := make([]int, n)
	for i := range ps {
		ps[i] = vAnyInt()
	}
	e := &Extractor{format: format.PDF, reader: &reader.Reader{}, readerOpened: true, options: defaultOptions()}
	var sel *Extractor
	if vAnyIntIn(0, 1) == 0 {
		sel = e.Pages(ps...)
	} else {
		sel = e
		for _, p := range ps {
			sel = sel.Pages(p)
		}
	}
	all := append([]int{}, ps...)
	if vAnyIntIn(0, 1) == 1 {
		a, b := vAnyIntRange(-1, 6), vAnyIntRange(-1, 6)
		sel = sel.PageRange(a, b)
		for i := a; i <= b; i++ {
			all = append(all, i)
		}
	}
	got, err := sel.resolvePages()
	bad := false
	for _, p := range all {
		if p < 1 || p > vPageCount {
			bad = true
		}
	}
	if bad {
		vAssert("out-of-range-page-is-error", err != nil)
	} else {
		vAssert("no-error", err == nil)
		for i := range got {
			if i > 0 {
				vAssert("ascending-no-duplicates", got[i-1] < got[i])
			}
			in := false
			for _, p := range all {
				if p-1 == got[i] {
					in = true
				}
			}
			vAssert("only-selected-pages", in)
		}
		for _, p := range all {
			in := false
			for _, g := range got {
				if g == p-1 {
					in = true
				}
			}
			vAssert("every-selected-page", in)
		}
	}
	vReach("end")
}

// H_C10_reversed_range_alone: a reversed range names no page; it must not silently select the whole document.
//
//symgo:harness prop=C10 kernel=K1b-reversed-range noreplay=1
//symgo:redirect (*github.com/tsawler/tabula/reader.Reader).PageCount vStubPageCount
//symgo:desc page count symbolic in [1,5]; PageRange(a,b) with a > b, both symbolic in [-1,6], as the only selection or chained after Pages(p) with p in range (enumerated): alone, the selection is an error or empty - never pages that were not named; after Pages(p) the result is an error or exactly {p}
func H_C10_reversed_range_alone() {
	vPageCount = vAnyIntRange(1, 5)
	a, b := vAnyIntRange(-1, 6), vAnyIntRange(-1, 6)
	vAssume(a > b)
	e := &Extractor{format: format.PDF, reader: &reader.Reader{}, readerOpened: true, options: defaultOptions()}
	if vAnyIntIn(0, 1) == 0 {
		sel := e.PageRange(a, b)
		got, err := sel.resolvePages()
		vAssert("reversed-range-selects-nothing-or-is-an-error", sel.err != nil || err != nil || len(got) == 0) // sel.err: the fail-fast error every terminal operation returns first
	} else {
		p := vAnyIntRange(1, 5)
		vAssume(p <= vPageCount)
		sel := e.Pages(p).PageRange(a, b)
		got, err := sel.resolvePages()
		vAssert("reversed-range-adds-nothing", sel.err != nil || err != nil || (len(got) == 1 && got[0] == p-1))
	}
	vReach("end")
}

// H_C10_copy_on_configure: deriving a configured extractor never changes the extractor it came from.
//
//symgo:harness prop=C10 kernel=K2-copy-on-configure noreplay=1
//symgo:desc base extractor with 0..2 pages and symbolic option flags; 1..3 builder calls (enumerated over Pages, PageRange, ExcludeHeaders, ExcludeFooters, ExcludeHeadersAndFooters, JoinParagraphs, ByColumn, PreserveLayout) applied to the base or to the previous derivative (enumerated): the base's page list (length and contents) and flags are unchanged; run under Go's append growth policy
func H_C10_copy_on_configure() {
	base := &Extractor{format: format.PDF, options: defaultOptions()}
	nb := vAnyIntIn(0, 2)
	for i := 0; i < nb; i++ {
		base.options.pages = append(base.options.pages, 10+i)
	}
	base.options.excludeHeaders = vAnyBool()
	base.options.byColumn = vAnyBool()
	snapPages := append([]int{}, base.options.pages...)
	snap := base.options
	cur := base
	steps := vAnyIntIn(1, 3)
	for s := 0; s < steps; s++ {
		from := cur
		if vAnyIntIn(0, 1) == 1 {
			from = base
		}
		switch vAnyIntIn(0, 7) {
		case 0:
			cur = from.Pages(vAnyInt(), vAnyInt())
		case 1:
			cur = from.PageRange(1, vAnyIntIn(0, 3))
		case 2:
			cur = from.ExcludeHeaders()
		case 3:
			cur = from.ExcludeFooters()
		case 4:
			cur = from.ExcludeHeadersAndFooters()
		case 5:
			cur = from.JoinParagraphs()
		case 6:
			cur = from.ByColumn()
		default:
			cur = from.PreserveLayout()
		}
		vAssert("derivative-is-a-new-extractor", cur != base)
	}
	vAssert("base-page-count-unchanged", len(base.options.pages) == len(snapPages))
	for i := range snapPages {
		vAssert("base-pages-unchanged", base.options.pages[i] == snapPages[i])
	}
	vAssert("base-flags-unchanged", base.options.excludeHeaders == snap.excludeHeaders && base.options.excludeFooters == snap.excludeFooters &&
		base.options.byColumn == snap.byColumn && base.options.preserveLayout == snap.preserveLayout && base.options.joinParagraphs == snap.joinParagraphs)
	vReach("end")
}

// H_C10_document_page_numbers: pages of the document model carry their true source page number.
//
//symgo:harness prop=C10 kernel=K3-page-stamping noreplay=1
//symgo:redirect (*github.com/tsawler/tabula/reader.Reader).PageCount vStubPageCount
//symgo:redirect (*github.com/tsawler/tabula/reader.Reader).GetInfo vStubGetInfo
//symgo:redirect (*github.com/tsawler/tabula/reader.Reader).GetPage vStubGetPage
//symgo:redirect (*github.com/tsawler/tabula/reader.Reader).ExtractTextFragments vStubFragments
//symgo:redirect (*github.com/tsawler/tabula/reader.Reader).Close vStubClose
//symgo:desc 4-page document (reader cut: page count, pages, fragments and Close are stubs); 1..2 selected pages, symbolic in [1,4]: Document() returns one model page per selected page, in ascending order, whose Number is the source page number and which Document.GetPage(number) returns; the reader, supplied by the caller as through tabula.FromReader, is not closed by the terminal operation
func H_C10_document_page_numbers() {
	vPageCount = 4
	vCloseCalls, vCloseErr = 0, false
	n := vAnyIntIn(1, 2)
	ps := make([]int, n)
	for i := range ps {
		ps[i] = vAnyIntRange(1, 4)
	}
	if n == 2 {
		vAssume(ps[0] != ps[1])
	}
	e := &Extractor{format: format.PDF, reader: &reader.Reader{}, readerOpened: true, ownsReader: false, options: defaultOptions()} // the state tabula.FromReader(r) builds: derivations share the caller-supplied reader
	doc, _, err := e.Pages(ps...).Document()
	vAssert("no-error", err == nil && doc != nil)
	vAssert("one-model-page-per-selected-page", len(doc.Pages) == n)
	for i, p := range doc.Pages {
		want := ps[0]
		if n == 2 {
			lo, hi := ps[0], ps[1]
			if lo > hi {
				lo, hi = hi, lo
			}
			want = []int{lo, hi}[i]
		}
		vAssert("page-number-is-source-page", p.Number == want)
		vAssert("lookup-by-page-number-finds-that-page", doc.GetPage(want) == p)
	}
	vAssert("caller-supplied-reader-is-not-closed", vCloseCalls == 0)
	vReach("end")
}

// H_C10_close_state_machine: Close releases whatever the extractor owns exactly once, and closing again is harmless.
//
//symgo:harness prop=C10 kernel=K4-close noreplay=1
//symgo:redirect (*github.com/tsawler/tabula/reader.Reader).Close vStubClose
//symgo:redirect (*github.com/tsawler/tabula/docx.Reader).Close vStubCloseDocx
//symgo:redirect (*github.com/tsawler/tabula/odt.Reader).Close vStubCloseOdt
//symgo:redirect (*github.com/tsawler/tabula/xlsx.Reader).Close vStubCloseXlsx
//symgo:redirect (*github.com/tsawler/tabula/pptx.Reader).Close vStubClosePptx
//symgo:redirect (*github.com/tsawler/tabula/htmldoc.Reader).Close vStubCloseHTML
//symgo:redirect (*github.com/tsawler/tabula/epubdoc.Reader).Close vStubCloseEpub
//symgo:desc arbitrary lifecycle state: which one of the seven readers is set (enumerated, or none), ownsReader and readerOpened symbolic, the PDF reader's Close failing or not (symbolic): after Close nothing is owned and no reader is referenced if it was owned; an owned reader is closed exactly once; a second Close closes nothing and returns nil
func H_C10_close_state_machine() {
	vCloseCalls, vCloseErr = 0, vAnyBool()
	e := &Extractor{options: defaultOptions()}
	which := vAnyIntIn(0, 7)
	switch which {
	case 1:
		e.reader = &reader.Reader{}
	case 2:
		e.docxReader = &docx.Reader{}
	case 3:
		e.odtReader = &odt.Reader{}
	case 4:
		e.xlsxReader = &xlsx.Reader{}
	case 5:
		e.pptxReader = &pptx.Reader{}
	case 6:
		e.htmlReader = &htmldoc.Reader{}
	case 7:
		e.epubReader = &epubdoc.Reader{}
	}
	e.ownsReader = vAnyBool()
	e.readerOpened = vAnyBool()
	owned := e.ownsReader && which != 0
	err := e.Close()
	if owned {
		vAssert("owned-reader-closed-exactly-once", vCloseCalls == 1)
		vAssert("nothing-owned-after-close", !e.ownsReader && !e.readerOpened)
		vAssert("reader-reference-dropped", e.reader == nil && e.docxReader == nil && e.odtReader == nil && e.xlsxReader == nil && e.pptxReader == nil && e.htmlReader == nil && e.epubReader == nil)
		if which == 1 && vCloseErr {
			vAssert("close-error-reported", err != nil)
		}
	} else {
		vAssert("unowned-reader-not-closed", vCloseCalls == 0 && err == nil)
	}
	before := vCloseCalls
	err2 := e.Close()
	vAssert("second-close-is-harmless", err2 == nil && vCloseCalls == before)
	vReach("end")
}

// H_C10_siblings_do_not_interfere: two extractors derived from the same base do not see each other's pages.
//
//symgo:harness prop=C10 kernel=K2-sibling-derivation noreplay=1
//symgo:desc base built by PageRange(1,k) with k in 1..4 (so its page slice may have spare capacity under Go's append growth) or by Pages(...); two siblings x := base.Pages(a) and y := base.Pages(b) (or PageRange) with symbolic a, b: after deriving y, x still selects exactly base+a and base still selects exactly its own pages
func H_C10_siblings_do_not_interfere() {
	k := vAnyIntIn(1, 4)
	var base *Extractor
	root := &Extractor{format: format.PDF, options: defaultOptions()}
	if vAnyIntIn(0, 1) == 0 {
		base = root.PageRange(1, k)
	} else {
		base = root
		for i := 1; i <= k; i++ {
			base = base.Pages(i)
		}
	}
	a, b := vAnyIntRange(10, 20), vAnyIntRange(30, 40)
	x := base.Pages(a)
	var y *Extractor
	if vAnyIntIn(0, 1) == 0 {
		y = base.Pages(b)
	} else {
		y = base.PageRange(b, b+1)
	}
	vAssert("base-unchanged", len(base.options.pages) == k)
	for i := 0; i < k; i++ {
		vAssert("base-pages", base.options.pages[i] == i+1)
	}
	vAssert("first-sibling-length", len(x.options.pages) == k+1)
	vAssert("first-sibling-keeps-its-own-page", x.options.pages[k] == a)
	vAssert("second-sibling-has-its-own-page", len(y.options.pages) >= k+1 && y.options.pages[k] == b)
	vReach("end")
}
