//go:build verif_harness

package tabula

import (
	"errors"
	"strings"

	"github.com/tsawler/tabula/core"
	"github.com/tsawler/tabula/format"
	"github.com/tsawler/tabula/pages"
	"github.com/tsawler/tabula/reader"
	"github.com/tsawler/tabula/text"
)

// vHeaderText is the running header as drawn; some generators pad it with a blank.
var vHeaderText = "Running Header"

// a 5-page stub document: page 0 is a title page without the running header; pages 1..4 carry it
func vStubGetPageIdx(r *reader.Reader, index int) (*pages.Page, error) {
	if index < 0 || index >= vPageCount {
		return nil, errors.New("stub: page out of range")
	}
	d := core.Dict{"Type": core.Name("Page"), "Resources": core.Dict{"VIndex": core.Int(index)}, "MediaBox": core.Array{core.Int(0), core.Int(0), core.Int(612), core.Int(792)}}
	return pages.NewPage(d, nil, vIdentityResolver{}), nil
}

func vStubFragmentsIdx(r *reader.Reader, p *pages.Page) ([]text.TextFragment, error) {
	res, err := p.Resources()
	if err != nil {
		return nil, err
	}
	idx := int(res.Get("VIndex").(core.Int))
	body := text.TextFragment{Text: "Body text of page " + string(rune('A'+idx)), X: 72, Y: 400, Width: 200, Height: 10, FontSize: 10}
	if idx == 0 {
		return []text.TextFragment{{Text: "The Title", X: 200, Y: 500, Width: 150, Height: 24, FontSize: 24}, body}, nil
	}
	return []text.TextFragment{{Text: vHeaderText, X: 72, Y: 760, Width: 120, Height: 10, FontSize: 10}, body,
		{Text: "Confidential Footer", X: 72, Y: 30, Width: 120, Height: 10, FontSize: 10}}, nil
}

// H_C11_filter_uses_document_page_index: marginal repetition is detected over the whole document and removed from
// whichever pages are selected - the filter is keyed by the page's index in the document, not by its position in
// the selection.
//
//symgo:harness prop=C11 kernel=K4-extractor-page-index noreplay=1
//symgo:redirect (*github.com/tsawler/tabula/reader.Reader).PageCount vStubPageCount
//symgo:redirect (*github.com/tsawler/tabula/reader.Reader).GetPage vStubGetPageIdx
//symgo:redirect (*github.com/tsawler/tabula/reader.Reader).ExtractTextFragments vStubFragmentsIdx
//symgo:redirect (*github.com/tsawler/tabula/reader.Reader).Close vStubClose
//symgo:desc 5-page stub document (reader cut at PageCount/GetPage/ExtractTextFragments/Close): title page without marginal text, pages 2..5 with the same header (drawn bare, padded with a trailing or leading blank, or containing the year range 2023-2024 - enumerated) and footer; selection = one or two pages out of 2..5 (enumerated), exclusion = headers, footers or both (enumerated), API = Text, Lines, Paragraphs or Fragments (enumerated): the excluded marginal text does not appear in the output and the body text of every selected page does. (Enumerated structure; concrete fragments)
func H_C11_filter_uses_document_page_index() {
	vPageCount = 5
	vCloseCalls, vCloseErr = 0, false
	// the running header: bare, padded with a blank, or containing two consecutive numbers (a year range is not a page number)
	vHeaderText = []string{"Running Header", "Running Header ", " Running Header", "Running Header FY 2023-2024"}[vAnyIntIn(0, 3)]
	a := vAnyIntIn(2, 5)
	b := vAnyIntIn(a, 5) // b == a: single page
	mode := vAnyIntIn(0, 2)
	e := &Extractor{format: format.PDF, reader: &reader.Reader{}, readerOpened: true, ownsReader: false, options: defaultOptions()} // the state tabula.FromReader(r) builds: derivations share the caller-supplied reader
	if a == b {
		e = e.Pages(a)
	} else {
		e = e.Pages(a, b)
	}
	switch mode {
	case 0:
		e = e.ExcludeHeaders()
	case 1:
		e = e.ExcludeFooters()
	default:
		e = e.ExcludeHeadersAndFooters()
	}
	var out string
	switch vAnyIntIn(0, 3) {
	case 3:
		fs, _, err := e.Fragments()
		vAssert("no-error", err == nil)
		for _, f := range fs {
			out += f.Text + "\n"
		}
	case 0:
		s, _, err := e.Text()
		vAssert("no-error", err == nil)
		out = s
	case 1:
		ls, err := e.Lines()
		vAssert("no-error", err == nil)
		for _, l := range ls {
			out += l.Text + "\n"
		}
	default:
		ps, err := e.Paragraphs()
		vAssert("no-error", err == nil)
		for _, p := range ps {
			out += p.Text + "\n"
		}
	}
	// (the PDF path removes both kinds of marginal repetition whichever of the three options is
	// given; C11 allows that - such a fragment is marginal and repeated - so only removal is asserted)
	if mode == 0 || mode == 2 {
		vAssert("header-removed-from-selected-pages", !strings.Contains(out, "Running Header"))
	}
	if mode == 1 || mode == 2 {
		vAssert("footer-removed-from-selected-pages", !strings.Contains(out, "Confidential Footer"))
	}
	vAssert("body-kept-first", strings.Contains(out, "Body text of page "+string(rune('A'+a-1))))
	vAssert("body-kept-second", strings.Contains(out, "Body text of page "+string(rune('A'+b-1))))
	vReach("end")
}

// H_C10_selection_spelling_is_irrelevant: the result for a set of pages does not depend on how the set is spelled -
// order, duplicates, ranges, repeated chained calls - for any terminal operation and option, header/footer exclusion
// included (detection always sees the whole document).
//
//symgo:harness prop=C10 kernel=K6-spelling-independence noreplay=1
//symgo:redirect (*github.com/tsawler/tabula/reader.Reader).PageCount vStubPageCount
//symgo:redirect (*github.com/tsawler/tabula/reader.Reader).GetPage vStubGetPageIdx
//symgo:redirect (*github.com/tsawler/tabula/reader.Reader).ExtractTextFragments vStubFragmentsIdx
//symgo:redirect (*github.com/tsawler/tabula/reader.Reader).Close vStubClose
//symgo:desc 5-page stub document (reader cut at PageCount/GetPage/ExtractTextFragments/Close) with a running header and footer on pages 2..5; the page set {p} or {p,q} (p, q enumerated in 2..5) spelled as: Pages in ascending order, Pages in descending order, Pages with every number five times, chained single-page Pages calls with a repetition, or PageRange(p,p) plus Pages(q,p) (enumerated); option none, ExcludeHeaders or ExcludeHeadersAndFooters (enumerated); terminal Text, Lines or Paragraphs (enumerated): every spelling gives exactly the output of the canonical ascending spelling
func H_C10_selection_spelling_is_irrelevant() {
	vPageCount = 5
	vCloseCalls, vCloseErr = 0, false
	vHeaderText = "Running Header"
	p := vAnyIntIn(2, 5)
	q := vAnyIntIn(p, 5)
	opt := vAnyIntIn(0, 2)
	term := vAnyIntIn(0, 2)
	mk := func(spelling int) *Extractor {
		e := &Extractor{format: format.PDF, reader: &reader.Reader{}, readerOpened: true, ownsReader: false, options: defaultOptions()} // the state tabula.FromReader(r) builds: derivations share the caller-supplied reader
		switch spelling {
		case 0:
			e = e.Pages(p, q)
		case 1:
			e = e.Pages(q, p)
		case 2:
			e = e.Pages(p, q, p, q, p, q, p, q, p, q)
		case 3:
			e = e.Pages(q).Pages(p).Pages(q)
		default:
			e = e.PageRange(p, p).Pages(q, p)
		}
		switch opt {
		case 1:
			e = e.ExcludeHeaders()
		case 2:
			e = e.ExcludeHeadersAndFooters()
		}
		return e
	}
	run := func(e *Extractor) string {
		switch term {
		case 0:
			s, _, err := e.Text()
			vAssert("no-error", err == nil)
			return s
		case 1:
			ls, err := e.Lines()
			vAssert("no-error", err == nil)
			out := ""
			for _, l := range ls {
				out += l.Text + "\n"
			}
			return out
		default:
			ps, err := e.Paragraphs()
			vAssert("no-error", err == nil)
			out := ""
			for _, pp := range ps {
				out += pp.Text + "\n"
			}
			return out
		}
	}
	want := run(mk(0))
	got := run(mk(vAnyIntIn(1, 4)))
	vAssert("same-result-however-the-set-is-spelled", got == want)
	vReach("end")
}

// a 3-page stub document whose pages have a running header, a page number and two columns of vColLines lines
var vColLines = 9

func vStubFragmentsTwoCol(r *reader.Reader, p *pages.Page) ([]text.TextFragment, error) {
	res, err := p.Resources()
	if err != nil {
		return nil, err
	}
	idx := int(res.Get("VIndex").(core.Int))
	out := []text.TextFragment{{Text: "Quarterly Report", X: 72, Y: 760, Width: 120, Height: 10, FontSize: 10}}
	for i := 0; i < vColLines; i++ {
		y := float64(700 - 14*i)
		out = append(out, text.TextFragment{Text: "left" + string(rune('a'+i)) + " words in column one", X: 72, Y: y, Width: 200, Height: 10, FontSize: 10})
		out = append(out, text.TextFragment{Text: "right" + string(rune('a'+i)) + " words in column two", X: 330, Y: y, Width: 200, Height: 10, FontSize: 10})
	}
	out = append(out, text.TextFragment{Text: string(rune('1' + idx)), X: 300, Y: 30, Width: 6, Height: 10, FontSize: 10})
	return out, nil
}

// H_C11_exclusion_keeps_the_order_of_what_it_keeps: the filtered text is the unfiltered text minus some fragments, in
// the same order - also when removing the marginal fragments moves the page across a threshold of the layout heuristics.
//
//symgo:harness prop=C11 kernel=K5-exclusion-keeps-order noreplay=1
//symgo:redirect (*github.com/tsawler/tabula/reader.Reader).PageCount vStubPageCount
//symgo:redirect (*github.com/tsawler/tabula/reader.Reader).GetPage vStubGetPageIdx
//symgo:redirect (*github.com/tsawler/tabula/reader.Reader).ExtractTextFragments vStubFragmentsTwoCol
//symgo:redirect (*github.com/tsawler/tabula/reader.Reader).Close vStubClose
//symgo:desc 3-page stub document (reader cut): every page has a running header, a page number and two columns of 8, 9 or 10 lines (enumerated; 9 lines = 20 fragments, the multi-column heuristic's minimum, so that removing header and number drops the page to 18); page 1, 2 or 3 selected (enumerated): the body markers (lefta.., righta..) of Text() with header/footer exclusion are exactly those of Text() without it, in the same order, and the header text is gone
func H_C11_exclusion_keeps_the_order_of_what_it_keeps() {
	vPageCount = 3
	vCloseCalls, vCloseErr = 0, false
	vColLines = vAnyIntIn(8, 10)
	pg := vAnyIntIn(1, 3)
	e := &Extractor{format: format.PDF, reader: &reader.Reader{}, readerOpened: true, ownsReader: false, options: defaultOptions()}
	plain, _, err1 := e.Pages(pg).Text()
	excl, _, err2 := e.Pages(pg).ExcludeHeadersAndFooters().Text()
	vAssert("no-error", err1 == nil && err2 == nil)
	markers := func(s string) string {
		var seq []string
		for _, w := range strings.Fields(s) {
			if strings.HasPrefix(w, "left") || strings.HasPrefix(w, "right") {
				seq = append(seq, w)
			}
		}
		return strings.Join(seq, " ")
	}
	vAssert("unfiltered-has-every-body-line", len(strings.Fields(markers(plain))) == 2*vColLines)
	vAssert("filtered-keeps-body-in-the-same-order", markers(excl) == markers(plain))
	vAssert("running-header-removed", !strings.Contains(excl, "Quarterly Report"))
	vReach("end")
}

// H_C11_every_page_of_a_long_document: marginal repetition is removed from every page, however many pages there are.
//
//symgo:harness prop=C11 kernel=K4b-long-document noreplay=1
//symgo:redirect (*github.com/tsawler/tabula/reader.Reader).PageCount vStubPageCount
//symgo:redirect (*github.com/tsawler/tabula/reader.Reader).GetPage vStubGetPageIdx
//symgo:redirect (*github.com/tsawler/tabula/reader.Reader).ExtractTextFragments vStubFragmentsIdx
//symgo:redirect (*github.com/tsawler/tabula/reader.Reader).Close vStubClose
//symgo:desc stub document of 8, 50, 53 or 120 pages (enumerated; reader cut): a title page, then pages with the same running header and footer; the last page, the page before it, or page 2 selected (enumerated); ExcludeHeadersAndFooters().Text(): neither the header nor the footer text appears and the page's body text does
func H_C11_every_page_of_a_long_document() {
	vPageCount = []int{8, 50, 53, 120}[vAnyIntIn(0, 3)]
	vCloseCalls, vCloseErr = 0, false
	vHeaderText = "Running Header"
	pg := []int{vPageCount, vPageCount - 1, 2}[vAnyIntIn(0, 2)]
	e := &Extractor{format: format.PDF, reader: &reader.Reader{}, readerOpened: true, ownsReader: false, options: defaultOptions()}
	out, _, err := e.Pages(pg).ExcludeHeadersAndFooters().Text()
	vAssert("no-error", err == nil)
	vAssert("header-removed-from-every-page", !strings.Contains(out, "Running Header"))
	vAssert("footer-removed-from-every-page", !strings.Contains(out, "Confidential Footer"))
	vAssert("body-kept", strings.Contains(out, "Body text of page"))
	vReach("end")
}
