//go:build verif_harness

package tabula

import (
	"io"
	"io/fs"
	"os"
	"time"

	"github.com/tsawler/tabula/format"
)

var vDetected format.Format
var vDetectErr bool

type vFileInfo struct{}

func (vFileInfo) Name() string       { return "f" }
func (vFileInfo) Size() int64        { return 10 }
func (vFileInfo) Mode() fs.FileMode  { return 0 }
func (vFileInfo) ModTime() time.Time { return time.Time{} }
func (vFileInfo) IsDir() bool        { return false }
func (vFileInfo) Sys() interface{}   { return nil }

func vStubOSOpen(name string) (*os.File, error)        { return nil, nil }
func vStubFileStat(f *os.File) (os.FileInfo, error)    { return vFileInfo{}, nil }
func vStubFileClose(f *os.File) error                  { return nil }
func vStubDetect(r io.ReaderAt, size int64) (format.Format, error) {
	if vDetectErr {
		return format.Unknown, io.ErrUnexpectedEOF
	}
	return vDetected, nil
}

// H_C20_extension_vs_content: a file is opened under its extension only if its content is of that format
// (or cannot be identified); recognisable content of another format is refused.
//
//symgo:harness prop=C20 kernel=K4-cross-check noreplay=1
//symgo:redirect os.Open vStubOSOpen
//symgo:redirect (*os.File).Stat vStubFileStat
//symgo:redirect (*os.File).Close vStubFileClose
//symgo:redirect github.com/tsawler/tabula/format.DetectFromReader vStubDetect
//symgo:desc extension format symbolic over the seven supported formats, detected content format symbolic over the seven formats and Unknown, detection failure symbolic: validateFormat returns an error iff detection fails or both formats are known and differ; file access is cut
func H_C20_extension_vs_content() {
	ext := format.Format(vAnyIntRange(1, 7))
	vDetected = format.Format(vAnyIntRange(0, 7))
	vDetectErr = vAnyBool()
	e := &Extractor{filename: "x", format: ext, options: defaultOptions()}
	err := e.validateFormat()
	mismatch := vDetected != format.Unknown && vDetected != ext
	vAssert("refused-iff-content-is-another-format", (err != nil) == (vDetectErr || mismatch))
	vReach("end")
}
