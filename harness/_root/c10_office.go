//go:build verif_harness

package tabula

import (
	"archive/zip"
	"strings"
)

// vStubOpenZipHandle: zip.OpenReader under the zip handle model: every call hands out a fresh archive value over the
// harness-built member list and registers it as an open handle (released by its Close).
func vStubOpenZipHandle(name string) (*zip.ReadCloser, error) {
	rc := &zip.ReadCloser{}
	rc.File = vZipRC.File
	vZipHandle(rc)
	return rc, nil
}

const vPptNS = `xmlns:a="http://schemas.openxmlformats.org/drawingml/2006/main" xmlns:r="http://schemas.openxmlformats.org/officeDocument/2006/relationships" xmlns:p="http://schemas.openxmlformats.org/presentationml/2006/main"`
const vXlNS = `xmlns="http://schemas.openxmlformats.org/spreadsheetml/2006/main"`
const vOdfNS = `xmlns:office="urn:oasis:names:tc:opendocument:xmlns:office:1.0" xmlns:style="urn:oasis:names:tc:opendocument:xmlns:style:1.0" xmlns:text="urn:oasis:names:tc:opendocument:xmlns:text:1.0" xmlns:table="urn:oasis:names:tc:opendocument:xmlns:table:1.0"`
const vRelNS = `xmlns="http://schemas.openxmlformats.org/package/2006/relationships"`

// vOfficeFile builds a small package of the given kind (0 DOCX, 1 ODT, 2 XLSX, 3 PPTX, 4 EPUB) as a member list with
// contents, optionally damaged (0 intact, 1 main part missing, 2 main part not well-formed, 3 a secondary part not
// well-formed / DRM marker for EPUB), registers a file with ZIP magic under the matching extension and returns its name.
func vOfficeFile(kind, damage int) string {
	vZipRC = &zip.ReadCloser{}
	put := func(name, content string, main, secondary bool) {
		if main && damage == 1 {
			return
		}
		if main && damage == 2 {
			content = content[:len(content)/2] + "<<"
		}
		if secondary && damage == 3 {
			content = content[:len(content)/2] + "<<"
		}
		vZipMember(name, content)
	}
	ext := ""
	switch kind {
	case 0:
		ext = "docx"
		put("[Content_Types].xml", `<?xml version="1.0"?><Types xmlns="http://schemas.openxmlformats.org/package/2006/content-types"/>`, false, false)
		put("word/_rels/document.xml.rels", `<?xml version="1.0"?><Relationships `+vRelNS+`><Relationship Id="rId1" Type="http://schemas.openxmlformats.org/officeDocument/2006/relationships/styles" Target="styles.xml"/></Relationships>`, false, true)
		put("word/document.xml", `<?xml version="1.0"?><w:document `+vDocxNS+`><w:body><w:p><w:r><w:t>Office text one.</w:t></w:r></w:p><w:p><w:r><w:t>Office text two.</w:t></w:r></w:p><w:sectPr/></w:body></w:document>`, true, false)
	case 1:
		ext = "odt"
		put("mimetype", "application/vnd.oasis.opendocument.text", false, false)
		put("styles.xml", `<?xml version="1.0"?><office:document-styles `+vOdfNS+`><office:styles/></office:document-styles>`, false, true)
		put("content.xml", `<?xml version="1.0"?><office:document-content `+vOdfNS+`><office:body><office:text><text:p>Office text one.</text:p><text:p>Office text two.</text:p></office:text></office:body></office:document-content>`, true, false)
	case 2:
		ext = "xlsx"
		put("[Content_Types].xml", `<?xml version="1.0"?><Types xmlns="http://schemas.openxmlformats.org/package/2006/content-types"/>`, false, false)
		put("xl/_rels/workbook.xml.rels", `<?xml version="1.0"?><Relationships `+vRelNS+`><Relationship Id="rId1" Type="http://schemas.openxmlformats.org/officeDocument/2006/relationships/worksheet" Target="worksheets/sheet1.xml"/></Relationships>`, false, false)
		put("xl/workbook.xml", `<?xml version="1.0"?><workbook `+vXlNS+` xmlns:r="http://schemas.openxmlformats.org/officeDocument/2006/relationships"><sheets><sheet name="Data" sheetId="1" r:id="rId1"/></sheets></workbook>`, true, false)
		put("xl/worksheets/sheet1.xml", `<?xml version="1.0"?><worksheet `+vXlNS+`><sheetData><row r="1"><c r="A1" t="inlineStr"><is><t>one</t></is></c><c r="B1"><v>2</v></c></row></sheetData></worksheet>`, false, true)
	case 3:
		ext = "pptx"
		put("[Content_Types].xml", `<?xml version="1.0"?><Types xmlns="http://schemas.openxmlformats.org/package/2006/content-types"/>`, false, false)
		put("ppt/_rels/presentation.xml.rels", `<?xml version="1.0"?><Relationships `+vRelNS+`><Relationship Id="rId1" Type="http://schemas.openxmlformats.org/officeDocument/2006/relationships/slide" Target="slides/slide1.xml"/></Relationships>`, false, false)
		put("ppt/presentation.xml", `<?xml version="1.0"?><p:presentation `+vPptNS+`><p:sldIdLst><p:sldId id="256" r:id="rId1"/></p:sldIdLst></p:presentation>`, true, false)
		put("ppt/slides/slide1.xml", `<?xml version="1.0"?><p:sld `+vPptNS+`><p:cSld><p:spTree><p:nvGrpSpPr><p:cNvPr id="1" name=""/><p:cNvGrpSpPr/><p:nvPr/></p:nvGrpSpPr><p:grpSpPr/><p:sp><p:nvSpPr><p:cNvPr id="2" name="t"/><p:cNvSpPr/><p:nvPr><p:ph type="title"/></p:nvPr></p:nvSpPr><p:spPr/><p:txBody><a:bodyPr/><a:p><a:r><a:t>Slide title</a:t></a:r></a:p></p:txBody></p:sp></p:spTree></p:cSld></p:sld>`, false, true)
	default:
		ext = "epub"
		put("mimetype", "application/epub+zip", false, false)
		if damage == 3 {
			vZipMember("META-INF/encryption.xml", `<?xml version="1.0"?><encryption xmlns="urn:oasis:names:tc:opendocument:xmlns:container" xmlns:enc="http://www.w3.org/2001/04/xmlenc#"><enc:EncryptedData><enc:EncryptionMethod Algorithm="http://ns.adobe.com/adept/enc"/><enc:CipherData><enc:CipherReference URI="OEBPS/ch1.xhtml"/></enc:CipherData></enc:EncryptedData></encryption>`)
		}
		put("META-INF/container.xml", `<?xml version="1.0"?><container version="1.0" xmlns="urn:oasis:names:tc:opendocument:xmlns:container"><rootfiles><rootfile full-path="OEBPS/content.opf" media-type="application/oebps-package+xml"/></rootfiles></container>`, false, false)
		put("OEBPS/content.opf", `<?xml version="1.0"?><package xmlns="http://www.idpf.org/2007/opf" version="2.0" unique-identifier="uid"><metadata xmlns:dc="http://purl.org/dc/elements/1.1/"><dc:title>Book</dc:title><dc:identifier id="uid">urn:uuid:1</dc:identifier></metadata><manifest><item id="c1" href="ch1.xhtml" media-type="application/xhtml+xml"/></manifest><spine><itemref idref="c1"/></spine></package>`, true, false)
		vZipMember("OEBPS/ch1.xhtml", `<?xml version="1.0"?><html xmlns="http://www.w3.org/1999/xhtml"><head><title>One</title></head><body><h1>Chapter one</h1><p>Office text one.</p></body></html>`)
	}
	name := "/tmp/symgo-c10-office." + ext
	vFileContent(name, "PK\x03\x04")
	return name
}

// vRunOperation calls one public operation of the extractor; terminal reports whether the operation is documented as
// closing the reader.
func vRunOperation(e *Extractor, op int) (terminal bool) {
	switch op {
	case 0:
		_, _, _ = e.Text()
	case 1:
		_, _, _ = e.ToMarkdown()
	case 2:
		_, _, _ = e.Document()
	case 3:
		_, _, _ = e.Chunks()
	case 4:
		_, _, _ = e.Fragments()
	case 5:
		_, _ = e.Analyze()
	case 6:
		_, _ = e.Lines()
	case 7:
		_, _ = e.Paragraphs()
	case 8:
		_, _ = e.ReadingOrder()
	case 9:
		_, _ = e.Headings()
	case 10:
		_, _ = e.Lists()
	case 11:
		_, _ = e.Blocks()
	case 12:
		_, _ = e.Elements()
	case 13:
		_, _ = e.PageCount()
		return false
	case 14:
		_, _ = e.IsMultiColumn()
		return false
	default:
		_, _ = e.IsCharacterLevel()
		return false
	}
	return true
}

const vOperations = 16

// H_C10_office_handles: the ZIP-based formats release their archive handle: after any terminal operation on a DOCX, ODT,
// XLSX, PPTX or EPUB file - intact or damaged, so both the success path and every error path of the format's Open - no
// handle remains open, and Close afterwards (twice) is harmless.
//
//symgo:harness prop=C10 kernel=K6-office-handles-after-terminal-operations noreplay=1
//symgo:redirect archive/zip.OpenReader vStubOpenZipHandle
//symgo:redirect archive/zip.NewReader vStubNewZipReaderRoot
//symgo:desc zip layer cut with handle accounting (zip.OpenReader hands out an archive that counts as an open handle until its Close; member content model; file content and file-handle model for the format check); format enumerated: DOCX, ODT, XLSX, PPTX, EPUB; package enumerated: intact, main part missing, main part not well-formed, a secondary part not well-formed (EPUB: an Adobe DRM marker); operation enumerated: Text, ToMarkdown, Document, Chunks (quick) plus every PDF-only operation (thorough), optionally followed by a second one on the same extractor value: after each terminal operation returns, successful or failed, zero handles are open; after Close and a second Close zero handles are open and neither call panics
func H_C10_office_handles() {
	kind, damage := vAnyIntIn(0, 4), vAnyIntIn(0, 3)
	name := vOfficeFile(kind, damage)
	if damage == 0 { // vacuity guard: the intact package really is read
		txt, _, err := Open(name).Text()
		vAssert("intact-package-extracts-its-text", err == nil && strings.Contains(txt, []string{"Office text two.", "Office text two.", "one", "Slide title", "Office text one."}[kind]))
		vAssert("no-handle-left-open-after-text", vOpenFiles() == 0)
	} else if damage == 1 { // and the error path of the format's Open really is taken
		_, _, err := Open(name).Text()
		vAssert("package-without-its-main-part-is-an-error", err != nil)
	}
	e := Open(name)
	nops := 4
	if vTier() > 0 {
		nops = vOperations
	}
	if vRunOperation(e, vAnyIntIn(0, nops-1)) {
		vAssert("no-handle-left-open-after-terminal-operation", vOpenFiles() == 0)
	}
	if vAnyIntIn(0, 1) == 1 {
		if vRunOperation(e, vAnyIntIn(0, 1)*13) { // Text again (re-opens) or PageCount
			vAssert("no-handle-left-open-after-second-operation", vOpenFiles() == 0)
		}
	}
	_ = e.Close()
	vAssert("no-handle-left-open-after-close", vOpenFiles() == 0)
	_ = e.Close()
	vAssert("no-handle-left-open-after-second-close", vOpenFiles() == 0)
	vReach("end")
}

// H_C02_every_operation_on_every_format: every public operation of the extractor returns a value or an error on a
// file of every supported ZIP-based format, including the operations that only make sense for PDF.
//
//symgo:harness prop=C02 kernel=K9-every-operation-on-every-format noreplay=1
//symgo:redirect archive/zip.OpenReader vStubOpenZipHandle
//symgo:redirect archive/zip.NewReader vStubNewZipReaderRoot
//symgo:desc zip layer cut (member content model); format enumerated: DOCX, ODT, XLSX, PPTX, EPUB; package intact or with its main part not well-formed (enumerated); operation enumerated over all 16 public operations of the extractor (Text, ToMarkdown, Document, Chunks, Fragments, Analyze, Lines, Paragraphs, ReadingOrder, Headings, Lists, Blocks, Elements, PageCount, IsMultiColumn, IsCharacterLevel): the call returns (no panic - every nil dereference, index and slice bound on the path is a verification condition)
func H_C02_every_operation_on_every_format() {
	name := vOfficeFile(vAnyIntIn(0, 4), vAnyIntIn(0, 1)*2)
	e := Open(name)
	vRunOperation(e, vAnyIntIn(0, vOperations-1))
	_ = e.Close()
	vReach("end")
}
