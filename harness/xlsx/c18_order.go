//go:build verif_harness

package xlsx

import "errors"

var vSheetFiles []string
var vPresentFiles map[string]bool

func vStubGetFile(r *Reader, name string) ([]byte, error) {
	if vPresentFiles[name] {
		return []byte(name), nil
	}
	return nil, errors.New("stub: file not found")
}
func vStubParseWorksheet(r *Reader, data []byte, name string, index int) (*Sheet, error) {
	vSheetFiles = append(vSheetFiles, string(data))
	return &Sheet{Name: name, Index: index}, nil
}

// H_C18_xlsx_sheet_order: worksheets are presented in workbook order, each read from the part its relationship names.
//
//symgo:harness prop=C18 kernel=K2-xlsx-sheets noreplay=1
//symgo:redirect (*github.com/tsawler/tabula/xlsx.Reader).getFileContent vStubGetFile
//symgo:redirect (*github.com/tsawler/tabula/xlsx.Reader).parseWorksheet vStubParseWorksheet
//symgo:desc 3 sheets named A,B,C in workbook order; their relationship ids and part files (xl/worksheets/sheetN.xml) are an enumerated permutation of the workbook order, so neither relationship-id order nor file-name order equals it; one part optionally missing (symbolic): SheetNames() = readable sheets in workbook order, sheet i read from the part its r:id points to; worksheet parsing and zip access cut
func H_C18_xlsx_sheet_order() {
	p := []int{0, 1, 2}
	for i := 0; i < 2; i++ {
		j := vAnyIntIn(i, 2)
		p[i], p[j] = p[j], p[i]
	}
	names := []string{"A", "B", "C"}
	r := &Reader{sheetRels: map[string]string{}, workbook: &workbookXML{}}
	vPresentFiles = map[string]bool{}
	vSheetFiles = nil
	missing := vAnyIntIn(-1, 2)
	var wantNames, wantFiles []string
	for i, nm := range names {
		k := p[i] // sheet i lives in file k+1 under relationship id rId(k+1)
		rid := "rId" + string(rune('1'+k))
		target := "worksheets/sheet" + string(rune('1'+k)) + ".xml"
		r.workbook.Sheets.Sheet = append(r.workbook.Sheets.Sheet, sheetRefXML{Name: nm, SheetID: string(rune('1' + i)), RID: rid})
		r.sheetRels[rid] = target
		if i != missing {
			vPresentFiles["xl/"+target] = true
			wantNames = append(wantNames, nm)
			wantFiles = append(wantFiles, "xl/"+target)
		}
	}
	err := r.parseWorksheets()
	vAssert("no-error", err == nil)
	got := r.SheetNames()
	vAssert("sheet-count-is-readable-declared-parts", len(got) == len(wantNames))
	for i := range wantNames {
		vAssert("workbook-order", got[i] == wantNames[i])
		vAssert("own-part", vSheetFiles[i] == wantFiles[i])
	}
	vReach("end")
}
