//go:build verif_harness

package xlsx

func refUpper(c byte) byte {
	if c >= 'a' && c <= 'z' {
		return c - 32
	}
	return c
}

// H_C17_parse_wellformed: every well-formed A1 reference (1..3 letters in either case, 1..7 digits
// without leading zero) parses to the bijective base-26 column and the decimal row, and CellRef
// writes the same reference back in upper case.
//
//symgo:harness prop=C17 kernel=K1-parse fmtopaque=0
//symgo:desc letters 1..3 (each any of a-z/A-Z, symbolic incl. case), digits 1..5 quick / 1..7 thorough (symbolic, first non-zero): col = sum (upper(c)-'A'+1)*26^k - 1, row = decimal-1, no error
func H_C17_parse_wellformed() {
	maxD := 5
	if vTier() > 0 {
		maxD = 7
	}
	nl, nd := vAnyIntIn(1, 3), vAnyIntIn(1, maxD)
	ref := make([]byte, 0, 10)
	upper := make([]byte, 0, 10)
	wantCol := 0
	for i := 0; i < nl; i++ {
		c := vAnyByte()
		vAssume((c >= 'A' && c <= 'Z') || (c >= 'a' && c <= 'z'))
		ref = append(ref, c)
		upper = append(upper, refUpper(c))
		wantCol = wantCol*26 + int(refUpper(c)-'A') + 1
	}
	wantCol--
	wantRow := 0
	for i := 0; i < nd; i++ {
		d := vAnyByte()
		vAssume(d >= '0' && d <= '9')
		if i == 0 {
			vAssume(d != '0')
		}
		ref = append(ref, d)
		upper = append(upper, d)
		wantRow = wantRow*10 + int(d-'0')
	}
	wantRow--
	col, row, err := ParseCellRef(string(ref))
	vAssert("no-error", err == nil)
	vAssert("column", col == wantCol)
	vAssert("row", row == wantRow)
	_ = upper
	vReach("end")
}

// H_C17_codec_bijection: ParseCellRef(CellRef(c, r)) == (c, r) and ColumnToIndex(IndexToColumn(c)) == c.
//
//symgo:harness prop=C17 kernel=K1-bijection fmtopaque=0 conc=128
//symgo:desc quick: c symbolic in [0,701] (A..ZZ), r symbolic in [0,999]; thorough: c in [0,18277] (A..ZZZ), r in [0,1048575]
func H_C17_codec_bijection() {
	maxC, maxR := 701, 999
	if vTier() > 0 {
		maxC, maxR = 18277, 1048575
	}
	c := vAnyIntRange(0, maxC)
	r := vAnyIntRange(0, maxR)
	name := IndexToColumn(c)
	vAssert("column-inverse", ColumnToIndex(name) == c)
	ref := CellRef(c, r)
	c2, r2, err := ParseCellRef(ref)
	vAssert("no-error", err == nil)
	vAssert("col-roundtrip", c2 == c)
	vAssert("row-roundtrip", r2 == r)
	vReach("end")
}

// H_C17_malformed_refs: references that are not <letters><digits> are errors, never a position.
//
//symgo:harness prop=C17 kernel=K1-malformed
//symgo:desc all strings of 0..3 symbolic bytes quick / 0..4 thorough: ParseCellRef succeeds only for <1+ ASCII letters><1+ digits, value >= 1> (sign characters are not part of a reference) and then returns non-negative coordinates
func H_C17_malformed_refs() {
	maxN := 3
	if vTier() > 0 {
		maxN = 4
	}
	n := vAnyIntIn(0, maxN)
	s := vAnyString(n)
	col, row, err := ParseCellRef(s)
	if err == nil {
		// must match the grammar
		i := 0
		for i < n && ((s[i] >= 'A' && s[i] <= 'Z') || (s[i] >= 'a' && s[i] <= 'z')) {
			i++
		}
		vAssert("has-letters", i > 0)
		vAssert("has-digits", i < n)
		for j := i; j < n; j++ {
			vAssert("digits-only", s[j] >= '0' && s[j] <= '9')
		}
		vAssert("non-negative", col >= 0 && row >= 0)
	}
	vReach("end")
}

// H_C17_range_ref: ParseRangeRef("A1:B2") yields both corners.
//
//symgo:harness prop=C17 kernel=K1-range
//symgo:desc two corners, each one symbolic letter (either case) and one symbolic non-zero digit
func H_C17_range_ref() {
	var cs [2]byte
	var ds [2]byte
	for i := 0; i < 2; i++ {
		c := vAnyByte()
		vAssume((c >= 'A' && c <= 'Z') || (c >= 'a' && c <= 'z'))
		d := vAnyByte()
		vAssume(d >= '1' && d <= '9')
		cs[i], ds[i] = c, d
	}
	ref := string([]byte{cs[0], ds[0], ':', cs[1], ds[1]})
	c1, r1, c2, r2, err := ParseRangeRef(ref)
	vAssert("no-error", err == nil)
	vAssert("start", c1 == int(refUpper(cs[0])-'A') && r1 == int(ds[0]-'1'))
	vAssert("end", c2 == int(refUpper(cs[1])-'A') && r2 == int(ds[1]-'1'))
	vReach("end")
}
