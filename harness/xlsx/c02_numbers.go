//go:build verif_harness

package xlsx

import "archive/zip"

// H_C02_xlsx_grid_dimensions: the dense grid of a worksheet is sized from cell references and row numbers in the file;
// whatever they say, opening returns a value or an error without an allocation of that size.
//
//symgo:harness prop=C02 kernel=xlsx-grid-dimensions hang=1 loop=200000 steps=100000000 noreplay=1
//symgo:redirect archive/zip.OpenReader vStubOpenZip
//symgo:desc zip layer cut (member content model); a one-sheet workbook with cells A1 and one more cell whose reference is (enumerated) A2147483648, A9223372036854775807, the valid last cell XFD1048576, ZZZZ1 (beyond the last column), or B2 inside a row whose r attribute is 2147483648 or 9223372036854775807: Open (and Text, Markdown when it succeeds) returns without run-time panic, within the allocation budget (the dense grid must not be sized from the reference) and the loop bounds
func H_C02_xlsx_grid_dimensions() {
	ref, rowR := "B2", "2"
	switch vAnyIntIn(0, 5) {
	case 0:
		ref = "A2147483648"
	case 1:
		ref = "A9223372036854775807"
	case 2:
		ref = "XFD1048576"
	case 3:
		ref = "ZZZZ1"
	case 4:
		rowR = "2147483648"
	default:
		rowR = "9223372036854775807"
	}
	ws := `<?xml version="1.0"?><worksheet ` + vNS + `><sheetData><row r="1"><c r="A1"><v>1</v></c></row><row r="` + rowR + `"><c r="` + ref + `"><v>2</v></c></row></sheetData></worksheet>`
	vZip = &zip.ReadCloser{}
	vMember("[Content_Types].xml", `<?xml version="1.0"?><Types xmlns="http://schemas.openxmlformats.org/package/2006/content-types"/>`)
	vMember("xl/worksheets/sheet1.xml", ws)
	vMember("xl/_rels/workbook.xml.rels", `<?xml version="1.0"?><Relationships xmlns="http://schemas.openxmlformats.org/package/2006/relationships"><Relationship Id="rId1" Type="http://schemas.openxmlformats.org/officeDocument/2006/relationships/worksheet" Target="worksheets/sheet1.xml"/></Relationships>`)
	vMember("xl/workbook.xml", `<?xml version="1.0"?><workbook `+vNS+` xmlns:r="http://schemas.openxmlformats.org/officeDocument/2006/relationships"><sheets><sheet name="Data" sheetId="1" r:id="rId1"/></sheets></workbook>`)
	r, err := Open("any.xlsx")
	if err == nil && r != nil {
		_, _ = r.Text()
		_, _ = r.Markdown()
		_ = r.Close()
	}
	vReach("end")
}
