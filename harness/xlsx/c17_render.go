//go:build verif_harness

package xlsx

import (
	"strings"

	"github.com/tsawler/tabula/rag"
)

// H_C17_renderings: tab-separated text has cell (r,c) in line r, field c; the table built from the sheet
// keeps every cell at its address relative to the content bounds; a merged region shows its value at the
// top-left and blanks elsewhere.
//
//symgo:harness prop=C17 kernel=K3-render
//symgo:redirect encoding/xml.Unmarshal vStubUnmarshal
//symgo:desc 2 cells at distinct symbolic addresses in A1..C3 (values "v0","v1"), optionally one merged range whose top-left is cell 0 and whose extent (1..2 x 1..2) is enumerated and does not cover cell 1; checks Sheet grid, TextWithOptions, sheetToTable and ToMarkdown row/column counts
func H_C17_renderings() {
	var cl, rd [2]byte
	for k := 0; k < 2; k++ {
		cl[k], rd[k] = vAnyByte(), vAnyByte()
		vAssume(cl[k] >= 'A' && cl[k] <= 'C')
		vAssume(rd[k] >= '1' && rd[k] <= '3')
	}
	vAssume(cl[0] != cl[1] || rd[0] != rd[1])
	col := [2]int{int(cl[0] - 'A'), int(cl[1] - 'A')}
	row := [2]int{int(rd[0] - '1'), int(rd[1] - '1')}
	var ws worksheetXML
	for k := 0; k < 2; k++ {
		ws.SheetData.Rows = append(ws.SheetData.Rows, rowXML{R: row[k] + 1, Cells: []cellXML{{R: string([]byte{cl[k], rd[k]}), T: "str", V: []string{"v0", "v1"}[k]}}})
	}
	mh, mw := vAnyIntIn(1, 2), vAnyIntIn(1, 2)
	merged := mh > 1 || mw > 1
	if merged {
		er, ec := row[0]+mh-1, col[0]+mw-1
		vAssume(er <= 2 && ec <= 2)
		vAssume(!(row[1] >= row[0] && row[1] <= er && col[1] >= col[0] && col[1] <= ec))
		ref := string([]byte{cl[0], rd[0], ':', byte('A' + ec), byte('1' + er)})
		ws.MergeCells = &mergeCellsXML{MergeCell: []mergeCellXML{{Ref: ref}}}
	}
	vWS = ws
	var data []byte
	if !vIsSymbolic() {
		data = vMarshalWS(ws)
	}
	r := &Reader{}
	sheet, err := r.parseWorksheet(data, "S", 0)
	vAssert("no-error", err == nil && sheet != nil)
	r.sheets = []*Sheet{sheet}
	// grid
	root := sheet.Cell(row[0], col[0])
	vAssert("root-exists", root != nil)
	vAssert("root-value", root.Value == "v0")
	if merged {
		vAssert("root-flag", root.IsMergeRoot && root.MergeRows == mh && root.MergeCols == mw)
	}
	// text: line r, field c
	txt, terr := r.TextWithOptions(ExtractOptions{})
	vAssert("text-no-error", terr == nil)
	lines := strings.Split(txt, "\n")
	for k := 0; k < 2; k++ {
		vAssert("text-line-exists", row[k] < len(lines))
		fields := strings.Split(lines[row[k]], "\t")
		vAssert("text-field-exists", col[k] < len(fields))
		vAssert("text-field-value", fields[col[k]] == []string{"v0", "v1"}[k])
	}
	nonEmpty := 0
	for _, ln := range lines {
		for _, f := range strings.Split(ln, "\t") {
			if f != "" {
				nonEmpty++
			}
		}
	}
	vAssert("text-only-two-values", nonEmpty == 2)
	// table relative to content bounds
	minR, minC := row[0], col[0]
	if row[1] < minR {
		minR = row[1]
	}
	if col[1] < minC {
		minC = col[1]
	}
	tbl := r.sheetToTable(sheet)
	grid := append([][]string{tbl.Headers}, tbl.Rows...)
	for k := 0; k < 2; k++ {
		rr, cc := row[k]-minR, col[k]-minC
		vAssert("table-row-exists", rr < len(grid))
		vAssert("table-col-exists", cc < len(grid[rr]))
		vAssert("table-value", grid[rr][cc] == []string{"v0", "v1"}[k])
	}
	md := tbl.ToMarkdown()
	mdLines := strings.Split(strings.TrimRight(md, "\n"), "\n")
	vAssert("markdown-rows", len(mdLines) == len(grid)+1)
	vReach("end")
}

// H_C15_xlsx_heading_options: the sheet name is a level-2 heading shifted by the configured offset and capped.
//
//symgo:harness prop=C15 kernel=K3e-xlsx-heading-options
//symgo:desc reader with one 1x2 sheet named "Data"; MarkdownWithRAGOptions with HeadingLevelOffset in {-2, 0, 1, 7} and MaxHeadingLevel in {1, 2, 6} (enumerated), no front matter or TOC: exactly one ATX heading line, "#" x clamp(2 + offset, 1, max) + " Data"
func H_C15_xlsx_heading_options() {
	off := []int{-2, 0, 1, 7}[vAnyIntIn(0, 3)]
	max := []int{1, 2, 6}[vAnyIntIn(0, 2)]
	sheet := &Sheet{Name: "Data", Rows: [][]Cell{{{Value: "a", Type: CellTypeString, MergeRows: 1, MergeCols: 1}, {Value: "b", Type: CellTypeString, Col: 1, MergeRows: 1, MergeCols: 1}}}}
	r := &Reader{sheets: []*Sheet{sheet}}
	opts := rag.DefaultMarkdownOptions()
	opts.IncludeMetadata, opts.IncludeTableOfContents = false, false
	opts.HeadingLevelOffset, opts.MaxHeadingLevel = off, max
	md, err := r.MarkdownWithRAGOptions(ExtractOptions{}, opts)
	vAssert("markdown-no-error", err == nil)
	want := 2 + off
	if want < 1 {
		want = 1
	}
	if want > max {
		want = max
	}
	n := 0
	for _, ln := range strings.Split(md, "\n") {
		if strings.HasPrefix(ln, "#") {
			n++
			vAssert("heading-level-is-shifted-and-capped", ln == strings.Repeat("#", want)+" Data")
		}
	}
	vAssert("exactly-one-heading-line", n == 1)
	vReach("end")
}
