//go:build verif_harness

package xlsx

import (
	"strconv"
	"strings"
)

var vWS worksheetXML

// vStubUnmarshal stands in for encoding/xml.Unmarshal (reflection, not executable in the engine):
// it hands parseWorksheet the harness-built struct. Natively the real Unmarshal parses vMarshalWS(vWS).
func vStubUnmarshal(data []byte, v interface{}) error {
	if p, ok := v.(*worksheetXML); ok {
		*p = vWS
	}
	return nil
}

func vMarshalWS(ws worksheetXML) []byte {
	var b strings.Builder
	b.WriteString(`<?xml version="1.0"?><worksheet xmlns="http://schemas.openxmlformats.org/spreadsheetml/2006/main"><sheetData>`)
	for _, r := range ws.SheetData.Rows {
		if r.R != 0 {
			b.WriteString(`<row r="` + strconv.Itoa(r.R) + `">`)
		} else {
			b.WriteString(`<row>`)
		}
		for _, c := range r.Cells {
			b.WriteString(`<c r="` + c.R + `"`)
			if c.T != "" {
				b.WriteString(` t="` + c.T + `"`)
			}
			b.WriteString(`>`)
			if c.F != "" {
				b.WriteString(`<f>` + c.F + `</f>`)
			}
			if c.V != "" {
				b.WriteString(`<v>` + c.V + `</v>`)
			}
			if c.Is != nil {
				b.WriteString(`<is><t>` + c.Is.T + `</t></is>`)
			}
			b.WriteString(`</c>`)
		}
		b.WriteString(`</row>`)
	}
	b.WriteString(`</sheetData>`)
	if ws.MergeCells != nil {
		b.WriteString(`<mergeCells>`)
		for _, mc := range ws.MergeCells.MergeCell {
			b.WriteString(`<mergeCell ref="` + mc.Ref + `"/>`)
		}
		b.WriteString(`</mergeCells>`)
	}
	b.WriteString(`</worksheet>`)
	return []byte(b.String())
}

// vCellOfKind builds a cell of the given kind whose display value must be want.
func vCellOfKind(kind int, ref string, k int) (cellXML, string) {
	tag := "v" + strconv.Itoa(k)
	switch kind {
	case 0: // shared string
		return cellXML{R: ref, T: "s", V: strconv.Itoa(k % 2)}, []string{"shared0", "shared1"}[k%2]
	case 1: // inline string
		return cellXML{R: ref, T: "inlineStr", Is: &inlineStrXML{T: tag}}, tag
	case 2: // formula string result
		return cellXML{R: ref, T: "str", V: tag, F: "A1&B1"}, tag
	case 3: // boolean
		return cellXML{R: ref, T: "b", V: "1"}, "TRUE"
	case 4: // error
		return cellXML{R: ref, T: "e", V: "#DIV/0!"}, "#DIV/0!"
	case 5: // number
		return cellXML{R: ref, V: "4" + strconv.Itoa(k)}, "4" + strconv.Itoa(k)
	default: // formula with cached numeric value
		return cellXML{R: ref, V: "7" + strconv.Itoa(k), F: "SUM(A1:A2)"}, "7" + strconv.Itoa(k)
	}
}

// H_C17_placement: every cell's display value lands at exactly the address its reference names,
// for every cell type, rows in any order, and <row> elements with or without their optional r attribute.
//
//symgo:harness prop=C17 kernel=K2-placement
//symgo:redirect encoding/xml.Unmarshal vStubUnmarshal
//symgo:desc 1..2 cells quick / 1..3 thorough, each in its own <row>; reference = symbolic column letter A..C (E thorough) x symbolic row digit 1..3 (5 thorough), distinct; cell kind enumerated over {shared, inline, str, boolean, error, number, formula+cached}; each row's r attribute present or absent (enumerated); xml.Unmarshal is cut (model: assigns the harness-built worksheetXML; native replay marshals it to real XML)
func H_C17_placement() {
	maxCells, maxCol, maxRow := 2, byte('C'), byte('3')
	if vTier() > 0 {
		maxCells, maxCol, maxRow = 3, byte('E'), byte('5')
	}
	n := vAnyIntIn(1, maxCells)
	type placed struct {
		col, row int
		want     string
	}
	var cells []placed
	var ws worksheetXML
	for k := 0; k < n; k++ {
		cl, rd := vAnyByte(), vAnyByte()
		vAssume(cl >= 'A' && cl <= maxCol)
		vAssume(rd >= '1' && rd <= maxRow)
		col, row := int(cl-'A'), int(rd-'1')
		for _, p := range cells {
			vAssume(p.col != col || p.row != row)
		}
		kind := vAnyIntIn(0, 6)
		cx, want := vCellOfKind(kind, string([]byte{cl, rd}), k)
		rx := rowXML{Cells: []cellXML{cx}}
		if vAnyIntIn(0, 1) == 1 {
			rx.R = row + 1
		}
		ws.SheetData.Rows = append(ws.SheetData.Rows, rx)
		cells = append(cells, placed{col, row, want})
	}
	vWS = ws
	var data []byte
	if !vIsSymbolic() {
		data = vMarshalWS(ws)
	}
	r := &Reader{sharedStrings: []string{"shared0", "shared1"}}
	sheet, err := r.parseWorksheet(data, "S", 0)
	vAssert("no-error", err == nil && sheet != nil)
	for _, p := range cells {
		c := sheet.Cell(p.row, p.col)
		vAssert("cell-exists-at-address", c != nil)
		vAssert("value-at-address", c.Value == p.want)
	}
	// every other position of the grid is empty
	for ri := range sheet.Rows {
		for ci := range sheet.Rows[ri] {
			mine := false
			for _, p := range cells {
				if p.row == ri && p.col == ci {
					mine = true
				}
			}
			if !mine {
				vAssert("others-empty", sheet.Rows[ri][ci].Value == "")
			}
		}
	}
	vReach("end")
}

// H_C17_cells_in_any_order_within_row: the cells of one <row> may be written in any column order.
//
//symgo:harness prop=C17 kernel=K2-row-cell-order
//symgo:redirect encoding/xml.Unmarshal vStubUnmarshal
//symgo:desc one or two <row> elements (r attribute present); the first row holds 2..3 cells at distinct symbolic columns A..E in the order given (any order, so the right-most cell need not be last); the second row, if any, holds one cell at a symbolic column: every cell value sits at its address and the grid is wide enough for all of them
func H_C17_cells_in_any_order_within_row() {
	n := vAnyIntIn(2, 3)
	var ws worksheetXML
	row := rowXML{R: 1}
	cols := make([]int, n)
	for k := 0; k < n; k++ {
		cl := vAnyByte()
		vAssume(cl >= 'A' && cl <= 'E')
		cols[k] = int(cl - 'A')
		for j := 0; j < k; j++ {
			vAssume(cols[j] != cols[k])
		}
		row.Cells = append(row.Cells, cellXML{R: string([]byte{cl, '1'}), T: "str", V: "v" + string(rune('0'+k))})
	}
	ws.SheetData.Rows = append(ws.SheetData.Rows, row)
	second := -1
	if vAnyIntIn(0, 1) == 1 {
		cl := vAnyByte()
		vAssume(cl >= 'A' && cl <= 'E')
		second = int(cl - 'A')
		ws.SheetData.Rows = append(ws.SheetData.Rows, rowXML{R: 2, Cells: []cellXML{{R: string([]byte{cl, '2'}), T: "str", V: "w"}}})
	}
	vWS = ws
	var data []byte
	if !vIsSymbolic() {
		data = vMarshalWS(ws)
	}
	sheet, err := (&Reader{}).parseWorksheet(data, "S", 0)
	vAssert("no-error", err == nil && sheet != nil)
	for k := 0; k < n; k++ {
		c := sheet.Cell(0, cols[k])
		vAssert("cell-exists-at-address", c != nil)
		vAssert("value-at-address", c.Value == "v"+string(rune('0'+k)))
	}
	if second >= 0 {
		c := sheet.Cell(1, second)
		vAssert("second-row-cell-exists", c != nil)
		vAssert("second-row-value", c.Value == "w")
	}
	vReach("end")
}
