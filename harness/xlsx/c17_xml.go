//go:build verif_harness

package xlsx

import "errors"

var vParts map[string]string

func vStubPart(r *Reader, name string) ([]byte, error) {
	if s, ok := vParts[name]; ok {
		return []byte(s), nil
	}
	return nil, errors.New("stub: no such part")
}

const vNS = `xmlns="http://schemas.openxmlformats.org/spreadsheetml/2006/main"`

// H_C17_values_from_xml: from the XML text of the shared-string table and of a worksheet to the grid: every cell shows
// its string - plain, rich text (all runs, no phonetic text), or inline - at the address its reference names.
//
//symgo:harness prop=C17 kernel=K2-placement-from-xml noreplay=1
//symgo:redirect (*github.com/tsawler/tabula/xlsx.Reader).getFileContent vStubPart
//symgo:desc xl/sharedStrings.xml with three entries, each plain, plain with preserved leading space, rich text of two runs, or rich text followed by a phonetic run (kinds enumerated); a worksheet whose two rows are written in either order (enumerated) and whose cells are shared-string cells and inline strings at fixed distinct addresses (B1, A2, C2, B2, A1): parseSharedStrings + parseWorksheet (real tokeniser, modelled reflection walk; zip layer cut at getFileContent) give each address its full text; phonetic text does not appear
func H_C17_values_from_xml() {
	sst := `<?xml version="1.0" encoding="UTF-8"?><sst ` + vNS + ` count="3" uniqueCount="3">`
	var want [3]string
	for i := 0; i < 3; i++ {
		w := "s" + string(rune('A'+i))
		switch vAnyIntIn(0, 3) {
		case 0:
			sst += `<si><t>` + w + `</t></si>`
			want[i] = w
		case 1:
			sst += `<si><t xml:space="preserve"> ` + w + `</t></si>`
			want[i] = " " + w
		case 2:
			sst += `<si><r><t>` + w + `</t></r><r><rPr><b/><sz val="11"/></rPr><t xml:space="preserve"> bold</t></r></si>`
			want[i] = w + " bold"
		default:
			sst += `<si><r><t>` + w + `</t></r><r><t>x</t></r><rPh sb="0" eb="1"><t>PHON</t></rPh><phoneticPr fontId="1"/></si>`
			want[i] = w + "x"
		}
	}
	sst += `</sst>`
	row1 := `<row r="1"><c r="A1" t="inlineStr"><is><r><t>in</t></r><r><t>rich</t></r></is></c><c r="B1" t="s"><v>0</v></c></row>`
	row2 := `<row r="2"><c r="A2" t="s"><v>2</v></c><c r="C2" t="s"><v>1</v></c><c r="B2" t="inlineStr"><is><t>plain</t></is></c></row>`
	rows := row1 + row2
	if vAnyIntIn(0, 1) == 1 {
		rows = row2 + row1
	}
	ws := `<?xml version="1.0" encoding="UTF-8"?><worksheet ` + vNS + `><dimension ref="A1:C2"/><sheetData>` + rows + `</sheetData></worksheet>`
	vParts = map[string]string{"xl/sharedStrings.xml": sst}
	r := &Reader{}
	vAssert("shared-strings-parse", r.parseSharedStrings() == nil)
	vAssert("shared-string-count", len(r.sharedStrings) == 3)
	for i := range want {
		vAssert("shared-string-text", r.sharedStrings[i] == want[i])
	}
	sheet, err := r.parseWorksheet([]byte(ws), "S", 0)
	vAssert("worksheet-parses", err == nil && sheet != nil)
	at := func(row, col int) string {
		c := sheet.Cell(row, col)
		if c == nil {
			return "<nil>"
		}
		return c.Value
	}
	vAssert("B1-shared", at(0, 1) == want[0])
	vAssert("A2-shared", at(1, 0) == want[2])
	vAssert("C2-shared", at(1, 2) == want[1])
	vAssert("B2-inline", at(1, 1) == "plain")
	vAssert("C1-empty", at(0, 2) == "")
	vReach("end")
}

// H_C17_inline_strings_from_xml: inline strings - plain or rich text - show their full text at their address.
//
//symgo:harness prop=C17 kernel=K2-inline-strings-from-xml
//symgo:desc worksheet XML text built by the harness and read by the real parseWorksheet (real tokeniser, modelled reflection walk - validated natively): two inline-string cells at enumerated distinct addresses out of {A1, C1, B2}, each plain <is><t>, rich text of two runs, or rich text with a phonetic run (enumerated); rows in either order: each address shows the concatenated run texts, nothing of the phonetic text
func H_C17_inline_strings_from_xml() {
	refs := []string{"A1", "C1", "B2"}
	pos := [][2]int{{0, 0}, {0, 2}, {1, 1}}
	a := vAnyIntIn(0, 2)
	b := vAnyIntIn(0, 2)
	vAssume(a != b)
	mk := func(ref, w string) (string, string) {
		switch vAnyIntIn(0, 2) {
		case 0:
			return `<c r="` + ref + `" t="inlineStr"><is><t>` + w + `</t></is></c>`, w
		case 1:
			return `<c r="` + ref + `" t="inlineStr"><is><r><t>` + w + `</t></r><r><rPr><b/></rPr><t xml:space="preserve"> two</t></r></is></c>`, w + " two"
		default:
			return `<c r="` + ref + `" t="inlineStr"><is><r><t>` + w + `</t></r><rPh sb="0" eb="1"><t>PHON</t></rPh></is></c>`, w
		}
	}
	ca, wa := mk(refs[a], "first")
	cb, wb := mk(refs[b], "second")
	rowOf := func(i int) string { return string(rune('1' + pos[i][0])) }
	rows := `<row r="` + rowOf(a) + `">` + ca + `</row><row r="` + rowOf(b) + `">` + cb + `</row>`
	if vAnyIntIn(0, 1) == 1 {
		rows = `<row r="` + rowOf(b) + `">` + cb + `</row><row r="` + rowOf(a) + `">` + ca + `</row>`
	}
	ws := `<?xml version="1.0" encoding="UTF-8"?><worksheet ` + vNS + `><sheetData>` + rows + `</sheetData></worksheet>`
	r := &Reader{}
	sheet, err := r.parseWorksheet([]byte(ws), "S", 0)
	vAssert("worksheet-parses", err == nil && sheet != nil)
	ca1, cb1 := sheet.Cell(pos[a][0], pos[a][1]), sheet.Cell(pos[b][0], pos[b][1])
	vAssert("cells-exist", ca1 != nil && cb1 != nil)
	vObserveStr("first", ca1.Value)
	vAssert("first-inline-text-at-its-address", ca1.Value == wa)
	vAssert("second-inline-text-at-its-address", cb1.Value == wb)
	vReach("end")
}

// H_C18_xlsx_from_xml: from the XML text of workbook.xml, its relationships and the worksheet parts to the sheet list:
// workbook order, each sheet read from the part its r:id names, whatever the relationship order or target spelling.
//
//symgo:harness prop=C18 kernel=K2-xlsx-sheets-from-xml noreplay=1
//symgo:redirect (*github.com/tsawler/tabula/xlsx.Reader).getFileContent vStubPart
//symgo:desc three sheets First, Second, Third (workbook order) whose parts sheetN.xml and relationship ids are an enumerated permutation; relationship file lists them in id order, interleaved with styles/sharedStrings/theme relationships; targets written relative ("worksheets/sheet2.xml") or absolute ("/xl/worksheets/sheet2.xml") (enumerated); each part's A1 holds a marker naming the part: parseRelationships + parseWorkbook + parseWorksheets (real tokeniser, modelled reflection walk; zip cut at getFileContent) return the sheets in workbook order and sheet i shows exactly its own part's marker
func H_C18_xlsx_from_xml() {
	p := []int{0, 1, 2}
	for i := 0; i < 2; i++ {
		j := vAnyIntIn(i, 2)
		p[i], p[j] = p[j], p[i]
	}
	abs := vAnyIntIn(0, 1) == 1
	names := []string{"First", "Second", "Third"}
	wb := `<?xml version="1.0" encoding="UTF-8" standalone="yes"?><workbook ` + vNS + ` xmlns:r="http://schemas.openxmlformats.org/officeDocument/2006/relationships"><bookViews><workbookView/></bookViews><sheets>`
	for i, nm := range names {
		wb += `<sheet name="` + nm + `" sheetId="` + string(rune('1'+i)) + `" r:id="rId` + string(rune('1'+p[i])) + `"/>`
	}
	wb += `</sheets></workbook>`
	rels := `<?xml version="1.0" encoding="UTF-8" standalone="yes"?><Relationships xmlns="http://schemas.openxmlformats.org/package/2006/relationships">`
	rels += `<Relationship Id="rId9" Type="http://schemas.openxmlformats.org/officeDocument/2006/relationships/styles" Target="styles.xml"/>`
	vParts = map[string]string{}
	for k := 0; k < 3; k++ {
		target := "worksheets/sheet" + string(rune('1'+k)) + ".xml"
		if abs {
			target = "/xl/" + target
		}
		rels += `<Relationship Id="rId` + string(rune('1'+k)) + `" Type="http://schemas.openxmlformats.org/officeDocument/2006/relationships/worksheet" Target="` + target + `"/>`
		if k == 1 {
			rels += `<Relationship Id="rId8" Type="http://schemas.openxmlformats.org/officeDocument/2006/relationships/sharedStrings" Target="sharedStrings.xml"/>`
		}
		vParts["xl/worksheets/sheet"+string(rune('1'+k))+".xml"] = `<?xml version="1.0"?><worksheet ` + vNS + `><sheetData><row r="1"><c r="A1" t="inlineStr"><is><t>part` + string(rune('1'+k)) + `</t></is></c></row></sheetData></worksheet>`
	}
	rels += `</Relationships>`
	vParts["xl/workbook.xml"] = wb
	vParts["xl/_rels/workbook.xml.rels"] = rels
	r := &Reader{sheetRels: map[string]string{}}
	vAssert("relationships-parse", r.parseRelationships() == nil)
	vAssert("workbook-parses", r.parseWorkbook() == nil)
	vAssert("worksheets-parse", r.parseWorksheets() == nil)
	got := r.SheetNames()
	vAssert("sheet-count", len(got) == 3 && len(r.sheets) == 3)
	for i, nm := range names {
		vAssert("workbook-order", got[i] == nm)
		c := r.sheets[i].Cell(0, 0)
		vAssert("own-part-text", c != nil && c.Value == "part"+string(rune('1'+p[i])))
	}
	vReach("end")
}
