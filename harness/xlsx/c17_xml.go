//go:build verif_harness

package xlsx

import (
	"archive/zip"
	"errors"
	"strings"
)

var vZip *zip.ReadCloser

func vStubOpenZip(name string) (*zip.ReadCloser, error) { return vZip, nil }

func vMember(name, content string) {
	vZip.File = append(vZip.File, &zip.File{FileHeader: zip.FileHeader{Name: name}})
	vZipContent(name, content)
}

var vParts map[string]string

func vStubPart(r *Reader, name string) ([]byte, error) {
	if s, ok := vParts[name]; ok {
		return []byte(s), nil
	}
	return nil, errors.New("stub: no such part")
}

const vNS = `xmlns="http://schemas.openxmlformats.org/spreadsheetml/2006/main"`

// H_C17_values_from_xml: from the XML text of the shared-string table and of a worksheet to the grid: every cell shows
// its string - plain, rich text (all runs, no phonetic text), or inline - at the address its reference names.
//
//symgo:harness prop=C17 kernel=K2-placement-from-xml noreplay=1
//symgo:redirect (*github.com/tsawler/tabula/xlsx.Reader).getFileContent vStubPart
//symgo:desc xl/sharedStrings.xml with three entries, each plain, plain with preserved leading space, rich text of two runs, or rich text followed by a phonetic run (kinds enumerated); a worksheet whose two rows are written in either order (enumerated) and whose cells are shared-string cells and inline strings at fixed distinct addresses (B1, A2, C2, B2, A1): parseSharedStrings + parseWorksheet (real tokeniser, modelled reflection walk; zip layer cut at getFileContent) give each address its full text; phonetic text does not appear
func H_C17_values_from_xml() {
	sst := `<?xml version="1.0" encoding="UTF-8"?><sst ` + vNS + ` count="3" uniqueCount="3">`
	var want [3]string
	for i := 0; i < 3; i++ {
		w := "s" + string(rune('A'+i))
		switch vAnyIntIn(0, 3) {
		case 0:
			sst += `<si><t>` + w + `</t></si>`
			want[i] = w
		case 1:
			sst += `<si><t xml:space="preserve"> ` + w + `</t></si>`
			want[i] = " " + w
		case 2:
			sst += `<si><r><t>` + w + `</t></r><r><rPr><b/><sz val="11"/></rPr><t xml:space="preserve"> bold</t></r></si>`
			want[i] = w + " bold"
		default:
			sst += `<si><r><t>` + w + `</t></r><r><t>x</t></r><rPh sb="0" eb="1"><t>PHON</t></rPh><phoneticPr fontId="1"/></si>`
			want[i] = w + "x"
		}
	}
	sst += `</sst>`
	row1 := `<row r="1"><c r="A1" t="inlineStr"><is><r><t>in</t></r><r><t>rich</t></r></is></c><c r="B1" t="s"><v>0</v></c></row>`
	row2 := `<row r="2"><c r="A2" t="s"><v>2</v></c><c r="C2" t="s"><v>1</v></c><c r="B2" t="inlineStr"><is><t>plain</t></is></c></row>`
	rows := row1 + row2
	if vAnyIntIn(0, 1) == 1 {
		rows = row2 + row1
	}
	ws := `<?xml version="1.0" encoding="UTF-8"?><worksheet ` + vNS + `><dimension ref="A1:C2"/><sheetData>` + rows + `</sheetData></worksheet>`
	vParts = map[string]string{"xl/sharedStrings.xml": sst}
	r := &Reader{}
	vAssert("shared-strings-parse", r.parseSharedStrings() == nil)
	vAssert("shared-string-count", len(r.sharedStrings) == 3)
	for i := range want {
		vAssert("shared-string-text", r.sharedStrings[i] == want[i])
	}
	sheet, err := r.parseWorksheet([]byte(ws), "S", 0)
	vAssert("worksheet-parses", err == nil && sheet != nil)
	at := func(row, col int) string {
		c := sheet.Cell(row, col)
		if c == nil {
			return "<nil>"
		}
		return c.Value
	}
	vAssert("B1-shared", at(0, 1) == want[0])
	vAssert("A2-shared", at(1, 0) == want[2])
	vAssert("C2-shared", at(1, 2) == want[1])
	vAssert("B2-inline", at(1, 1) == "plain")
	vAssert("C1-empty", at(0, 2) == "")
	vReach("end")
}

// H_C17_inline_strings_from_xml: inline strings - plain or rich text - show their full text at their address.
//
//symgo:harness prop=C17 kernel=K2-inline-strings-from-xml
//symgo:desc worksheet XML text built by the harness and read by the real parseWorksheet (real tokeniser, modelled reflection walk - validated natively): two inline-string cells at enumerated distinct addresses out of {A1, C1, B2}, each plain <is><t>, rich text of two runs, or rich text with a phonetic run (enumerated); rows in either order: each address shows the concatenated run texts, nothing of the phonetic text
func H_C17_inline_strings_from_xml() {
	refs := []string{"A1", "C1", "B2"}
	pos := [][2]int{{0, 0}, {0, 2}, {1, 1}}
	a := vAnyIntIn(0, 2)
	b := vAnyIntIn(0, 2)
	vAssume(a != b)
	mk := func(ref, w string) (string, string) {
		switch vAnyIntIn(0, 2) {
		case 0:
			return `<c r="` + ref + `" t="inlineStr"><is><t>` + w + `</t></is></c>`, w
		case 1:
			return `<c r="` + ref + `" t="inlineStr"><is><r><t>` + w + `</t></r><r><rPr><b/></rPr><t xml:space="preserve"> two</t></r></is></c>`, w + " two"
		default:
			return `<c r="` + ref + `" t="inlineStr"><is><r><t>` + w + `</t></r><rPh sb="0" eb="1"><t>PHON</t></rPh></is></c>`, w
		}
	}
	ca, wa := mk(refs[a], "first")
	cb, wb := mk(refs[b], "second")
	rowOf := func(i int) string { return string(rune('1' + pos[i][0])) }
	rows := `<row r="` + rowOf(a) + `">` + ca + `</row><row r="` + rowOf(b) + `">` + cb + `</row>`
	if vAnyIntIn(0, 1) == 1 {
		rows = `<row r="` + rowOf(b) + `">` + cb + `</row><row r="` + rowOf(a) + `">` + ca + `</row>`
	}
	ws := `<?xml version="1.0" encoding="UTF-8"?><worksheet ` + vNS + `><sheetData>` + rows + `</sheetData></worksheet>`
	r := &Reader{}
	sheet, err := r.parseWorksheet([]byte(ws), "S", 0)
	vAssert("worksheet-parses", err == nil && sheet != nil)
	ca1, cb1 := sheet.Cell(pos[a][0], pos[a][1]), sheet.Cell(pos[b][0], pos[b][1])
	vAssert("cells-exist", ca1 != nil && cb1 != nil)
	vObserveStr("first", ca1.Value)
	vAssert("first-inline-text-at-its-address", ca1.Value == wa)
	vAssert("second-inline-text-at-its-address", cb1.Value == wb)
	vReach("end")
}

// H_C18_xlsx_from_xml: from the XML text of workbook.xml, its relationships and the worksheet parts to the sheet list:
// workbook order, each sheet read from the part its r:id names, whatever the relationship order or target spelling.
//
//symgo:harness prop=C18 kernel=K2-xlsx-sheets-from-xml noreplay=1
//symgo:redirect (*github.com/tsawler/tabula/xlsx.Reader).getFileContent vStubPart
//symgo:desc three sheets First, Second, Third (workbook order) whose parts sheetN.xml and relationship ids are an enumerated permutation; relationship file lists them in id order, interleaved with styles/sharedStrings/theme relationships; targets written relative ("worksheets/sheet2.xml"), absolute ("/xl/worksheets/sheet2.xml"), with a "./" prefix or with "worksheets/../worksheets/" dot segments (enumerated); optionally a fourth sheet entry whose r:id is not declared by any relationship (enumerated; it names no part, so it is no page); each part's A1 holds a marker naming the part: parseRelationships + parseWorkbook + parseWorksheets (real tokeniser, modelled reflection walk; zip cut at getFileContent) return the sheets in workbook order and sheet i shows exactly its own part's marker
func H_C18_xlsx_from_xml() {
	p := []int{0, 1, 2}
	for i := 0; i < 2; i++ {
		j := vAnyIntIn(i, 2)
		p[i], p[j] = p[j], p[i]
	}
	spelling := vAnyIntIn(0, 3) // relative, absolute, "./" prefix, "dir/../dir/" dot segments
	abs := spelling == 1
	dangling := vAnyIntIn(0, 1) == 1 // a fourth sheet whose r:id no relationship declares
	names := []string{"First", "Second", "Third"}
	wb := `<?xml version="1.0" encoding="UTF-8" standalone="yes"?><workbook ` + vNS + ` xmlns:r="http://schemas.openxmlformats.org/officeDocument/2006/relationships"><bookViews><workbookView/></bookViews><sheets>`
	if dangling {
		// listed first: a positional file-name guess ("sheet1.xml") would find another sheet's part
		wb += `<sheet name="Ghost" sheetId="9" r:id="rId77"/>`
	}
	for i, nm := range names {
		wb += `<sheet name="` + nm + `" sheetId="` + string(rune('1'+i)) + `" r:id="rId` + string(rune('1'+p[i])) + `"/>`
	}
	wb += `</sheets></workbook>`
	rels := `<?xml version="1.0" encoding="UTF-8" standalone="yes"?><Relationships xmlns="http://schemas.openxmlformats.org/package/2006/relationships">`
	rels += `<Relationship Id="rId9" Type="http://schemas.openxmlformats.org/officeDocument/2006/relationships/styles" Target="styles.xml"/>`
	vParts = map[string]string{}
	for k := 0; k < 3; k++ {
		target := "worksheets/sheet" + string(rune('1'+k)) + ".xml"
		switch {
		case abs:
			target = "/xl/" + target
		case spelling == 2:
			target = "./" + target
		case spelling == 3:
			target = "worksheets/../worksheets/sheet" + string(rune('1'+k)) + ".xml"
		}
		rels += `<Relationship Id="rId` + string(rune('1'+k)) + `" Type="http://schemas.openxmlformats.org/officeDocument/2006/relationships/worksheet" Target="` + target + `"/>`
		if k == 1 {
			rels += `<Relationship Id="rId8" Type="http://schemas.openxmlformats.org/officeDocument/2006/relationships/sharedStrings" Target="sharedStrings.xml"/>`
		}
		vParts["xl/worksheets/sheet"+string(rune('1'+k))+".xml"] = `<?xml version="1.0"?><worksheet ` + vNS + `><sheetData><row r="1"><c r="A1" t="inlineStr"><is><t>part` + string(rune('1'+k)) + `</t></is></c></row></sheetData></worksheet>`
	}
	rels += `</Relationships>`
	vParts["xl/workbook.xml"] = wb
	vParts["xl/_rels/workbook.xml.rels"] = rels
	r := &Reader{sheetRels: map[string]string{}}
	vAssert("relationships-parse", r.parseRelationships() == nil)
	vAssert("workbook-parses", r.parseWorkbook() == nil)
	vAssert("worksheets-parse", r.parseWorksheets() == nil)
	got := r.SheetNames()
	vAssert("sheet-count", len(got) == 3 && len(r.sheets) == 3)
	for i, nm := range names {
		vAssert("workbook-order", got[i] == nm)
		c := r.sheets[i].Cell(0, 0)
		vAssert("own-part-text", c != nil && c.Value == "part"+string(rune('1'+p[i])))
	}
	vReach("end")
}

// H_C17_xlsx_package: a whole workbook, given as the texts of its parts and opened by the real xlsx.Open: every cell's
// displayed value at line r / field c of the tab-separated text and at [r][c] of the sheet grid, with a merged region
// showing its value at the top-left only.
//
//symgo:harness prop=C17 kernel=K4-xlsx-package noreplay=1
//symgo:redirect archive/zip.OpenReader vStubOpenZip
//symgo:desc zip layer cut (OpenReader returns a harness-built member list; member content model); parts: [Content_Types].xml, xl/workbook.xml (one sheet), relationships, xl/sharedStrings.xml, xl/styles.xml, one worksheet with cells at three of the addresses {A1, C1, B2, D3} (the omitted one enumerated), the first of kind shared string, number, boolean, error or inline string (enumerated) and the others of fixed different kinds, rows written in either order, and optionally a merged range B2:C3 or A1:B1 (enumerated) whose top-left holds one of the cells: Open succeeds; Sheet.Cell and line r / field c of Text() show each value at its address, every other field is empty, and the merged region's other cells are blank
func H_C17_xlsx_package() {
	refs := []string{"A1", "C1", "B2", "D3"}
	pos := [][2]int{{0, 0}, {0, 2}, {1, 1}, {2, 3}}
	var picked []int
	var cellsXML [4]string
	want := map[[2]int]string{}
	omit := vAnyIntIn(0, 3)
	k := 0
	for a := 0; a < 4; a++ {
		if a == omit {
			continue
		}
		picked = append(picked, a)
		tag := "v" + string(rune('0'+k))
		kind := (k + 1) % 5 // the first cell's kind is enumerated, the others take fixed different kinds
		if k == 0 {
			kind = vAnyIntIn(0, 4)
		}
		var cx, val string
		switch kind {
		case 0:
			cx, val = `<c r="`+refs[a]+`" t="s"><v>`+string(rune('0'+k%2))+`</v></c>`, []string{"shared0", "shared1"}[k%2]
		case 1:
			cx, val = `<c r="`+refs[a]+`"><v>4`+string(rune('0'+k))+`</v></c>`, "4"+string(rune('0'+k))
		case 2:
			cx, val = `<c r="`+refs[a]+`" t="b"><v>1</v></c>`, "TRUE"
		case 3:
			cx, val = `<c r="`+refs[a]+`" t="e"><v>#N/A</v></c>`, "#N/A"
		default:
			cx, val = `<c r="`+refs[a]+`" t="inlineStr"><is><t>`+tag+`</t></is></c>`, tag
		}
		cellsXML[a] = cx
		want[[2]int{pos[a][0], pos[a][1]}] = val
		k++
	}
	rowsXML := []string{`<row r="1">` + cellsXML[0] + cellsXML[1] + `</row>`, `<row r="2">` + cellsXML[2] + `</row>`, `<row r="3">` + cellsXML[3] + `</row>`}
	sheetData := rowsXML[0] + rowsXML[1] + rowsXML[2]
	if vAnyIntIn(0, 1) == 1 {
		sheetData = rowsXML[2] + rowsXML[0] + rowsXML[1]
	}
	merge := ""
	var blank [][2]int
	switch vAnyIntIn(0, 2) {
	case 1:
		merge, blank = `<mergeCells count="1"><mergeCell ref="B2:C3"/></mergeCells>`, [][2]int{{1, 2}, {2, 1}, {2, 2}}
	case 2:
		merge, blank = `<mergeCells count="1"><mergeCell ref="A1:B1"/></mergeCells>`, [][2]int{{0, 1}}
	}
	ws := `<?xml version="1.0" encoding="UTF-8"?><worksheet ` + vNS + `><dimension ref="A1:D3"/><sheetData>` + sheetData + `</sheetData>` + merge + `</worksheet>`
	vZip = &zip.ReadCloser{}
	vMember("[Content_Types].xml", `<?xml version="1.0"?><Types xmlns="http://schemas.openxmlformats.org/package/2006/content-types"/>`)
	vMember("xl/worksheets/sheet1.xml", ws)
	vMember("xl/styles.xml", `<?xml version="1.0"?><styleSheet `+vNS+`><cellXfs count="1"><xf numFmtId="0"/></cellXfs></styleSheet>`)
	vMember("xl/sharedStrings.xml", `<?xml version="1.0"?><sst `+vNS+` count="2" uniqueCount="2"><si><t>shared0</t></si><si><r><t>shar</t></r><r><t>ed1</t></r></si></sst>`)
	vMember("xl/_rels/workbook.xml.rels", `<?xml version="1.0"?><Relationships xmlns="http://schemas.openxmlformats.org/package/2006/relationships"><Relationship Id="rId1" Type="http://schemas.openxmlformats.org/officeDocument/2006/relationships/worksheet" Target="worksheets/sheet1.xml"/></Relationships>`)
	vMember("xl/workbook.xml", `<?xml version="1.0"?><workbook `+vNS+` xmlns:r="http://schemas.openxmlformats.org/officeDocument/2006/relationships"><sheets><sheet name="Data" sheetId="1" r:id="rId1"/></sheets></workbook>`)
	r, err := Open("any.xlsx")
	vAssert("opens", err == nil && r != nil)
	vAssert("one-sheet", len(r.sheets) == 1)
	sheet := r.sheets[0]
	txt, terr := r.Text()
	vAssert("text-no-error", terr == nil)
	lines := strings.Split(txt, "\n")
	for ri := 0; ri < len(sheet.Rows); ri++ {
		var fields []string
		if ri < len(lines) {
			fields = strings.Split(lines[ri], "\t")
		}
		for ci := 0; ci < len(sheet.Rows[ri]); ci++ {
			exp := want[[2]int{ri, ci}]
			for _, b := range blank {
				if b[0] == ri && b[1] == ci {
					exp = ""
				}
			}
			vAssert("grid-value-at-address", sheet.Rows[ri][ci].Value == exp || (exp == "" && sheet.Rows[ri][ci].IsMerged))
			got := ""
			if ci < len(fields) {
				got = fields[ci]
			}
			vAssert("text-line-r-field-c", got == exp)
		}
	}
	for p := range want {
		vAssert("address-inside-grid", p[0] < len(sheet.Rows) && p[1] < len(sheet.Rows[p[0]]))
	}
	vReach("end")
}

// H_C17_xlsx_awkward_cells: values and references that a placement-by-reference reader gets wrong when it takes short
// cuts: a line break or a tab inside a value, values stored in the covered cells of a merged region, and cells that
// leave out their (optional) r attribute and sit right after their predecessor.
//
//symgo:harness prop=C17 kernel=K5-xlsx-awkward-cells noreplay=1
//symgo:redirect archive/zip.OpenReader vStubOpenZip
//symgo:desc zip layer cut (member content model); 2x3 sheet A1..C2; A1 is the inline string "x<LF>y", "p<TAB>q" or "plain" (enumerated); the other cells are the numbers 2..6; optionally (enumerated) the region A1:B2 is merged while B1, A2 and B2 still carry their values; optionally (enumerated) the second cell of each row leaves out its r attribute: the grid, line r / field c of Text(), the model table of Tables() and the pipe table of Markdown() all show each value at its address - a value's line break or tab rendered as a blank so that it stays one field - and covered cells of the merged region blank
func H_C17_xlsx_awkward_cells() {
	a1 := []string{"x\ny", "p\tq", "plain"}[vAnyIntIn(0, 2)]
	merged := vAnyIntIn(0, 1) == 1
	implicit := vAnyIntIn(0, 1) == 1
	ref := func(r string) string {
		if implicit {
			return ""
		}
		return ` r="` + r + `"`
	}
	ws := `<?xml version="1.0"?><worksheet ` + vNS + `><sheetData>` +
		`<row r="1"><c r="A1" t="inlineStr"><is><t xml:space="preserve">` + a1 + `</t></is></c><c` + ref("B1") + `><v>2</v></c><c r="C1"><v>3</v></c></row>` +
		`<row r="2"><c r="A2"><v>4</v></c><c` + ref("B2") + `><v>5</v></c><c r="C2"><v>6</v></c></row></sheetData>`
	if merged {
		ws += `<mergeCells count="1"><mergeCell ref="A1:B2"/></mergeCells>`
	}
	ws += `</worksheet>`
	flat := strings.NewReplacer("\n", " ", "\t", " ").Replace(a1)
	want := [2][3]string{{flat, "2", "3"}, {"4", "5", "6"}}
	if merged {
		want[0][1], want[1][0], want[1][1] = "", "", ""
	}
	vZip = &zip.ReadCloser{}
	vMember("[Content_Types].xml", `<?xml version="1.0"?><Types xmlns="http://schemas.openxmlformats.org/package/2006/content-types"/>`)
	vMember("xl/worksheets/sheet1.xml", ws)
	vMember("xl/_rels/workbook.xml.rels", `<?xml version="1.0"?><Relationships xmlns="http://schemas.openxmlformats.org/package/2006/relationships"><Relationship Id="rId1" Type="http://schemas.openxmlformats.org/officeDocument/2006/relationships/worksheet" Target="worksheets/sheet1.xml"/></Relationships>`)
	vMember("xl/workbook.xml", `<?xml version="1.0"?><workbook `+vNS+` xmlns:r="http://schemas.openxmlformats.org/officeDocument/2006/relationships"><sheets><sheet name="Data" sheetId="1" r:id="rId1"/></sheets></workbook>`)
	r, err := Open("any.xlsx")
	vAssert("opens", err == nil && r != nil && len(r.sheets) == 1)
	sheet := r.sheets[0]
	vAssert("grid-is-2x3", len(sheet.Rows) == 2 && len(sheet.Rows[0]) == 3 && len(sheet.Rows[1]) == 3)
	txt, terr := r.Text()
	vAssert("text-no-error", terr == nil)
	lines := strings.Split(txt, "\n")
	vAssert("one-text-line-per-row", len(lines) == 2)
	tables := r.Tables()
	vAssert("one-table", len(tables) == 1 && len(tables[0].Headers) == 3 && len(tables[0].Rows) == 1 && len(tables[0].Rows[0]) == 3)
	md, merr := r.Markdown()
	vAssert("markdown-no-error", merr == nil)
	var mdRows [][]string
	for _, ln := range strings.Split(md, "\n") {
		ln = strings.TrimSpace(ln)
		if !strings.HasPrefix(ln, "|") || strings.HasPrefix(ln, "|--") || strings.HasPrefix(ln, "| --") || strings.HasPrefix(ln, "|:") {
			continue
		}
		cells := strings.Split(strings.Trim(ln, "|"), "|")
		for i := range cells {
			cells[i] = strings.TrimSpace(cells[i])
		}
		mdRows = append(mdRows, cells)
	}
	vAssert("markdown-table-has-two-rows", len(mdRows) == 2)
	for ri := 0; ri < 2; ri++ {
		fields := strings.Split(lines[ri], "\t")
		vAssert("one-text-field-per-column", len(fields) == 3)
		for ci := 0; ci < 3; ci++ {
			exp := want[ri][ci]
			cell := sheet.Rows[ri][ci]
			gridVal := strings.NewReplacer("\n", " ", "\t", " ").Replace(cell.Value)
			vAssert("grid-value-at-address", gridVal == exp || (exp == "" && cell.IsMerged && !cell.IsMergeRoot))
			vAssert("text-line-r-field-c", ci < len(fields) && fields[ci] == exp)
			tv := ""
			if ri == 0 {
				tv = tables[0].Headers[ci]
			} else {
				tv = tables[0].Rows[0][ci]
			}
			vAssert("model-table-cell", strings.NewReplacer("\n", " ", "\t", " ").Replace(tv) == exp)
			vAssert("markdown-cell", len(mdRows) == 2 && ci < len(mdRows[ri]) && strings.ReplaceAll(mdRows[ri][ci], "\t", " ") == exp) // a tab inside a pipe-table cell is harmless
		}
	}
	vReach("end")
}
