//go:build verif_harness

package contentstream

// H_C02_contentstream_any_bytes: the content-stream parser returns a value or an error for every byte string;
// it never panics, never recurses without bound and never loops forever.
//
//symgo:harness prop=C02 kernel=contentstream.Parse hang=1 loop=64 depth=48
//symgo:desc all byte strings of length 0..5 quick / 0..7 thorough (every byte symbolic); implicit conditions: index/slice bounds, nil dereference, division by zero, type assertion, explicit panic, loop bound 64 iterations and call depth 48 (unwinding assertions; candidates are replayed natively under a time limit)
func H_C02_contentstream_any_bytes() {
	maxN := 5
	if vTier() > 0 {
		maxN = 7
	}
	n := vAnyIntIn(0, maxN)
	b := vAnyBytes(n)
	ops, err := NewParser(b).Parse()
	_ = ops
	_ = err
	vReach("end")
}
