//go:build verif_harness

package contentstream

import "bytes"

// H_C02_contentstream_any_bytes: the content-stream parser returns a value or an error for every byte string;
// it never panics, never recurses without bound and never loops forever.
//
//symgo:harness prop=C02 kernel=contentstream.Parse hang=1 loop=64 depth=48
//symgo:desc all byte strings of length 0..5 quick / 0..7 thorough (every byte symbolic); implicit conditions: index/slice bounds, nil dereference, division by zero, type assertion, explicit panic, loop bound 64 iterations and call depth 48 (unwinding assertions; candidates are replayed natively under a time limit)
func H_C02_contentstream_any_bytes() {
	maxN := 5
	if vTier() > 0 {
		maxN = 7
	}
	n := vAnyIntIn(0, maxN)
	b := vAnyBytes(n)
	ops, err := NewParser(b).Parse()
	_ = ops
	_ = err
	vReach("end")
}

// H_C02_contentstream_nesting_is_bounded: the parser's recursion does not grow with the nesting an input asks for.
//
//symgo:harness prop=C02 kernel=contentstream.Parse-nesting hang=1 depth=1500 loop=100000 steps=200000000
//symgo:desc content stream made of k opening brackets - "[" or "<<" or "[<<" alternating (enumerated) - with k = 2000 in the engine: the call depth stays below 1500 (an implementation that recurses once per level needs 4000 frames); the candidate is replayed natively with k = 30 million, where unbounded recursion exhausts the Go stack
func H_C02_contentstream_nesting_is_bounded() {
	k := 2000
	if !vIsSymbolic() {
		k = 30000000
	}
	unit := []string{"[", "<<", "[<<"}[vAnyIntIn(0, 2)]
	data := bytes.Repeat([]byte(unit), k)
	_, _ = NewParser(data).Parse()
	vReach("end")
}
