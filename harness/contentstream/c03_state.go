//go:build verif_harness

package contentstream

import "github.com/tsawler/tabula/core"

func vEqObj(a, b core.Object) bool {
	switch x := a.(type) {
	case nil:
		return b == nil
	case core.Int:
		y, ok := b.(core.Int)
		return ok && x == y
	case core.Real:
		y, ok := b.(core.Real)
		return ok && x == y
	case core.Bool:
		y, ok := b.(core.Bool)
		return ok && x == y
	case core.Null:
		_, ok := b.(core.Null)
		return ok
	case core.String:
		y, ok := b.(core.String)
		return ok && x == y
	case core.Name:
		y, ok := b.(core.Name)
		return ok && x == y
	case core.IndirectRef:
		y, ok := b.(core.IndirectRef)
		return ok && x == y
	case core.Array:
		y, ok := b.(core.Array)
		if !ok || len(x) != len(y) {
			return false
		}
		for i := range x {
			if !vEqObj(x[i], y[i]) {
				return false
			}
		}
		return true
	case core.Dict:
		y, ok := b.(core.Dict)
		if !ok || len(x) != len(y) {
			return false
		}
		for k, v := range x {
			w, in := y[k]
			if !in || !vEqObj(v, w) {
				return false
			}
		}
		return true
	}
	return false
}

func vEqOps(a, b []Operation) bool {
	if len(a) != len(b) {
		return false
	}
	for i := range a {
		if a[i].Operator != b[i].Operator || len(a[i].Operands) != len(b[i].Operands) {
			return false
		}
		for j := range a[i].Operands {
			if !vEqObj(a[i].Operands[j], b[i].Operands[j]) {
				return false
			}
		}
	}
	return true
}

// H_C03_parse_no_shared_state: parsing writes no memory that existed before the call (package-level
// variables and everything reachable from them), so two parses on different goroutines share only
// read-only data - for every input.
//
//symgo:harness prop=C03 kernel=F1-no-shared-writes globwrite=1 noreplay=1
//symgo:desc all byte strings of length 0..3 quick / 0..4 thorough: no store, append-in-place or map update through pre-existing memory on any path of contentstream.Parse
func H_C03_parse_no_shared_state() {
	maxN := 3
	if vTier() > 0 {
		maxN = 4
	}
	b := vAnyBytes(vAnyIntIn(0, maxN))
	_, _ = NewParser(b).Parse()
	vReach("end")
}

// H_C03_parse_after_any_parse: the result of parsing B does not depend on an earlier parse of A,
// including A that ends in the middle of an operand list or fails.
//
//symgo:harness prop=C03 kernel=F2-sequential-interference
//symgo:desc A and B arbitrary byte strings of length 0..2 quick / 0..3 thorough each: Parse(B) before Parse(A) and Parse(B) after Parse(A) return the same operations and the same error status
func H_C03_parse_after_any_parse() {
	maxN := 2
	if vTier() > 0 {
		maxN = 3
	}
	a := vAnyBytes(vAnyIntIn(0, maxN))
	b := vAnyBytes(vAnyIntIn(0, maxN))
	r0, e0 := NewParser(b).Parse()
	_, _ = NewParser(a).Parse()
	r1, e1 := NewParser(b).Parse()
	vAssert("same-error-status", (e0 == nil) == (e1 == nil))
	if e0 == nil && e1 == nil {
		vAssert("same-operations", vEqOps(r0, r1))
	}
	vReach("end")
}
