//go:build verif_harness

package contentstream

import (
	"bytes"
	"io"

	"github.com/tsawler/tabula/core"
)

// H_C06_same_value_in_both_parsers: every byte string that both parsers accept as exactly one object denotes the same value in both.
//
//symgo:harness prop=C06 kernel=K1-differential
//symgo:desc all byte strings b of length 1..3 quick / 1..4 thorough: if core.ParseObject(b+" ") yields one object and reaches end of input, and contentstream.Parse(b+" q") yields exactly the operator q with one operand, the two values are structurally equal (reals compared as exact decimal rationals through the restricted ParseFloat model)
func H_C06_same_value_in_both_parsers() {
	maxN := 3
	if vTier() > 0 {
		maxN = 4
	}
	n := vAnyIntIn(1, maxN)
	b := vAnyBytes(n)
	p1 := core.NewParser(bytes.NewReader(append(append([]byte{}, b...), ' ')))
	o1, err1 := p1.ParseObject()
	ops, err2 := NewParser(append(append([]byte{}, b...), ' ', 'q')).Parse()
	if err1 == nil && err2 == nil && len(ops) == 1 && ops[0].Operator == "q" && len(ops[0].Operands) == 1 {
		_, errEnd := p1.ParseObject()
		if errEnd == io.EOF {
			vAssert("same-value", vEqObj(o1, ops[0].Operands[0]))
		}
	}
	vReach("end")
}

// ---- reference writer

var vSep []byte

var vLeafRich bool // single-leaf shapes also draw odd-length hex strings and indirect references

var vLeafIsRef bool // the tree just written contains an indirect reference (content streams have none)

func vEmitSep(out []byte) []byte { return append(out, vSep...) }

// vLeaf renders one leaf object with symbolic content and spelling and returns the expected value.
func vLeaf(out []byte) ([]byte, core.Object) {
	kinds := 7
	if !vLeafRich {
		kinds = 6 // two-leaf shapes: no indirect reference leaf (keeps the product of leaf kinds in reach)
	}
	switch vAnyIntIn(0, kinds) {
	case 0: // integer: optional sign, 1..3 symbolic digits
		neg := vAnyIntIn(0, 1) == 1
		if neg {
			out = append(out, '-')
		}
		v := int64(0)
		for i, nd := 0, vAnyIntIn(1, 3); i < nd; i++ {
			d := vAnyByte()
			vAssume(d >= '0' && d <= '9')
			out = append(out, d)
			v = v*10 + int64(d-'0')
		}
		if neg {
			v = -v
		}
		return out, core.Int(v)
	case 1: // literal string: 0..2 symbolic bytes, each raw, as a named escape, or as a 3-digit octal escape
		out = append(out, '(')
		var val []byte
		for i, nb := 0, vAnyIntIn(0, 2); i < nb; i++ {
			c := vAnyByte()
			switch vAnyIntIn(0, 2) {
			case 0:
				vAssume(c != '(' && c != ')' && c != '\\' && c != '\r')
				out = append(out, c)
			case 1:
				out = append(out, '\\', '0'+(c>>6), '0'+((c>>3)&7), '0'+(c&7))
			default:
				esc := vAnyByteOf("nrtbf()\\")
				out = append(out, '\\', esc)
				switch esc {
				case 'n':
					c = '\n'
				case 'r':
					c = '\r'
				case 't':
					c = '\t'
				case 'b':
					c = '\b'
				case 'f':
					c = '\f'
				default:
					c = esc
				}
			}
			val = append(val, c)
		}
		out = append(out, ')')
		return out, core.String(val)
	case 2: // hex string: 1..2 symbolic bytes, digit case symbolic
		out = append(out, '<')
		var val []byte
		odd := vLeafRich && vAnyIntIn(0, 1) == 1 // an odd number of digits is legal: the missing last digit is 0
		for i, nb := 0, vAnyIntIn(1, 2); i < nb; i++ {
			c := vAnyByte()
			last := odd && i == nb-1
			if last {
				vAssume(c&15 == 0)
			}
			for k, nib := range []byte{c >> 4, c & 15} {
				if last && k == 1 {
					break
				}
				d := vAnyByte()
				vAssume(vHexVal(d) == nib)
				out = append(out, d)
			}
			val = append(val, c)
		}
		out = append(out, '>')
		return out, core.String(val)
	case 3: // name: 1..2 symbolic bytes, raw when regular, else #xx
		out = append(out, '/')
		var val []byte
		for i, nb := 0, vAnyIntIn(1, 2); i < nb; i++ {
			c := vAnyByte()
			vAssume(c != 0)
			if vAnyIntIn(0, 1) == 0 {
				vAssume(c > ' ' && c < 127 && c != '#' && c != '(' && c != ')' && c != '<' && c != '>' && c != '[' && c != ']' && c != '{' && c != '}' && c != '/' && c != '%')
				out = append(out, c)
			} else {
				out = append(out, '#', "0123456789ABCDEF"[c>>4], "0123456789abcdef"[c&15])
			}
			val = append(val, c)
		}
		return out, core.Name(val)
	case 7: // indirect reference "n g R" with the document's separator between its three tokens (document level only)
		vLeafIsRef = true
		n, g := vAnyByte(), vAnyByte()
		vAssume(n >= '1' && n <= '9' && g >= '0' && g <= '9')
		out = vEmitSep(append(out, n))
		out = vEmitSep(append(out, g))
		return append(out, 'R'), core.IndirectRef{Number: int(n - '0'), Generation: int(g - '0')}
	case 4:
		return append(out, "true"...), core.Bool(true)
	case 5:
		return append(out, "false"...), core.Bool(false)
	default:
		return append(out, "null"...), core.Null{}
	}
}

func vHexVal(c byte) byte {
	if c >= '0' && c <= '9' {
		return c - '0'
	}
	if c >= 'a' && c <= 'f' {
		return c - 'a' + 10
	}
	if c >= 'A' && c <= 'F' {
		return c - 'A' + 10
	}
	return 255
}

// vTree renders a tree of the given shape: 0 leaf, 1 [leaf leaf], 2 <</K leaf>>, 3 [[leaf] leaf]
func vTree(out []byte, shape int) ([]byte, core.Object) {
	vLeafRich = shape == 0 || shape == 2
	switch shape {
	case 0:
		return vLeaf(out)
	case 1:
		out = vEmitSep(append(out, '['))
		var a, b core.Object
		out, a = vLeaf(out)
		out = vEmitSep(out)
		out, b = vLeaf(out)
		out = append(vEmitSep(out), ']')
		return out, core.Array{a, b}
	case 2:
		out = vEmitSep(append(out, '<', '<'))
		out = vEmitSep(append(out, '/', 'K'))
		var v core.Object
		out, v = vLeaf(out)
		out = append(vEmitSep(out), '>', '>')
		return out, core.Dict{"K": v}
	default:
		out = vEmitSep(append(out, '[', '['))
		var a, b core.Object
		out, a = vLeaf(out)
		out = vEmitSep(append(vEmitSep(out), ']'))
		out, b = vLeaf(out)
		out = append(vEmitSep(out), ']')
		return out, core.Array{core.Array{a}, b}
	}
}

// H_C06_write_parse_roundtrip: an object tree written under any legal spelling parses back to the same tree in both parsers.
//
//symgo:harness prop=C06 kernel=K2-roundtrip
//symgo:desc tree shapes {leaf, [leaf leaf], <</K leaf>>, [[leaf] leaf]} (quick: leaf and <</K leaf>>); leaves: integer (sign, 1..3 symbolic digits), literal string (0..2 symbolic bytes spelled raw / octal / named escape), hex string (1..2 bytes, symbolic digit case, even or - in the single-leaf shapes - odd number of digits), indirect reference n g R with the separator between its tokens (single-leaf shapes, document-level parser only), name (1..2 symbolic bytes raw or #xx), true, false, null; token separator chosen once per document from {space, LF, CRLF, comment ended by LF, comment ended by CR, TAB+space, bare CR} (quick: first five; delimiters always separated); both core.ParseObject and contentstream.Parse (as the single operand of q) must return the tree
func H_C06_write_parse_roundtrip() {
	nshapes, nseps := 1, 4
	if vTier() > 0 {
		nshapes, nseps = 3, 6
	}
	switch vAnyIntIn(0, nseps) {
	case 0:
		vSep = []byte(" ")
	case 1:
		vSep = []byte("\n")
	case 2:
		vSep = []byte("\r\n")
	case 3:
		vSep = []byte(" %c\n") // comment ended by LF
	case 4:
		vSep = []byte(" %c\r") // comment ended by a bare CR
	case 5:
		vSep = []byte("\t ")
	default:
		vSep = []byte("\r")
	}
	shape := vAnyIntIn(0, nshapes)
	if vTier() == 0 && shape == 1 {
		shape = 2 // quick: leaf and <</K leaf>>; arrays of two leaves are thorough-only
	}
	vLeafIsRef = false
	doc, want := vTree(nil, shape)
	o1, err1 := core.NewParser(bytes.NewReader(append(append([]byte{}, doc...), ' '))).ParseObject()
	vAssert("document-parser-accepts", err1 == nil)
	vAssert("document-parser-same-tree", vEqObj(o1, want))
	if vLeafIsRef {
		vReach("end")
		return
	}
	ops, err2 := NewParser(append(append([]byte{}, doc...), ' ', 'q')).Parse()
	vAssert("content-parser-accepts", err2 == nil)
	vAssert("content-parser-one-operation", len(ops) == 1 && ops[0].Operator == "q" && len(ops[0].Operands) == 1)
	vAssert("content-parser-same-tree", vEqObj(ops[0].Operands[0], want))
	vReach("end")
}

// H_C06_operator_grouping: operator/operand grouping of a content stream is preserved.
//
//symgo:harness prop=C06 kernel=K3-grouping
//symgo:desc 1..2 quick / 1..3 thorough operators from {q, BT, Tj, TJ, ', ", T*, cm, Tf, Td, d0, d1} with their operands (symbolic one-digit integers, one-byte literal strings, a name) separated by a symbolic whitespace byte: Parse returns exactly these operators in order, each with exactly its operands
func H_C06_operator_grouping() {
	maxOps := 2
	if vTier() > 0 {
		maxOps = 3
	}
	n := vAnyIntIn(1, maxOps)
	var doc []byte
	type exp struct {
		op   string
		args []core.Object
	}
	var want []exp
	num := func() core.Object {
		d := vAnyByte()
		vAssume(d >= '0' && d <= '9')
		doc = append(doc, d, vAnyByteOf(" \n\t\r"))
		return core.Int(int64(d - '0'))
	}
	str := func() core.Object {
		c := vAnyByte()
		vAssume(c != '(' && c != ')' && c != '\\' && c != '\r')
		doc = append(doc, '(', c, ')', vAnyByteOf(" \n"))
		return core.String([]byte{c})
	}
	for i := 0; i < n; i++ {
		var e exp
		switch vAnyIntIn(0, 11) {
		case 0:
			e.op = "q"
		case 1:
			e.op = "BT"
		case 2:
			e.op, e.args = "Tj", []core.Object{str()}
		case 3:
			doc = append(doc, '[')
			a := str()
			b := num()
			doc = append(doc, ']', ' ')
			e.op, e.args = "TJ", []core.Object{core.Array{a, b}}
		case 4:
			e.op, e.args = "'", []core.Object{str()}
		case 5:
			a, b := num(), num()
			e.op, e.args = "\"", []core.Object{a, b, str()}
		case 6:
			e.op = "T*"
		case 7:
			e.op = "cm"
			for k := 0; k < 6; k++ {
				e.args = append(e.args, num())
			}
		case 8:
			doc = append(doc, "/F1 "...)
			e.op, e.args = "Tf", []core.Object{core.Name("F1"), num()}
		case 10:
			a, b := num(), num()
			e.op, e.args = "d0", []core.Object{a, b}
		case 11:
			e.op = "d1"
			for k := 0; k < 6; k++ {
				e.args = append(e.args, num())
			}
		default:
			a, b := num(), num()
			e.op, e.args = "Td", []core.Object{a, b}
		}
		doc = append(doc, e.op...)
		doc = append(doc, vAnyByteOf(" \n"))
		want = append(want, e)
	}
	ops, err := NewParser(doc).Parse()
	vAssert("no-error", err == nil)
	vAssert("operator-count", len(ops) == len(want))
	for i := range want {
		vAssert("operator", ops[i].Operator == want[i].op)
		vAssert("operand-count", len(ops[i].Operands) == len(want[i].args))
		for j := range want[i].args {
			vAssert("operand", vEqObj(ops[i].Operands[j], want[i].args[j]))
		}
	}
	vReach("end")
}

// H_C06_adjacent_strings: several string tokens in a row - the shape of a trailer's /ID pair or of a TJ array - each keep
// their own value in both parsers (a token's bytes must not be overwritten by the tokens read ahead of it).
//
//symgo:harness prop=C06 kernel=K2b-adjacent-strings
//symgo:desc an array of 2..3 string tokens chosen from {<4142>, <43>, <00FF10>, (lit), (a\)b)} (enumerated, repetitions allowed), separated by nothing, a space or a newline (enumerated), bare or as the value of /ID in a dictionary that also holds /N 1 (enumerated): core.ParseObject and contentstream.Parse (as operand of q) both return the strings with exactly their own bytes, in order
func H_C06_adjacent_strings() {
	toks := []string{"<4142>", "<43>", "<00FF10>", "(lit)", "(a\\)b)"}
	vals := []string{"AB", "C", "\x00\xff\x10", "lit", "a)b"}
	sep := []string{"", " ", "\n"}[vAnyIntIn(0, 2)]
	n := vAnyIntIn(2, 3)
	src := "["
	var want core.Array
	for i := 0; i < n; i++ {
		k := vAnyIntIn(0, len(toks)-1)
		if i > 0 {
			src += sep
		}
		src += toks[k]
		want = append(want, core.String(vals[k]))
	}
	src += "]"
	var wantObj core.Object = want
	if vAnyIntIn(0, 1) == 1 {
		src = "<</ID" + src + "/N 1>>"
		wantObj = core.Dict{"ID": want, "N": core.Int(1)}
	}
	o1, err1 := core.NewParser(bytes.NewReader([]byte(src + " "))).ParseObject()
	vAssert("document-parser-accepts", err1 == nil)
	vAssert("document-parser-same-values", vEqObj(o1, wantObj))
	ops, err2 := NewParser([]byte(src + " q")).Parse()
	vAssert("content-parser-accepts", err2 == nil && len(ops) == 1 && len(ops[0].Operands) == 1)
	vAssert("content-parser-same-values", vEqObj(ops[0].Operands[0], wantObj))
	vReach("end")
}

// H_C06_inline_image_data_is_not_tokenised: the sample data of an inline image (between ID and EI) are raw bytes, not
// operands or operators; grouping before and after the image is preserved.
//
//symgo:harness prop=C06 kernel=K3b-inline-image
//symgo:desc content stream "q BI /W 2 /H 1 /BPC 8 /CS /G ID " + 2 fully symbolic data bytes + " EI (x) Tj Q": Parse succeeds and returns exactly q, BI, ID (with the eight dictionary operands /W 2 /H 1 /BPC 8 /CS /G), EI, Tj["x"], Q - whatever the data bytes are (parentheses, angle brackets, letters, non-ASCII; the two bytes "EI", which spell the terminator, excluded)
func H_C06_inline_image_data_is_not_tokenised() {
	d := vAnyBytes(2)
	vAssume(!(d[0] == 'E' && d[1] == 'I')) // data that spell the terminator themselves are inherently ambiguous
	doc := append([]byte("q BI /W 2 /H 1 /BPC 8 /CS /G ID "), d...)
	doc = append(doc, " EI (x) Tj Q"...)
	ops, err := NewParser(doc).Parse()
	vAssert("no-error", err == nil)
	want := []string{"q", "BI", "ID", "EI", "Tj", "Q"}
	vAssert("operator-count", len(ops) == len(want))
	for i := range want {
		vAssert("operator", i < len(ops) && ops[i].Operator == want[i])
	}
	vAssert("image-dictionary-operands", len(ops) == len(want) && len(ops[2].Operands) == 8 && vEqObj(ops[2].Operands[0], core.Name("W")) && vEqObj(ops[2].Operands[1], core.Int(2)))
	vAssert("text-after-image", len(ops) == len(want) && len(ops[4].Operands) == 1 && vEqObj(ops[4].Operands[0], core.String("x")))
	vReach("end")
}
