//go:build verif_harness

package filters

// Reference PNG filter (encoder) written from the PNG specification, section 9.
func refPaeth(a, b, c byte) byte {
	p := int(a) + int(b) - int(c)
	pa, pb, pc := p-int(a), p-int(b), p-int(c)
	if pa < 0 {
		pa = -pa
	}
	if pb < 0 {
		pb = -pb
	}
	if pc < 0 {
		pc = -pc
	}
	if pa <= pb && pa <= pc {
		return a
	}
	if pb <= pc {
		return b
	}
	return c
}

// refPNGFilterRow encodes row r of raw (rowLen bytes per row, bpp bytes per pixel) with filter type ft.
func refPNGFilterRow(ft byte, raw []byte, r, rowLen, bpp int) []byte {
	out := make([]byte, rowLen)
	for i := 0; i < rowLen; i++ {
		x := raw[r*rowLen+i]
		var a, b, c byte
		if i >= bpp {
			a = raw[r*rowLen+i-bpp]
		}
		if r > 0 {
			b = raw[(r-1)*rowLen+i]
			if i >= bpp {
				c = raw[(r-1)*rowLen+i-bpp]
			}
		}
		switch ft {
		case 0:
			out[i] = x
		case 1:
			out[i] = x - a
		case 2:
			out[i] = x - b
		case 3:
			out[i] = x - byte((int(a)+int(b))/2)
		default:
			out[i] = x - refPaeth(a, b, c)
		}
	}
	return out
}

// vAssertBytesEq asserts equality byte by byte (each proven byte becomes a lemma for the next).
func vAssertBytesEq(label string, a, b []byte) {
	vAssert(label+"-len", len(a) == len(b))
	for i := range a {
		vAssert(label, a[i] == b[i])
	}
}

// H_C05_png_roundtrip: decode(encode(x)) == x for every pixel buffer and every per-row
// PNG filter choice, for each Predictor value 10..15.
//
//symgo:harness prop=C05 kernel=K1-png
//symgo:desc quick: Colors 1..3, Columns 1..3, rows 1..2; thorough: Colors 1..4, Columns 1..5, rows 1..3; every data byte and every per-row filter type (0..4) symbolic; Predictor 12 (dispatch over all Predictor values: H_C05_predictor_dispatch)
func H_C05_png_roundtrip() {
	maxC, maxCol, maxR := 3, 3, 2
	if vTier() > 0 {
		maxC, maxCol, maxR = 4, 5, 3
	}
	colors, cols, rows := vAnyIntIn(1, maxC), vAnyIntIn(1, maxCol), vAnyIntIn(1, maxR)
	pred := 12 // the value only selects the PNG family; dispatch over all values is H_C05_predictor_dispatch
	rowLen := cols * colors
	raw := vAnyBytes(rows * rowLen)
	enc := make([]byte, 0, rows*(rowLen+1))
	for r := 0; r < rows; r++ {
		ft := vAnyByte()
		vAssume(ft <= 4)
		enc = append(enc, ft)
		enc = append(enc, refPNGFilterRow(ft, raw, r, rowLen, colors)...)
	}
	got, err := applyPredictor(enc, pred, Params{"Columns": cols, "Colors": colors, "BitsPerComponent": 8})
	vAssert("no-error", err == nil)
	vAssertBytesEq("roundtrip", got, raw)
	vReach("end")
}

// H_C05_tiff_roundtrip: TIFF predictor 2, reference encoder "subtract the sample Colors to the left".
//
//symgo:harness prop=C05 kernel=K1-tiff
//symgo:desc quick: Colors 1..4, Columns 1..4, rows 1..2; thorough: Colors 1..4, Columns 1..8, rows 1..3; all data bytes symbolic
func H_C05_tiff_roundtrip() {
	maxCol, maxR := 4, 2
	if vTier() > 0 {
		maxCol, maxR = 8, 3
	}
	colors, cols, rows := vAnyIntIn(1, 4), vAnyIntIn(1, maxCol), vAnyIntIn(1, maxR)
	rowLen := cols * colors
	raw := vAnyBytes(rows * rowLen)
	enc := make([]byte, len(raw))
	for r := 0; r < rows; r++ {
		for i := 0; i < rowLen; i++ {
			x := raw[r*rowLen+i]
			if i >= colors {
				x -= raw[r*rowLen+i-colors]
			}
			enc[r*rowLen+i] = x
		}
	}
	got, err := applyPredictor(enc, 2, Params{"Columns": cols, "Colors": colors, "BitsPerComponent": 8})
	vAssert("no-error", err == nil)
	vAssertBytesEq("roundtrip", got, raw)
	vReach("end")
}

// H_C05_predictor_dispatch: every integer Predictor value selects the right family.
//
//symgo:harness prop=C05 kernel=K1-dispatch
//symgo:desc Predictor = any 64-bit integer; 1x1..2x1 geometry, data bytes symbolic: 1 = identity, 2 = TIFF, 10..15 = PNG (row filter byte honoured), anything else = error
func H_C05_predictor_dispatch() {
	pred := vAnyInt()
	cols := vAnyIntIn(1, 2)
	ft := vAnyByte()
	vAssume(ft <= 4)
	raw := vAnyBytes(cols)
	png := append([]byte{ft}, refPNGFilterRow(ft, raw, 0, cols, 1)...)
	tiff := make([]byte, cols)
	for i := range raw {
		tiff[i] = raw[i]
		if i >= 1 {
			tiff[i] -= raw[i-1]
		}
	}
	params := Params{"Columns": cols, "Colors": 1, "BitsPerComponent": 8}
	switch {
	case pred == 1:
		got, err := applyPredictor(raw, pred, params)
		vAssert("identity-noerr", err == nil)
		vAssertBytesEq("identity", got, raw)
	case pred == 2:
		got, err := applyPredictor(tiff, pred, params)
		vAssert("tiff-noerr", err == nil)
		vAssertBytesEq("tiff", got, raw)
	case pred >= 10 && pred <= 15:
		got, err := applyPredictor(png, pred, params)
		vAssert("png-noerr", err == nil)
		vAssertBytesEq("png", got, raw)
	default:
		_, err := applyPredictor(raw, pred, params)
		vAssert("unsupported-predictor-is-error", err != nil)
	}
	vReach("end")
}
