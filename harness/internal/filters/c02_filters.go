//go:build verif_harness

package filters

// H_C02_ascii_any_bytes: both ASCII decoders return a value or an error for every byte string.
//
//symgo:harness prop=C02 kernel=filters.ASCIIHexDecode+ASCII85Decode hang=1 loop=128
//symgo:desc all byte strings of length 0..4 quick / 0..6 thorough through ASCIIHexDecode and ASCII85Decode
func H_C02_ascii_any_bytes() {
	maxN := 4
	if vTier() > 0 {
		maxN = 6
	}
	n := vAnyIntIn(0, maxN)
	b := vAnyBytes(n)
	if vAnyIntIn(0, 1) == 0 {
		_, _ = ASCIIHexDecode(b)
	} else {
		_, _ = ASCII85Decode(b)
	}
	vReach("end")
}

// H_C02_predictor_params: attacker-controlled predictor parameters never crash the predictor stage.
//
//symgo:harness prop=C02 kernel=filters.applyPredictor hang=1 loop=4096 alloc=65536
//symgo:desc Predictor in {2, 10..15} (enumerated); one of Columns / Colors is a full 64-bit symbolic integer while the other ranges over [-2,4] (enumerated) - a product of two full-width symbolic integers is not attempted; BitsPerComponent 8 or symbolic; data = 0..3 symbolic bytes (thorough 0..6); allocation budget 64 KiB
func H_C02_predictor_params() {
	maxD := 3
	if vTier() > 0 {
		maxD = 6
	}
	pred := 2
	if vAnyIntIn(0, 1) == 1 {
		pred = 10 + vAnyIntIn(0, 5)
	}
	var cols, colors int
	if vAnyIntIn(0, 1) == 0 {
		cols, colors = vAnyInt(), vAnyIntIn(-2, 4)
	} else {
		cols, colors = vAnyIntIn(-2, 4), vAnyInt()
	}
	bpc := 8
	if vAnyIntIn(0, 1) == 1 {
		bpc = vAnyInt()
	}
	data := vAnyBytes(vAnyIntIn(0, maxD))
	_, _ = applyPredictor(data, pred, Params{"Columns": cols, "Colors": colors, "BitsPerComponent": bpc})
	vReach("end")
}
