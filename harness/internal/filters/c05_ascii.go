//go:build verif_harness

package filters

// refHexVal: value of a hexadecimal digit per ISO 32000-1 7.4.2, or 255.
func refHexVal(c byte) byte {
	if c >= '0' && c <= '9' {
		return c - '0'
	}
	if c >= 'a' && c <= 'f' {
		return c - 'a' + 10
	}
	if c >= 'A' && c <= 'F' {
		return c - 'A' + 10
	}
	return 255
}

const pdfWS = " \t\r\n\f\x00"

// vInsertWS inserts k symbolic whitespace bytes at enumerated positions.
func vInsertWS(enc []byte, k int) []byte {
	for j := 0; j < k; j++ {
		pos := vAnyIntIn(0, len(enc))
		ws := vAnyByteOf(pdfWS)
		out := make([]byte, 0, len(enc)+1)
		out = append(out, enc[:pos]...)
		out = append(out, ws)
		out = append(out, enc[pos:]...)
		enc = out
	}
	return enc
}

// H_C05_hex_roundtrip: ASCIIHexDecode(enc(x)) == x for every x, every spelling of every digit
// (any byte whose hex value is the nibble: both letter cases), whitespace anywhere, optional EOD,
// and the odd-final-digit abbreviation.
//
//symgo:harness prop=C05 kernel=K2-hex
//symgo:desc quick: x of 0..3 symbolic bytes, 0..1 inserted whitespace byte (any of the six PDF whitespace bytes, any position); thorough: 0..5 bytes, 0..2 whitespace bytes; digit spelling symbolic (any byte with that hex value), '>' present/absent, final low digit omitted when it is 0 (enumerated)
func H_C05_hex_roundtrip() {
	maxN, maxWS := 3, 1
	if vTier() > 0 {
		maxN, maxWS = 5, 2
	}
	n := vAnyIntIn(0, maxN)
	x := vAnyBytes(n)
	enc := make([]byte, 0, 2*n+4)
	for i := 0; i < n; i++ {
		hi, lo := vAnyByte(), vAnyByte()
		vAssume(refHexVal(hi) == x[i]>>4)
		vAssume(refHexVal(lo) == x[i]&15)
		enc = append(enc, hi, lo)
	}
	eod := vAnyIntIn(0, 1)
	dropLast := vAnyIntIn(0, 1)
	if dropLast == 1 {
		// "if the filter encounters the EOD marker after reading an odd number of digits, it behaves as if a 0 followed the last digit"
		vAssume(n > 0 && eod == 1)
		vAssume(x[n-1]&15 == 0)
		enc = enc[:len(enc)-1]
	}
	if eod == 1 {
		enc = append(enc, '>')
	}
	enc = vInsertWS(enc, vAnyIntIn(0, maxWS))
	got, err := ASCIIHexDecode(enc)
	vAssert("no-error", err == nil)
	vAssertBytesEq("roundtrip", got, x)
	vReach("end")
}

// H_C05_hex_invalid: a byte that is neither a hex digit, whitespace nor EOD is undecodable.
//
//symgo:harness prop=C05 kernel=K2-hex-error
//symgo:desc 1..2 valid digit pairs then one symbolic byte that is not a hex digit / whitespace / '>' then one more digit: result must be an error
func H_C05_hex_invalid() {
	n := vAnyIntIn(0, 2)
	enc := make([]byte, 0, 8)
	for i := 0; i < 2*n; i++ {
		d := vAnyByte()
		vAssume(refHexVal(d) != 255)
		enc = append(enc, d)
	}
	bad := vAnyByte()
	vAssume(refHexVal(bad) == 255 && bad != '>' && bad != ' ' && bad != '\t' && bad != '\r' && bad != '\n' && bad != '\f' && bad != 0)
	enc = append(enc, bad, '0', '0')
	_, err := ASCIIHexDecode(enc)
	vAssert("invalid-digit-is-error", err != nil)
	vReach("end")
}

// ---- ASCII85

func pow85(k int) uint64 {
	r := uint64(1)
	for i := 0; i < k; i++ {
		r *= 85
	}
	return r
}

// H_C05_a85_full_groups: every 5-digit group whose value fits 32 bits decodes to the big-endian bytes of that value
// (digit tuples with value < 2^32 are in bijection with 4-byte groups, so this quantifies over all byte groups).
//
//symgo:harness prop=C05 kernel=K3-a85
//symgo:desc quick: 1 group, thorough: 1..2 groups; each of 5 symbolic digits '!'..'u' with 64-bit value <= 2^32-1; an all-zero group may be spelled 'z'; 0..1 whitespace byte inserted (thorough 0..2); EOD '~>' present/absent
func H_C05_a85_full_groups() {
	maxG, maxWS := 1, 1
	if vTier() > 0 {
		maxG, maxWS = 2, 2
	}
	g := vAnyIntIn(1, maxG)
	var enc, want []byte
	for k := 0; k < g; k++ {
		var v uint64
		var ds [5]byte
		for i := 0; i < 5; i++ {
			d := vAnyByte()
			vAssume(d <= 84)
			ds[i] = d
			v = v*85 + uint64(d)
		}
		vAssume(v <= 0xFFFFFFFF)
		want = append(want, byte(v>>24), byte(v>>16), byte(v>>8), byte(v))
		if vAnyIntIn(0, 1) == 1 {
			vAssume(v == 0)
			enc = append(enc, 'z')
		} else {
			for i := 0; i < 5; i++ {
				enc = append(enc, ds[i]+'!')
			}
		}
	}
	enc = vInsertWS(enc, vAnyIntIn(0, maxWS)) // the two-character EOD marker itself is never split
	if vAnyIntIn(0, 1) == 1 {
		enc = append(enc, '~', '>')
	}
	got, err := ASCII85Decode(enc)
	vAssert("no-error", err == nil)
	vAssertBytesEq("roundtrip", got, want)
	vReach("end")
}

// H_C05_a85_partial_group: a final group of k bytes (k = 1..3) is written as the first k+1 digits of the
// zero-padded group's encoding; decoding returns exactly those k bytes.
//
//symgo:harness prop=C05 kernel=K3-a85-partial
//symgo:desc k = 1..3 symbolic bytes; k+1 symbolic digits constrained to be the leading base-85 digits of the zero-padded 32-bit group (V' <= V < V' + 85^(4-k), 64-bit arithmetic); optionally preceded by one full group (thorough); EOD present/absent
func H_C05_a85_partial_group() {
	k := vAnyIntIn(1, 3)
	b := vAnyBytes(k)
	var V uint64
	for i := 0; i < 4; i++ {
		V <<= 8
		if i < k {
			V |= uint64(b[i])
		}
	}
	var Vp uint64
	enc := make([]byte, 0, 8)
	for i := 0; i < 5; i++ {
		Vp *= 85
		if i <= k {
			d := vAnyByte()
			vAssume(d <= 84)
			Vp += uint64(d)
			enc = append(enc, d+'!')
		}
	}
	vAssume(Vp <= V && V < Vp+pow85(4-k))
	if vAnyIntIn(0, 1) == 1 {
		enc = append(enc, '~', '>')
	}
	got, err := ASCII85Decode(enc)
	vAssert("no-error", err == nil)
	vAssertBytesEq("roundtrip", got, b)
	vReach("end")
}

// H_C05_a85_undecodable: data no conforming encoder can produce must be refused, not decoded to wrong bytes:
// a 5-digit group whose value exceeds 2^32-1, a final group of a single digit, and a byte outside '!'..'u', 'z', whitespace.
//
//symgo:harness prop=C05 kernel=K3-a85-error
//symgo:desc case 0: 5 symbolic digits with 64-bit value > 2^32-1; case 1: a lone final digit (optionally after one valid group); case 2: one symbolic byte outside the alphabet; each followed by '~>'
func H_C05_a85_undecodable() {
	var enc []byte
	label := "bad-byte-is-error"
	switch vAnyIntIn(0, 2) {
	case 0:
		var v uint64
		for i := 0; i < 5; i++ {
			d := vAnyByte()
			vAssume(d <= 84)
			v = v*85 + uint64(d)
			enc = append(enc, d+'!')
		}
		vAssume(v > 0xFFFFFFFF)
		label = "overflowing-group-is-error"
	case 1:
		label = "lone-final-digit-is-error"
		if vAnyIntIn(0, 1) == 1 {
			enc = append(enc, "87cUR"...)
		}
		d := vAnyByte()
		vAssume(d <= 84)
		enc = append(enc, d+'!')
	default:
		c := vAnyByte()
		vAssume((c < '!' || c > 'u') && c != 'z' && c != '~' && c != ' ' && c != '\t' && c != '\r' && c != '\n' && c != '\f' && c != 0)
		enc = append(enc, '!', '!', c)
	}
	enc = append(enc, '~', '>')
	_, err := ASCII85Decode(enc)
	vAssert(label, err != nil)
	vReach("end")
}
