//go:build verif_harness

package layout

import (
	"github.com/tsawler/tabula/model"
	"github.com/tsawler/tabula/text"
)

// vFrags builds n fragments with distinct one-letter texts and symbolic geometry inside a 612x792 page.
func vFrags(n int, symHeight bool) []text.TextFragment {
	out := make([]text.TextFragment, n)
	for i := range out {
		x, y, w, h := vAnyFloat(), vAnyFloat(), vAnyFloat(), 10.0
		if symHeight {
			h = vAnyFloat()
		}
		vAssume(x >= 0 && w >= 0 && x+w <= 612)
		vAssume(y >= 0 && h > 0 && y+h <= 792)
		out[i] = text.TextFragment{Text: string(rune('A' + i)), X: x, Y: y, Width: w, Height: h, FontName: "/F1", FontSize: h}
	}
	return out
}

// vSameFrags: the detector's input slice still holds the same fragments in the same order (detectors analyse, they do
// not rewrite the caller's data: later stages and the caller use the same slice again).
func vSameFrags(a, b []text.TextFragment) bool {
	if len(a) != len(b) {
		return false
	}
	for i := range a {
		if a[i].Text != b[i].Text || a[i].X != b[i].X || a[i].Y != b[i].Y || a[i].Width != b[i].Width {
			return false
		}
	}
	return true
}

func vCountLabel(frags []text.TextFragment, label string) int {
	n := 0
	for _, f := range frags {
		if f.Text == label {
			n++
		}
	}
	return n
}

// vHavocGaps stands in for findVerticalGaps (which bins X into 5-point histogram buckets: intractable with symbolic X).
// It returns 0..2 arbitrary gaps with Left < Right inside the page - a superset of what the histogram can produce.
func vHavocGaps(d *ColumnDetector, fragments []text.TextFragment, pageWidth, pageHeight float64) []Gap {
	n := vAnyIntIn(0, 2)
	gaps := make([]Gap, n)
	for i := range gaps {
		l, r := vAnyFloat(), vAnyFloat()
		vAssume(l >= 0 && l < r && r <= pageWidth)
		if i > 0 {
			vAssume(gaps[i-1].Right <= l)
		}
		gaps[i] = Gap{Left: l, Right: r, Top: pageHeight, Bottom: 0}
	}
	return gaps
}

// H_C09_columns_conserve: column detection assigns every fragment to exactly one column or to the spanning group.
//
//symgo:harness prop=C09 kernel=K1a-columns real=1 noreplay=1
//symgo:redirect (*github.com/tsawler/tabula/layout.ColumnDetector).findVerticalGaps vHavocGaps
//symgo:desc 1..2 quick / 1..3 thorough fragments with fully symbolic real X, Y, Width >= 0, Height > 0 inside a 612x792 page and distinct labels; findVerticalGaps havoc'd (0..2 arbitrary ordered gaps inside the page): each label occurs exactly once in Columns[i].Fragments + SpanningFragments and exactly once in GetFragmentsInReadingOrder, and the caller's input slice is left as it was; floats modelled as reals
func H_C09_columns_conserve() {
	n := vAnyIntIn(1, 2+vTier())
	frags := vFrags(n, true)
	before := append([]text.TextFragment{}, frags...)
	layout := NewColumnDetector().Detect(frags, 612, 792)
	vAssert("layout", layout != nil)
	vAssert("input-fragments-not-rewritten", vSameFrags(before, frags))
	var all []text.TextFragment
	for _, c := range layout.Columns {
		all = append(all, c.Fragments...)
	}
	all = append(all, layout.SpanningFragments...)
	ro := layout.GetFragmentsInReadingOrder()
	for i := 0; i < n; i++ {
		lb := string(rune('A' + i))
		vAssert("each-fragment-in-exactly-one-column-or-spanning-group", vCountLabel(all, lb) == 1)
		vAssert("reading-order-has-each-fragment-once", vCountLabel(ro, lb) == 1)
	}
	vReach("end")
}

// H_C09_lines_conserve: line detection assigns every fragment to exactly one line.
//
//symgo:harness prop=C09 kernel=K2-lines real=1
//symgo:desc 1..2 quick / 1..3 thorough fragments with symbolic real X, Y, Width (Height 10 in the quick tier, symbolic in the thorough tier): each label occurs in exactly one detected line, and GetAllFragments returns each once
func H_C09_lines_conserve() {
	n := vAnyIntIn(1, 2+vTier())
	frags := vFrags(n, vTier() > 0)
	ll := NewLineDetector().Detect(frags, 612, 792)
	vAssert("layout", ll != nil)
	var all []text.TextFragment
	for _, ln := range ll.Lines {
		all = append(all, ln.Fragments...)
	}
	for i := 0; i < n; i++ {
		lb := string(rune('A' + i))
		vAssert("each-fragment-in-exactly-one-line", vCountLabel(all, lb) == 1)
	}
	vReach("end")
}

// H_C09_validate_columns_conserve: cleaning up detected columns keeps every fragment, whatever mix of narrow and wide columns.
//
//symgo:harness prop=C09 kernel=K1c-validate-columns real=1
//symgo:desc 1..4 columns in left-to-right order, each holding one labelled fragment whose width is symbolic (so each column is narrower or wider than MinColumnWidth independently): after validateColumns every label occurs exactly once in the remaining columns
func H_C09_validate_columns_conserve() {
	n := vAnyIntIn(1, 4)
	cols := make([]Column, n)
	for i := range cols {
		w := vAnyFloat()
		vAssume(w >= 0 && w <= 300)
		f := text.TextFragment{Text: string(rune('A' + i)), X: float64(100 * i), Y: 700, Width: w, Height: 10, FontSize: 10}
		cols[i] = Column{Index: i, Fragments: []text.TextFragment{f}, BBox: fragmentsBBox([]text.TextFragment{f})}
	}
	out := NewColumnDetector().validateColumns(cols)
	var all []text.TextFragment
	for _, c := range out {
		all = append(all, c.Fragments...)
	}
	for i := 0; i < n; i++ {
		vAssert("fragment-kept-exactly-once", vCountLabel(all, string(rune('A'+i))) == 1)
	}
	vReach("end")
}

// H_C03_line_detection_order_independent: line detection gives the same lines whatever order Go's randomized map
// iteration happens to produce.
//
//symgo:harness prop=C03 kernel=F3-map-order-lines maporder=all noreplay=1 real=1
//symgo:desc 12 single-fragment rows 2 units apart with 10 pt glyphs (the compressed-coordinate case that drives the adaptive tolerance through a map of distinct baselines); Detect is run twice and every map iteration independently takes insertion order, its reverse or a stride permutation (maps with <= 4 keys: every order): both runs return the same number of lines with the same texts
func H_C03_line_detection_order_independent() {
	var frags []text.TextFragment
	for i := 0; i < 12; i++ {
		frags = append(frags, text.TextFragment{Text: "row" + string(rune('a'+i)), X: 72, Y: float64(700 - 2*i), Width: 60, Height: 10, FontSize: 10})
	}
	a := NewLineDetector().Detect(frags, 612, 792)
	b := NewLineDetector().Detect(frags, 612, 792)
	vAssert("same-line-count", len(a.Lines) == len(b.Lines))
	for i := range a.Lines {
		vAssert("same-line-text", a.Lines[i].Text == b.Lines[i].Text)
	}
	vReach("end")
}

// H_C03_tied_counts_are_order_independent: "most common value" decisions taken by ranging over a map - the body font
// size behind heading detection, the left margin behind paragraph splitting - give the same answer for a tie whatever
// order the map yields its keys in.
//
//symgo:harness prop=C03 kernel=F3-map-order-ties maporder=all noreplay=1 real=1
//symgo:desc detectBodyFontSize over two one-line paragraphs of 24 pt and 12 pt (a tie of one line each) or three paragraphs with two tied sizes (enumerated); detectLeftMargin over two lines starting at x = 72 and x = 100 (a tie) or four lines tied two against two (enumerated); detectDominantAlignment over a two-way tie: each function is called twice, every map iteration independently takes each possible order: both calls return the same value
func H_C03_tied_counts_are_order_independent() {
	switch vAnyIntIn(0, 2) {
	case 0:
		ps := []Paragraph{{AverageFontSize: 24, Lines: make([]Line, 1)}, {AverageFontSize: 12, Lines: make([]Line, 1)}}
		if vAnyIntIn(0, 1) == 1 {
			ps = append(ps, Paragraph{AverageFontSize: 9, Lines: nil})
		}
		d := NewHeadingDetector()
		vAssert("body-font-size-independent-of-map-order", d.detectBodyFontSize(ps) == d.detectBodyFontSize(ps))
	case 1:
		ls := []Line{{BBox: model.BBox{X: 72}}, {BBox: model.BBox{X: 100}}}
		if vAnyIntIn(0, 1) == 1 {
			ls = append(ls, Line{BBox: model.BBox{X: 72}}, Line{BBox: model.BBox{X: 100}})
		}
		d := NewParagraphDetector()
		vAssert("left-margin-independent-of-map-order", d.detectLeftMargin(ls) == d.detectLeftMargin(ls))
	default:
		ls := []Line{{Alignment: AlignLeft}, {Alignment: AlignCenter}}
		d := NewParagraphDetector()
		vAssert("dominant-alignment-independent-of-map-order", d.detectDominantAlignment(ls) == d.detectDominantAlignment(ls))
	}
	vReach("end")
}

// H_C09_blocks_conserve: block detection (grouping, merging of overlapping blocks, validation) keeps every fragment
// exactly once, both in Block.Fragments and in Block.Lines.
//
//symgo:harness prop=C09 kernel=K3-blocks real=1
//symgo:desc 1..3 fragments with symbolic real X, Y, Width (Height 10 quick / symbolic thorough): over all detected blocks each label occurs exactly once in Fragments, exactly once in Lines, and GetAllFragments returns each once
func H_C09_blocks_conserve() {
	n := vAnyIntIn(1, 3)
	frags := vFrags(n, vTier() > 0)
	bl := NewBlockDetector().Detect(frags, 612, 792)
	vAssert("layout", bl != nil)
	var inFrags, inLines []text.TextFragment
	for _, b := range bl.Blocks {
		inFrags = append(inFrags, b.Fragments...)
		for _, ln := range b.Lines {
			inLines = append(inLines, ln...)
		}
	}
	all := bl.GetAllFragments()
	for i := 0; i < n; i++ {
		lb := string(rune('A' + i))
		vAssert("each-fragment-in-exactly-one-block", vCountLabel(inFrags, lb) == 1)
		vAssert("each-fragment-in-exactly-one-block-line", vCountLabel(inLines, lb) == 1)
		vAssert("all-fragments-has-each-once", vCountLabel(all, lb) == 1)
	}
	vReach("end")
}

// vCountByte counts a label byte in a text.
func vCountByte(s string, c byte) int {
	n := 0
	for i := 0; i < len(s); i++ {
		if s[i] == c {
			n++
		}
	}
	return n
}

// H_C09_paragraphs_conserve: paragraph detection (lines, then paragraphs) keeps every fragment's text exactly once.
//
//symgo:harness prop=C09 kernel=K4-paragraphs real=1
//symgo:desc 1 quick / 1..3 thorough fragments with symbolic real X, Y, Width (Height 10 quick / symbolic thorough) and distinct one-letter texts: over all detected paragraphs each letter occurs exactly once in the paragraphs' lines' fragments, exactly once in the paragraphs' Text and exactly once in ParagraphLayout.GetText()
func H_C09_paragraphs_conserve() {
	n := vAnyIntIn(1, 1+2*vTier())
	frags := vFrags(n, vTier() > 0)
	pl := NewParagraphDetector().DetectFromFragments(frags, 612, 792)
	vAssert("layout", pl != nil)
	var inLines []text.TextFragment
	all := ""
	for _, p := range pl.Paragraphs {
		all += p.Text + "\n"
		for _, ln := range p.Lines {
			inLines = append(inLines, ln.Fragments...)
		}
	}
	whole := pl.GetText()
	for i := 0; i < n; i++ {
		lb := string(rune('A' + i))
		vAssert("each-fragment-in-exactly-one-paragraph-line", vCountLabel(inLines, lb) == 1)
		vAssert("each-text-once-in-paragraph-texts", vCountByte(all, byte('A'+i)) == 1)
		vAssert("each-text-once-in-layout-text", vCountByte(whole, byte('A'+i)) == 1)
	}
	vReach("end")
}

// H_C09_reading_order_conserve: reading-order detection (columns, spanning content, lines) returns every fragment once.
//
//symgo:harness prop=C09 kernel=K5-reading-order real=1 noreplay=1
//symgo:redirect (*github.com/tsawler/tabula/layout.ColumnDetector).findVerticalGaps vHavocGaps
//symgo:desc 1 quick / 1..2 thorough fragments with symbolic real X, Y, Width, Height and distinct one-letter texts; findVerticalGaps havoc'd (0..2 arbitrary ordered gaps): each letter occurs exactly once in ReadingOrderResult.Fragments, exactly once in its Lines' fragments and exactly once in GetText()
func H_C09_reading_order_conserve() {
	n := vAnyIntIn(1, 1+vTier())
	frags := vFrags(n, vTier() > 0)
	ro := NewReadingOrderDetector().Detect(frags, 612, 792)
	vAssert("result", ro != nil)
	var inLines []text.TextFragment
	for _, ln := range ro.Lines {
		inLines = append(inLines, ln.Fragments...)
	}
	whole := ro.GetText()
	for i := 0; i < n; i++ {
		lb := string(rune('A' + i))
		vAssert("each-fragment-once-in-reading-order", vCountLabel(ro.Fragments, lb) == 1)
		vAssert("each-fragment-once-in-reading-order-lines", vCountLabel(inLines, lb) == 1)
		vAssert("each-text-once-in-reading-order-text", vCountByte(whole, byte('A'+i)) == 1)
	}
	vReach("end")
}

// H_C09_analysis_elements_conserve: the full analysis returns every fragment's text exactly once in its elements.
//
//symgo:harness prop=C09 kernel=K6-analysis-elements real=1 noreplay=1
//symgo:redirect (*github.com/tsawler/tabula/layout.ColumnDetector).findVerticalGaps vHavocGaps
//symgo:desc 1 quick / 1..2 thorough fragments with symbolic real X, Y, Width (Height 10) and distinct one-letter texts; findVerticalGaps havoc'd: each letter occurs exactly once in the concatenated Text of AnalysisResult.Elements and exactly once in AnalysisResult.GetText()
func H_C09_analysis_elements_conserve() {
	n := vAnyIntIn(1, 1+vTier())
	frags := vFrags(n, false)
	res := NewAnalyzer().Analyze(frags, 612, 792)
	vAssert("result", res != nil)
	all := ""
	for _, e := range res.Elements {
		all += e.Text + "\n"
	}
	whole := res.GetText()
	for i := 0; i < n; i++ {
		vAssert("each-text-once-in-elements", vCountByte(all, byte('A'+i)) == 1)
		vAssert("each-text-once-in-analysis-text", vCountByte(whole, byte('A'+i)) == 1)
	}
	vReach("end")
}

// H_C09_analysis_elements_lists: on pages with lists - nested ones included - the analysis elements still hold every
// fragment's text exactly once.
//
//symgo:harness prop=C09 kernel=K6b-analysis-elements-lists
//symgo:desc concrete page (enumerated shapes, no symbolic data): optionally a short 18 pt heading, an intro paragraph, a bulleted list of 2..3 top-level items of which one (enumerated) has 0..2 indented child items with a different bullet, and a closing paragraph, all at a normal 15 pt line pitch: every fragment's word marker occurs exactly once in the concatenated Text of AnalysisResult.Elements and exactly once in AnalysisResult.GetText()
func H_C09_analysis_elements_lists() {
	mk := func(s string, x, y float64) text.TextFragment {
		return text.TextFragment{Text: s, X: x, Y: y, Width: float64(len(s)) * 6, Height: 12, FontSize: 12, FontName: "F1"}
	}
	top := vAnyIntIn(2, 3)
	parent := vAnyIntIn(0, top-1)
	kids := vAnyIntIn(0, 2)
	var frags []text.TextFragment
	var markers []string
	y := 700.0
	add := func(s, marker string, x float64) {
		frags = append(frags, mk(s, x, y))
		markers = append(markers, marker)
		y -= 15
	}
	if vAnyIntIn(0, 1) == 1 {
		// a short heading in a larger size above the text
		frags = append(frags, text.TextFragment{Text: "Chapter One", X: 72, Y: y + 30, Width: 110, Height: 18, FontSize: 18, FontName: "F1"})
		markers = append(markers, "Chapter")
	}
	add("Intro paragraph text here.", "Intro", 72)
	y -= 15
	for i := 0; i < top; i++ {
		m := "Top" + string(rune('A'+i))
		add("• "+m+" item", m, 72)
		if i == parent {
			for k := 0; k < kids; k++ {
				c := "Kid" + string(rune('A'+k))
				add("◦ "+c+" child", c, 92)
			}
		}
	}
	y -= 15
	add("Closing paragraph.", "Closing", 72)
	res := NewAnalyzer().Analyze(frags, 612, 792)
	vAssert("result", res != nil)
	all := ""
	for _, e := range res.Elements {
		all += e.Text + "\n"
	}
	whole := res.GetText()
	count := func(s, sub string) int {
		n := 0
		for i := 0; i+len(sub) <= len(s); i++ {
			if s[i:i+len(sub)] == sub {
				n++
			}
		}
		return n
	}
	for _, m := range markers {
		vAssert("each-text-once-in-elements", count(all, m) == 1)
		vAssert("each-text-once-in-analysis-text", count(whole, m) == 1)
	}
	vReach("end")
}

// H_C09_two_column_pages: on concrete two-column pages - shared or staggered baselines, an optional larger heading that
// falls between two baselines of the other column, an optional full-width title - every fragment is assigned exactly once
// by column detection and appears exactly once in reading order, paragraphs, analysis elements and their texts.
//
//symgo:harness prop=C09 kernel=K7-two-column-pages
//symgo:desc concrete pages (enumerated, no symbolic data): left column of 3..4 lines at x=72 on a 14 pt grid, right column of 3 lines at x=330 whose baselines are shifted by 0 or 7 pt (enumerated), optionally a 16 pt heading in the right column placed between two left-column baselines, optionally a full-width title above; fragments streamed column by column: each fragment's word occurs exactly once in Columns+SpanningFragments, in GetFragmentsInReadingOrder, in ReadingOrderResult.Fragments and GetText, in the reading-order paragraphs' text and in the analysis elements' text
func H_C09_two_column_pages() {
	var frags []text.TextFragment
	var words []string
	add := func(w string, x, y, width, h float64) {
		frags = append(frags, text.TextFragment{Text: w, X: x, Y: y, Width: width, Height: h, FontSize: h, FontName: "F1"})
		words = append(words, w)
	}
	if vAnyIntIn(0, 1) == 1 {
		add("TITLEWORD", 72, 740, 470, 18)
	}
	nl := vAnyIntIn(3, 4)
	for i := 0; i < nl; i++ {
		add("left"+string(rune('A'+i)), 72, 700-14*float64(i), 200, 12)
	}
	shift := 7.0 * float64(vAnyIntIn(0, 1))
	if vAnyIntIn(0, 1) == 1 {
		add("HEADWORD", 330, 693, 180, 16) // between the left column's baselines 700 and 686
	}
	for i := 0; i < 3; i++ {
		add("right"+string(rune('A'+i)), 330, 672-shift-14*float64(i), 200, 12)
	}
	count := func(fs []text.TextFragment, w string) int {
		n := 0
		for _, f := range fs {
			if f.Text == w {
				n++
			}
		}
		return n
	}
	countStr := func(s, sub string) int {
		n := 0
		for i := 0; i+len(sub) <= len(s); i++ {
			if s[i:i+len(sub)] == sub {
				n++
			}
		}
		return n
	}
	cl := NewColumnDetector().Detect(append([]text.TextFragment{}, frags...), 612, 792)
	vAssert("layout", cl != nil)
	var assigned []text.TextFragment
	for _, c := range cl.Columns {
		assigned = append(assigned, c.Fragments...)
	}
	assigned = append(assigned, cl.SpanningFragments...)
	inOrder := cl.GetFragmentsInReadingOrder()
	ro := NewReadingOrderDetector().Detect(append([]text.TextFragment{}, frags...), 612, 792)
	vAssert("reading-order", ro != nil)
	roText := ro.GetText()
	paraText := ""
	if pl := ro.GetParagraphs(); pl != nil {
		for _, p := range pl.Paragraphs {
			paraText += p.Text + "\n"
		}
	}
	res := NewAnalyzer().Analyze(append([]text.TextFragment{}, frags...), 612, 792)
	elemText := ""
	for _, e := range res.Elements {
		elemText += e.Text + "\n"
	}
	for _, w := range words {
		vAssert("fragment-in-exactly-one-column-or-spanning-group", count(assigned, w) == 1)
		vAssert("fragment-once-in-column-reading-order", count(inOrder, w) == 1)
		vAssert("fragment-once-in-reading-order-result", count(ro.Fragments, w) == 1)
		vAssert("text-once-in-reading-order-text", countStr(roText, w) == 1)
		vAssert("text-once-in-paragraphs", countStr(paraText, w) == 1)
		vAssert("text-once-in-analysis-elements", countStr(elemText, w) == 1)
	}
	vReach("end")
}

// vWordLine appends the words of one text line as word-level fragments (width = 0.5 em per character).
func vWordLine(out *[]text.TextFragment, font string, x, y, fs float64, words ...string) {
	for _, w := range words {
		ww := float64(len(w)) * fs * 0.5
		*out = append(*out, text.TextFragment{Text: w, X: x, Y: y, Width: ww, Height: fs, FontName: font, FontSize: fs, Direction: text.LTR})
		x += ww + fs*0.5
	}
}

func vSortedNonSpace(s string) string {
	var b []byte
	for i := 0; i < len(s); i++ {
		if s[i] != ' ' && s[i] != '\n' && s[i] != '\t' {
			b = append(b, s[i])
		}
	}
	for i := 1; i < len(b); i++ {
		for j := i; j > 0 && b[j-1] > b[j]; j-- {
			b[j-1], b[j] = b[j], b[j-1]
		}
	}
	return string(b)
}

// H_C09_elements_conserve_on_whole_pages: on whole pages where the heading/list detectors and the reading-order
// paragraphs segment the lines differently, the analysis elements still carry every input character exactly once.
//
//symgo:harness prop=C09 kernel=K7-elements-on-whole-pages
//symgo:desc two word-level single-column pages (enumerated): (a) four body lines, a bold ALL-CAPS line centred at body size and leading, four body lines - the heading detector isolates the centred line, the reading-order paragraphs glue it to the lines below; (b) a line, a bullet item, an indented plain line, a second bullet item, a line - the list's box covers the plain line between its items; the indentation of the plain line / the offset of the centred line is enumerated over three values: the non-white-space characters of Analyze().Elements equal those of the input as a multiset (ASCII texts)
func H_C09_elements_conserve_on_whole_pages() {
	var in []text.TextFragment
	y := 700.0
	if vAnyIntIn(0, 1) == 0 {
		body := [][]string{
			{"Meanwhile", "the", "weather", "turned", "colder", "than", "anyone", "had", "expected", "for", "the", "season"},
			{"so", "the", "stalls", "closed", "early", "and", "people", "hurried", "off", "with", "their", "bags", "held"},
			{"against", "the", "wind", "that", "came", "from", "north", "over", "the", "hills", "and", "across", "town"},
			{"until", "the", "square", "was", "empty", "and", "quiet", "and", "only", "the", "pigeons", "were", "left"},
		}
		for _, l := range body {
			vWordLine(&in, "Helvetica", 50, y, 10, l...)
			y -= 12
		}
		bb := fragmentsBBox(in)
		off := []float64{0, -20, 15}[vAnyIntIn(0, 2)]
		vWordLine(&in, "Helvetica-Bold", bb.X+bb.Width/2-45+off, y, 10, "SUMMARY", "OF", "RESULTS")
		y -= 12
		for _, l := range body {
			vWordLine(&in, "Helvetica", 50, y, 10, l...)
			y -= 12
		}
	} else {
		indent := []float64{80, 62, 110}[vAnyIntIn(0, 2)]
		lines := []struct {
			x float64
			w []string
		}{
			{50, []string{"To", "upgrade", "the", "tool", "on", "a", "server", "follow", "these", "steps", "in", "order"}},
			{50, []string{"*", "Install", "the", "package", "from", "the", "archive"}},
			{indent, []string{"sudo", "make", "install"}},
			{50, []string{"*", "Restart", "the", "service", "afterwards"}},
			{50, []string{"When", "both", "steps", "are", "done", "the", "new", "version", "is", "active", "and", "the"}},
		}
		for _, l := range lines {
			vWordLine(&in, "Helvetica", l.x, y, 10, l.w...)
			y -= 12
		}
	}
	res := NewAnalyzer().Analyze(in, 612, 792)
	vAssert("analysis", res != nil)
	got, want := "", ""
	for _, e := range res.Elements {
		got += e.Text + " "
	}
	for _, f := range in {
		want += f.Text + " "
	}
	vObserveStr("elements", got)
	vAssert("elements-carry-every-input-character-once", vSortedNonSpace(got) == vSortedNonSpace(want))
	vReach("end")
}
