//go:build verif_harness

package layout

import "github.com/tsawler/tabula/text"

var vVocab = []string{"Annual Report", "Body text here", "Page 7"}

// H_C11_filter_only_marginal_repeats: for an arbitrary detection result, filtering a page only deletes fragments, keeps their
// order, never touches the page's body band, and deletes a fragment only if it lies in a marginal band of a region that lists
// this page and its text matches that region (or is a page-number pattern for page-number regions).
//
//symgo:harness prop=C11 kernel=K1-filter real=1
//symgo:desc page 792 pt high with the default 72 pt bands; 1..2 fragments with symbolic real Y and Height inside the page and texts from a 3-entry vocabulary (enumerated); one header and one footer region with symbolic membership of this page, text from the vocabulary and IsPageNumber enumerated: (a) result is a subsequence, (b) a fragment wholly inside the body band (more than 72 pt from both page edges) is kept, (c) a removed fragment lies within 72 pt of the page top (bottom) and matches a header (footer) region that lists the page; floats as reals
func H_C11_filter_only_marginal_repeats() {
	const pageH = 792.0
	n := vAnyIntIn(1, 2)
	frags := make([]text.TextFragment, n)
	for i := range frags {
		y, h := vAnyFloat(), vAnyFloat()
		vAssume(y >= 0 && h > 0 && y+h <= pageH)
		frags[i] = text.TextFragment{Text: vVocab[vAnyIntIn(0, 2)], X: 72, Y: y, Width: 100, Height: h, FontSize: 10}
	}
	mk := func(t RegionType) HeaderFooterRegion {
		r := HeaderFooterRegion{Type: t, Text: vVocab[vAnyIntIn(0, 2)], IsPageNumber: vAnyIntIn(0, 1) == 1, Confidence: 1}
		if vAnyBool() {
			r.PageIndices = []int{0, 1, 2}
		} else {
			r.PageIndices = []int{1, 2}
		}
		return r
	}
	res := &HeaderFooterResult{Headers: []HeaderFooterRegion{mk(Header)}, Footers: []HeaderFooterRegion{mk(Footer)}, Config: DefaultHeaderFooterConfig()}
	out := res.FilterFragments(0, frags, pageH)
	// (a) subsequence
	k := 0
	for i := 0; i < n && k < len(out); i++ {
		if out[k].Text == frags[i].Text && out[k].Y == frags[i].Y && out[k].Height == frags[i].Height {
			k++
		}
	}
	vAssert("result-is-a-subsequence", k == len(out))
	for i := 0; i < n; i++ {
		f := frags[i]
		kept := false
		for _, o := range out {
			if o.Text == f.Text && o.Y == f.Y && o.Height == f.Height {
				kept = true
			}
		}
		distTop := pageH - (f.Y + f.Height)
		distBottom := f.Y
		if distTop > 72 && distBottom > 72 {
			vAssert("body-band-is-kept", kept)
		}
		if !kept {
			h, ft := res.Headers[0], res.Footers[0]
			hdr := h.PageIndices[0] == 0 && distTop < 72 && (h.IsPageNumber && f.Text == "Page 7" || !h.IsPageNumber && f.Text == h.Text)
			ftr := ft.PageIndices[0] == 0 && distBottom < 72 && (ft.IsPageNumber && f.Text == "Page 7" || !ft.IsPageNumber && f.Text == ft.Text)
			vAssert("removed-only-if-marginal-and-matching", hdr || ftr)
		}
	}
	vReach("end")
}

// H_C11_no_repetition_no_regions: a document without repeated text has no header or footer regions, so nothing is removed.
//
//symgo:harness prop=C11 kernel=K2-no-repetition real=1
//symgo:desc 2..3 pages, each with one marginal fragment (symbolic Y within 72 pt of the top or bottom, enumerated) whose text is distinct on every page and non-numeric (page 0 may draw its text twice at nearly the same position - a double-struck title is not a repetition across pages): Detect returns no regions and FilterFragments returns every page unchanged
func H_C11_no_repetition_no_regions() {
	np := vAnyIntIn(2, 3)
	texts := []string{"Alpha chapter", "Beta section", "Gamma notes"}
	var pages []PageFragments
	for p := 0; p < np; p++ {
		y := vAnyFloat()
		if vAnyIntIn(0, 1) == 0 {
			vAssume(y >= 730 && y <= 780)
		} else {
			vAssume(y >= 10 && y <= 60)
		}
		fr := []text.TextFragment{
			{Text: texts[p], X: 72, Y: y, Width: 100, Height: 10, FontSize: 10},
			{Text: "Body paragraph number " + string(rune('a'+p)), X: 72, Y: 400, Width: 300, Height: 10, FontSize: 10},
		}
		if p == 0 && vAnyIntIn(0, 1) == 1 {
			// the same marginal text drawn twice on ONE page (fake bold): still no repetition across pages
			fr = append(fr, text.TextFragment{Text: texts[p], X: 72.4, Y: y, Width: 100, Height: 10, FontSize: 10})
		}
		pages = append(pages, PageFragments{PageIndex: p, PageHeight: 792, PageWidth: 612, Fragments: fr})
	}
	res := NewHeaderFooterDetector().Detect(pages)
	vAssert("no-regions-without-repetition", res == nil || (len(res.Headers) == 0 && len(res.Footers) == 0))
	for p := 0; p < np; p++ {
		out := res.FilterFragments(p, pages[p].Fragments, 792)
		vAssert("page-unchanged", len(out) == len(pages[p].Fragments))
	}
	vReach("end")
}

// H_C11_running_page_numbers_are_removed: running page numbers - bare or decorated - at the same marginal position on
// every page are removed from every page, and only they.
//
//symgo:harness prop=C11 kernel=K3-running-page-numbers
//symgo:desc 4 pages, each with a body fragment and a footer-band fragment at a fixed position holding the page's number written (enumerated) bare ("3"), as "Page 3", "- 3 -", "[3]", "-3-" or "Confidential - Page 3"; body text purely numeric on one page (enumerated): Detect + FilterFragments remove the number fragment from every page and keep every body fragment
func H_C11_running_page_numbers_are_removed() {
	style := vAnyIntIn(0, 5)
	numericBody := vAnyIntIn(0, 1) == 1
	var pages []PageFragments
	for p := 0; p < 4; p++ {
		n := string(rune('1' + p))
		label := []string{n, "Page " + n, "- " + n + " -", "[" + n + "]", "-" + n + "-", "Confidential - Page " + n}[style]
		body := "Body paragraph of page " + string(rune('a'+p))
		if numericBody && p == 1 {
			body = "2024"
		}
		pages = append(pages, PageFragments{PageIndex: p, PageHeight: 792, PageWidth: 612, Fragments: []text.TextFragment{
			{Text: body, X: 72, Y: 400, Width: 300, Height: 10, FontSize: 10},
			{Text: label, X: 290, Y: 30, Width: 40, Height: 10, FontSize: 10},
		}})
	}
	res := NewHeaderFooterDetector().Detect(pages)
	vAssert("detected", res != nil)
	for p := 0; p < 4; p++ {
		out := res.FilterFragments(p, pages[p].Fragments, 792)
		vAssert("body-kept-number-removed", len(out) == 1 && out[0].Y == 400)
	}
	vReach("end")
}
