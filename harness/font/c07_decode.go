//go:build verif_harness

package font

import (
	"unicode/utf8"

	"github.com/tsawler/tabula/core"
)

func vIdentityNFC(s string) string { return s }

// refUTF16 encodes one Unicode scalar value as UTF-16 code units (RFC 2781).
func refUTF16(r rune) []uint16 {
	if r < 0x10000 {
		return []uint16{uint16(r)}
	}
	v := uint32(r) - 0x10000
	return []uint16{uint16(0xD800 + (v >> 10)), uint16(0xDC00 + (v & 0x3FF))}
}

func vAnyScalar() rune {
	r := vAnyRune()
	vAssume(r >= 0 && r <= 0x10FFFF && (r < 0xD800 || r > 0xDFFF))
	return r
}

// H_C07_utf16_strings: every Unicode string encoded as UTF-16 with a byte-order mark decodes to itself.
//
//symgo:harness prop=C07 kernel=K2-utf16
//symgo:redirect github.com/tsawler/tabula/font.NormalizeUnicode vIdentityNFC
//symgo:desc 1..2 symbolic Unicode scalar values (any plane, surrogates excluded), encoded by a reference UTF-16 encoder, big or little endian (enumerated), through DecodeUTF16BE/LE directly and through Font.DecodeString with the byte-order mark; NFC normalisation is cut (identity) - the comparison is on the decoded code points
func H_C07_utf16_strings() {
	n := vAnyIntIn(1, 2)
	be := vAnyIntIn(0, 1) == 0
	var data []byte
	var want []byte
	for i := 0; i < n; i++ {
		r := vAnyScalar()
		for _, u := range refUTF16(r) {
			if be {
				data = append(data, byte(u>>8), byte(u))
			} else {
				data = append(data, byte(u), byte(u>>8))
			}
		}
		want = utf8.AppendRune(want, r)
	}
	var got string
	if be {
		got = DecodeUTF16BE(data)
	} else {
		got = DecodeUTF16LE(data)
	}
	vAssert("utf16-roundtrip", got == string(want))
	bom := []byte{0xFE, 0xFF}
	if !be {
		bom = []byte{0xFF, 0xFE}
	}
	f := NewFont("F1", "Helvetica", "Type1")
	got2 := f.DecodeString(append(bom, data...))
	vAssert("bom-dispatch", got2 == string(want))
	vReach("end")
}

// H_C07_output_is_valid_utf8: whatever bytes a string operand holds, every decoding path returns valid UTF-8.
//
//symgo:harness prop=C07 kernel=K4-valid-utf8
//symgo:redirect github.com/tsawler/tabula/font.NormalizeUnicode vIdentityNFC
//symgo:desc all byte strings of length 0..2 quick / 0..3 thorough through Font.DecodeString for a font with a named encoding (WinAnsi, MacRoman, Standard, PDFDoc - enumerated), with no encoding at all (raw fallback), with a ToUnicode CMap holding one bfchar, and through the UTF-16 paths (BOM + symbolic bytes): result is valid UTF-8; NFC itself is cut
func H_C07_output_is_valid_utf8() {
	n := vAnyIntIn(0, 2+vTier())
	data := vAnyBytes(n)
	f := NewFont("F1", "Helvetica", "Type1")
	switch vAnyIntIn(0, 6) {
	case 0:
		f.Encoding = "WinAnsiEncoding"
	case 1:
		f.Encoding = "MacRomanEncoding"
	case 2:
		f.Encoding = "StandardEncoding"
	case 3:
		f.Encoding = "PDFDocEncoding"
	case 4:
		f.Encoding = ""
	case 5:
		cm := NewCMap()
		cm.charMappings[0x41] = "A"
		f.ToUnicodeCMap = cm
	default:
		data = append([]byte{0xFE, 0xFF}, data...)
	}
	s := f.DecodeString(data)
	vAssert("decoded-text-is-valid-utf8", utf8.ValidString(s))
	vReach("end")
}

func vHexV(c byte) uint32 {
	switch {
	case c >= '0' && c <= '9':
		return uint32(c - '0')
	case c >= 'a' && c <= 'f':
		return uint32(c-'a') + 10
	default:
		return uint32(c-'A') + 10
	}
}

// vHex appends n symbolic hex digits drawn from set (either letter case where set has both) and returns their value.
func vHex(out []byte, sets ...string) ([]byte, uint32) {
	v := uint32(0)
	for _, set := range sets {
		d := vAnyByteOf(set)
		out = append(out, d)
		v = v<<4 | vHexV(d)
	}
	return out, v
}

// vq: the full symbolic digit set in the thorough tier, one fixed digit in the quick tier
// (every symbolic hex digit forks the real strconv.ParseUint two to three ways).
func vq(set, fixed string) string {
	if vTier() > 0 {
		return set
	}
	return fixed
}

const (
	hexAny   = "0123456789ABCDEFabcdef"
	hexNotD  = "0123456789ABCEabce"   // first digit of a BMP target: keeps it out of the surrogate block (D) and of F000-FFFF (a leading FEFF is read as a byte-order mark)
	hexHigh  = "456789ABCDEFabcdef"   // first digit of a code: keeps it clear of the bfrange 30..32
	hexNot0  = "23456789ABCDEFabcdef" // first digit of a BMP target: printable
	hexLowOK = "0123456789ABCDEFabcdef" // last digit of a range target: any (+2 may carry into the next digit of the same code unit)
	hexNotF  = "0123456789ABCDEabcde"   // a digit that keeps its code unit below 0xF000, so that +2 cannot overflow the unit
)

// H_C07_tounicode_cmap: a ToUnicode CMap rendered from a code->text map decodes codes to exactly that text.
//
//symgo:harness prop=C07 kernel=K3-tounicode
//symgo:redirect github.com/tsawler/tabula/font.NormalizeUnicode vIdentityNFC
//symgo:desc code space of 1 or 2 bytes; one bfchar <code> <target> and one bfrange <30> <32> <target> (<0030> <0032> for 2-byte codes); hex digits of the code and of both targets are symbolic bytes, either letter case (thorough: every digit; quick: the two low digits of each number, the others fixed); each target is one BMP code point (not a surrogate) or a supplementary-plane character written as a surrogate pair (enumerated kind); entries separated by newlines or by spaces only (enumerated); oracle ISO 32000-1 9.10.3: a range target increments its last code unit (with carry inside the 16-bit unit); ToUnicode takes precedence over the font's Encoding; NFC cut (identity)
func H_C07_tounicode_cmap() {
	width := vAnyIntIn(1, 2)
	nl := "\n"
	if vAnyIntIn(0, 1) == 1 {
		nl = " "
	}
	// target writes <....> or <........> and returns the code point it denotes
	target := func(prog []byte, rangeTarget bool) ([]byte, rune) {
		last := hexAny
		if rangeTarget {
			last = hexLowOK
		}
		prog = append(prog, '<')
		var r rune
		if vAnyIntIn(0, 1) == 0 {
			var v uint32
			prog, v = vHex(prog, vq(hexNotD, "4"), vq(hexAny, "E"), hexAny, last)
			vAssume(v >= 0x20)
			r = rune(v)
		} else {
			var hi, lo uint32
			prog = append(prog, 'D', '8')
			prog, hi = vHex(prog, vq(hexAny, "3"), hexAny)
			prog = append(prog, 'D', 'C')
			prog, lo = vHex(prog, vq(hexAny, "F"), last) // quick: DCFx, so that +1/+2 carries into the high byte of the unit
			r = rune(0x10000 + (hi << 10) + lo)
		}
		return append(prog, '>'), r
	}
	prog := []byte("/CIDInit /ProcSet findresource begin 12 dict begin begincmap" + nl + "1 begincodespacerange" + nl)
	if width == 1 {
		prog = append(prog, ("<00> <FF>" + nl)...)
	} else {
		prog = append(prog, ("<0000> <FFFF>" + nl)...)
	}
	prog = append(prog, ("endcodespacerange" + nl + "1 beginbfchar" + nl + "<")...)
	var code uint32
	if width == 1 {
		prog, code = vHex(prog, hexHigh, hexAny)
	} else {
		prog, code = vHex(prog, vq(hexAny, "0"), vq(hexAny, "1"), hexHigh, hexAny)
	}
	prog = append(prog, "> "...)
	var r1, r2 rune
	prog, r1 = target(prog, false)
	prog = append(prog, (nl + "endbfchar" + nl + "1 beginbfrange" + nl)...)
	if width == 1 {
		prog = append(prog, "<30> <32> "...)
	} else {
		prog = append(prog, "<0030> <0032> "...)
	}
	prog, r2 = target(prog, true)
	prog = append(prog, (nl + "endbfrange" + nl + "endcmap")...)
	cm, err := ParseToUnicodeCMap(&core.Stream{Dict: core.Dict{}, Data: prog})
	vAssert("cmap-parses", err == nil && cm != nil)
	enc := func(c uint32) []byte {
		if width == 1 {
			return []byte{byte(c)}
		}
		return []byte{byte(c >> 8), byte(c)}
	}
	k := uint32(vAnyIntIn(0, 2))
	f := NewFont("F1", "Helvetica", "Type1")
	f.Encoding = "WinAnsiEncoding"
	f.ToUnicodeCMap = cm
	got1 := f.DecodeString(enc(code))
	vAssert("bfchar-target", got1 == string(utf8.AppendRune(nil, r1)))
	got2 := f.DecodeString(enc(0x30 + k))
	vAssert("bfrange-target-plus-offset", got2 == string(utf8.AppendRune(nil, r2+rune(k))))
	vReach("end")
}

// H_C07_tounicode_wide_codes: codes of three and four bytes (CJK code spaces such as EUC, whose first byte is >= 0x80)
// decode by the CMap like short ones.
//
//symgo:harness prop=C07 kernel=K3-tounicode-wide
//symgo:redirect github.com/tsawler/tabula/font.NormalizeUnicode vIdentityNFC
//symgo:desc code space of 3 or 4 bytes (enumerated); one bfchar and one 3-code bfrange whose codes have symbolic first two hex digits (any value, so the first byte ranges over 00..FF) and fixed remaining digits; BMP targets fixed; the code string is the bfchar code followed by one code of the range (offset enumerated 0..2): the result is the bfchar target followed by range target + offset
func H_C07_tounicode_wide_codes() {
	width := vAnyIntIn(3, 4)
	tail1, tail2 := "A1A1", "B1B0"
	cs := "<000000> <FFFFFF>"
	if width == 4 {
		tail1, tail2 = "A1A1A1", "B1B1B0"
		cs = "<00000000> <FFFFFFFF>"
	}
	prog := []byte("/CIDInit /ProcSet findresource begin 12 dict begin begincmap\n1 begincodespacerange\n" + cs + "\nendcodespacerange\n1 beginbfchar\n<")
	var h1, h2 uint32
	prog, h1 = vHex(prog, hexAny, hexAny)
	prog = append(prog, (tail1 + "> <4E00>\nendbfchar\n1 beginbfrange\n<")...)
	r0 := len(prog)
	prog, h2 = vHex(prog, hexAny, hexAny)
	prog = append(prog, tail2...)
	lo := append([]byte{}, prog[r0:]...)
	prog = append(prog, "> <"...)
	prog = append(prog, lo[:len(lo)-1]...)
	prog = append(prog, "2> <3042>\nendbfrange\nendcmap"...)
	cm, err := ParseToUnicodeCMap(&core.Stream{Dict: core.Dict{}, Data: prog})
	vAssert("cmap-parses", err == nil && cm != nil)
	k := vAnyIntIn(0, 2)
	var codes []byte
	if width == 3 {
		codes = []byte{byte(h1), 0xA1, 0xA1, byte(h2), 0xB1, byte(0xB0 + k)}
	} else {
		codes = []byte{byte(h1), 0xA1, 0xA1, 0xA1, byte(h2), 0xB1, 0xB1, byte(0xB0 + k)}
	}
	f := NewFont("F1", "Helvetica", "Type1")
	f.ToUnicodeCMap = cm
	got := f.DecodeString(codes)
	vAssert("wide-codes-decode-by-the-cmap", got == "\u4e00"+string(rune(0x3042+k)))
	vReach("end")
}

// H_C07_bfrange_array_and_offset_forms: a bfrange section may mix array targets and offset targets; each entry keeps its
// own meaning - array element i for code lo+i, offset targets incremented in their last code unit - also when an offset
// target is a surrogate pair or a multi-character string.
//
//symgo:harness prop=C07 kernel=K3-tounicode-bfrange-forms
//symgo:redirect github.com/tsawler/tabula/font.NormalizeUnicode vIdentityNFC
//symgo:desc one-byte code space; one bfrange section with three entries in an enumerated order: an array entry <10> <12> [<0041> <D83DDE00> <00660066>], an offset entry <20> <22> whose target is a surrogate pair with symbolic low digits, and an offset entry <30> <31> <0066 0069> (two characters); entries on separate lines or all on one line (enumerated); with or without a preceding array-free bfrange section (enumerated): every code of every range decodes to its specified text
func H_C07_bfrange_array_and_offset_forms() {
	nl := "\n"
	if vAnyIntIn(0, 1) == 1 {
		nl = " "
	}
	var lo []byte
	lo, lov := vHex(lo, "0123456789AB", hexAny) // low surrogate DC00 + lov, lov <= 0xBF so that +2 stays inside the unit's low byte range
	entries := []string{
		"<10> <12> [<0041> <D83DDE00> <00660066>]",
		"<20> <22> <D83DDC" + string(lo) + ">",
		"<30> <31> <00660069>",
	}
	order := []int{0, 1, 2}
	for i := 0; i < 2; i++ {
		j := vAnyIntIn(i, 2)
		order[i], order[j] = order[j], order[i]
	}
	prog := "/CIDInit /ProcSet findresource begin 12 dict begin begincmap" + nl + "1 begincodespacerange" + nl + "<00> <FF>" + nl + "endcodespacerange" + nl
	if vAnyIntIn(0, 1) == 1 {
		prog += "1 beginbfrange" + nl + "<40> <42> <0061>" + nl + "endbfrange" + nl
	}
	prog += "3 beginbfrange" + nl
	for _, k := range order {
		prog += entries[k] + nl
	}
	prog += "endbfrange" + nl + "endcmap"
	cm, err := ParseToUnicodeCMap(&core.Stream{Dict: core.Dict{}, Data: []byte(prog)})
	vAssert("cmap-parses", err == nil && cm != nil)
	f := NewFont("F1", "Helvetica", "Type1")
	f.ToUnicodeCMap = cm
	vAssert("array-targets", f.DecodeString([]byte{0x10, 0x11, 0x12}) == "A\U0001F600ff")
	base := rune(0x10000 + (0x3D << 10) + rune(lov))
	for k := 0; k < 3; k++ {
		vAssert("offset-target-surrogate-pair", f.DecodeString([]byte{byte(0x20 + k)}) == string(utf8.AppendRune(nil, base+rune(k))))
	}
	vAssert("offset-target-two-characters", f.DecodeString([]byte{0x30, 0x31}) == "fifj")
	vReach("end")
}

// H_C07_output_is_nfc: whatever the font maps a code to, the text handed out is in Unicode normal form C - also for
// text that contains no combining mark (singletons, conjoining jamo, composition exclusions).
//
//symgo:harness prop=C07 kernel=K4-nfc
//symgo:desc ToUnicode CMap (one-byte codes) whose targets are, enumerated: OHM SIGN U+2126, ANGSTROM SIGN U+212B, the jamo pair U+1100 U+1161, e + COMBINING ACUTE, DEVANAGARI QA U+0958 (a composition exclusion), the Tamil pair U+0BC6 U+0BBE, or plain "A"; and the same text as a UTF-16BE string with byte-order mark through a font without ToUnicode (enumerated path); NormalizeUnicode is NOT cut here: it runs host-native on the concrete text: the decoded text equals the NFC form given by the Unicode tables (U+03A9, U+00C5, U+AC00, U+00E9, U+0915 U+093C, U+0BCA, A)
func H_C07_output_is_nfc() {
	targets := []struct{ hex, nfc string }{
		{"2126", "\u03a9"}, {"212B", "\u00c5"}, {"11001161", "\uac00"}, {"00650301", "\u00e9"},
		{"0958", "\u0915\u093c"}, {"0BC60BBE", "\u0bca"}, {"0041", "A"},
	}
	t := targets[vAnyIntIn(0, len(targets)-1)]
	f := NewFont("F1", "Helvetica", "Type1")
	var got string
	if vAnyIntIn(0, 1) == 0 {
		prog := "/CIDInit /ProcSet findresource begin 12 dict begin begincmap\n1 begincodespacerange\n<00> <FF>\nendcodespacerange\n1 beginbfchar\n<41> <" + t.hex + ">\nendbfchar\nendcmap"
		cm, err := ParseToUnicodeCMap(&core.Stream{Dict: core.Dict{}, Data: []byte(prog)})
		vAssert("cmap-parses", err == nil && cm != nil)
		f.ToUnicodeCMap = cm
		got = f.DecodeString([]byte{0x41})
	} else {
		raw := []byte{0xFE, 0xFF}
		for i := 0; i+1 < len(t.hex); i += 2 {
			raw = append(raw, byte(vHexV(t.hex[i]))<<4|byte(vHexV(t.hex[i+1])))
		}
		got = f.DecodeString(raw)
	}
	vObserveStr("decoded", got)
	vAssert("text-is-in-normal-form-c", got == t.nfc)
	vReach("end")
}

// H_C07_tounicode_precedence: a font with a ToUnicode CMap decodes by it even when the code string happens to start with
// the bytes of a UTF-16 byte-order mark, and even when an Encoding is present.
//
//symgo:harness prop=C07 kernel=K3-tounicode-precedence
//symgo:redirect github.com/tsawler/tabula/font.NormalizeUnicode vIdentityNFC
//symgo:desc one-byte code space; CMap built from a program with bfchar entries for the codes FE, FF and one symbolic code c (hex digits symbolic); code string = FE FF c or FF FE c (enumerated) or c alone; Encoding WinAnsi also set: the result is the concatenation of the ToUnicode targets
func H_C07_tounicode_precedence() {
	prog := []byte("1 begincodespacerange\n<00> <FF>\nendcodespacerange\n3 beginbfchar\n<FE> <0058>\n<FF> <0059>\n<")
	var c uint32
	prog, c = vHex(prog, "01234567", hexAny)
	prog = append(prog, "> <005A>\nendbfchar\n"...)
	cm, err := ParseToUnicodeCMap(&core.Stream{Dict: core.Dict{}, Data: prog})
	vAssert("cmap-parses", err == nil && cm != nil)
	f := NewFont("F1", "Helvetica", "Type1")
	f.Encoding = "WinAnsiEncoding"
	f.ToUnicodeCMap = cm
	var data []byte
	want := ""
	switch vAnyIntIn(0, 2) {
	case 0:
		data, want = []byte{0xFE, 0xFF, byte(c)}, "XYZ"
	case 1:
		data, want = []byte{0xFF, 0xFE, byte(c)}, "YXZ"
	default:
		data, want = []byte{byte(c)}, "Z"
	}
	vAssert("tounicode-takes-precedence", f.DecodeString(data) == want)
	vReach("end")
}

// H_C07_spec_table_entries: entries of the named encodings that the PDF specification's tables give (ISO 32000-1 Annex D)
// and that lie outside the Latin ranges compared against x/text charmaps.
//
//symgo:harness prop=C07 kernel=K1b-spec-table-entries
//symgo:desc symbolic byte c; PDFDocEncoding 0x18..0x1F = breve, caron, circumflex, dotaccent, hungarumlaut, ogonek, ring, tilde (U+02D8 02C7 02C6 02D9 02DD 02DB 02DA 02DC); SymbolEncoding 0xA0 = Euro U+20AC, 0x61..0x7A spot entries alpha, beta, gamma; ZapfDingbatsEncoding 0x80..0x8D = U+2768..U+2775 (the ornamental brackets a89..a96 of Table D.6), 0x21..0x24 = U+2701..U+2704; through GetEncoding(name).Decode and DecodeString
func H_C07_spec_table_entries() {
	c := vAnyByte()
	switch vAnyIntIn(0, 3) {
	case 0:
		vAssume(c >= 0x18 && c <= 0x1F)
		want := []rune{0x02D8, 0x02C7, 0x02C6, 0x02D9, 0x02DD, 0x02DB, 0x02DA, 0x02DC}[c-0x18]
		vAssert("pdfdoc-diacritics", GetEncoding("PDFDocEncoding").Decode(c) == want)
		vAssert("pdfdoc-diacritics-string", GetEncoding("PDFDocEncoding").DecodeString([]byte{c}) == string(want))
	case 1:
		vAssume(c == 0xA0 || c == 'a' || c == 'b' || c == 'g')
		want := rune(0x20AC)
		switch c {
		case 'a':
			want = 0x03B1
		case 'b':
			want = 0x03B2
		case 'g':
			want = 0x03B3
		}
		vAssert("symbol-entries", GetEncoding("SymbolEncoding").Decode(c) == want)
	case 2:
		vAssume(c >= 0x80 && c <= 0x8D)
		vAssert("zapfdingbats-ornamental-brackets", GetEncoding("ZapfDingbatsEncoding").Decode(c) == rune(0x2768+int(c-0x80)))
		vAssert("zapfdingbats-brackets-not-dropped", GetEncoding("ZapfDingbatsEncoding").DecodeString([]byte{c}) == string(rune(0x2768+int(c-0x80))))
	default:
		vAssume(c >= 0x21 && c <= 0x24)
		vAssert("zapfdingbats-scissors", GetEncoding("ZapfDingbatsEncoding").Decode(c) == rune(0x2701+int(c-0x21)))
	}
	vReach("end")
}
