//go:build verif_harness

package font

import "github.com/tsawler/tabula/core"

func vNoResolve(core.IndirectRef) (core.Object, error) { return core.Null{}, nil }

// vAnyObjArray: an array of n elements, each an integer (symbolic), a real (symbolic integer value), a nested array of
// 0..2 symbolic integers, or a name (kinds enumerated).
func vAnyObjArray(n int) core.Array {
	arr := core.Array{}
	for i := 0; i < n; i++ {
		switch vAnyIntIn(0, 3) {
		case 0:
			arr = append(arr, core.Int(vAnyInt()))
		case 1:
			inner := core.Array{}
			for j, m := 0, vAnyIntIn(0, 2); j < m; j++ {
				inner = append(inner, core.Int(vAnyInt()))
			}
			arr = append(arr, inner)
		case 2:
			arr = append(arr, core.Name("X"))
		default:
			arr = append(arr, core.Real(float64(vAnyIntRange(-5, 5))))
		}
	}
	return arr
}

// H_C02_cidfont_width_arrays: a CID font dictionary whose /W and /W2 arrays are truncated, mistyped or nonsensical never
// crashes font construction or width lookup.
//
//symgo:harness prop=C02 kernel=font.NewCIDFont-widths
//symgo:desc /W (or /W2, enumerated which) is an array of 0..3 (/W2: 0..4; one more in the thorough tier) elements, each a full-range symbolic integer, a small real, a nested array of 0..2 symbolic integers or a name (kinds enumerated); /DW and /DW2 present or not: NewCIDFont and GetWidthForCID(symbolic cid) return without a run-time panic
func H_C02_cidfont_width_arrays() {
	d := core.Dict{"Type": core.Name("Font"), "Subtype": core.Name("CIDFontType2"), "BaseFont": core.Name("F"),
		"CIDSystemInfo": core.Dict{"Registry": core.String("Adobe"), "Ordering": core.String("Identity"), "Supplement": core.Int(0)}}
	if vAnyIntIn(0, 1) == 0 {
		d["W"] = vAnyObjArray(vAnyIntIn(0, 3+vTier()))
	} else {
		d["W2"] = vAnyObjArray(vAnyIntIn(0, 4+vTier()))
		if vAnyIntIn(0, 1) == 1 {
			d["DW2"] = vAnyObjArray(vAnyIntIn(0, 2))
		}
	}
	f, err := NewCIDFont(d, vNoResolve)
	vAssert("malformed-width-arrays-are-not-fatal", err == nil && f != nil)
	_ = f.GetWidthForCID(vAnyInt())
	vReach("end")
}
