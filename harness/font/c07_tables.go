//go:build verif_harness

package font

import "golang.org/x/text/encoding/charmap"

// vRefTable builds a reference byte->rune table from an independent implementation (x/text charmap)
// and applies the deviations ISO 32000-1 Annex D makes from the platform code pages: codes the PDF
// encoding leaves undefined map to 0 ("unmapped").
func vRefTable(cm *charmap.Charmap, undefined []byte) [256]rune {
	var t [256]rune
	for i := 0; i < 256; i++ {
		t[i] = cm.DecodeByte(byte(i))
	}
	for _, u := range undefined {
		t[u] = 0
	}
	return t
}

// H_C07_encoding_tables: the WinAnsi and MacRoman tables agree with independent reference tables for every code.
//
//symgo:harness prop=C07 kernel=K1-encoding-tables
//symgo:desc byte b fully symbolic; reference tables generated in the harness from golang.org/x/text/encoding/charmap (Windows1252, Macintosh) with the PDF-undefined codes (WinAnsi: 7F 81 8D 8F 90 9D; MacRoman: 7F) mapped to 'unmapped'; one query per encoding decides all 256 codes; also: no printable ASCII code is unmapped and ASCII letters/digits are identity in Standard and PDFDoc encodings; GetEncoding of an unknown name falls back to WinAnsi
func H_C07_encoding_tables() {
	b := vAnyByte()
	switch vAnyIntIn(0, 3) {
	case 0:
		ref := vRefTable(charmap.Windows1252, []byte{0x7F, 0x81, 0x8D, 0x8F, 0x90, 0x9D})
		vAssert("winansi-matches-reference", GetEncoding("WinAnsiEncoding").Decode(b) == ref[b])
		vAssert("unknown-name-falls-back-to-winansi", GetEncoding("NoSuchEncoding").Decode(b) == ref[b])
	case 1:
		ref := vRefTable(charmap.Macintosh, []byte{0x7F})
		vAssert("macroman-matches-reference", GetEncoding("MacRomanEncoding").Decode(b) == ref[b])
	case 2:
		r := GetEncoding("StandardEncoding").Decode(b)
		if (b >= 'A' && b <= 'Z') || (b >= 'a' && b <= 'z') || (b >= '0' && b <= '9') {
			vAssert("standard-ascii-alnum-identity", r == rune(b))
		}
		if b == 0x27 {
			vAssert("standard-quoteright", r == 0x2019)
		}
		if b == 0x60 {
			vAssert("standard-quoteleft", r == 0x2018)
		}
	default:
		r := GetEncoding("PDFDocEncoding").Decode(b)
		if b >= 0x20 && b <= 0x7E {
			vAssert("pdfdoc-ascii-identity", r == rune(b))
		}
	}
	vReach("end")
}
