//go:build verif_harness

package rag

func vCountHashes(s string) (int, bool) { // leading '#' count and whether a space follows
	n := 0
	for n < len(s) && s[n] == '#' {
		n++
	}
	return n, n < len(s) && s[n] == ' '
}

// H_C15_chunk_heading_level: a chunk's section heading is an ATX heading whose level is the source level shifted by the
// offset and capped at the maximum, never below 1 or above 6.
//
//symgo:harness prop=C15 kernel=K2-chunk-heading
//symgo:desc source heading level symbolic in [0,9] (0 = unset, rendered as 2), HeadingLevelOffset symbolic in [-2,7], MaxHeadingLevel symbolic in [0,6] (0 = no configured maximum): the emitted line starts with exactly clamp(level+offset, 1, min(max or 6, 6)) '#' characters followed by a space and the title
func H_C15_chunk_heading_level() {
	level := vAnyIntRange(0, 9)
	off := vAnyIntRange(-2, 7)
	max := vAnyIntRange(0, 6)
	c := &Chunk{ID: "c1", Text: "Body text.", Metadata: ChunkMetadata{SectionTitle: "Title", HeadingLevel: level}}
	opts := DefaultMarkdownOptions()
	opts.HeadingLevelOffset, opts.MaxHeadingLevel = off, max
	md := c.ToMarkdownWithOptions(opts)
	src := level
	if src == 0 {
		src = 2
	}
	want := src + off
	if want < 1 {
		want = 1
	}
	limit := 6
	if max > 0 && max < 6 {
		limit = max
	}
	if want > limit {
		want = limit
	}
	n, sp := vCountHashes(md)
	vAssert("atx-heading-level", n == want)
	vAssert("space-after-hashes", sp)
	vAssert("title-follows", len(md) >= n+6 && md[n+1:n+6] == "Title")
	vReach("end")
}

// H_C15_collection_headings: a collection's Markdown has one heading per section change - also when a later section
// reuses the title of an earlier one - with the level of that section.
//
//symgo:harness prop=C15 kernel=K2b-collection-headings
//symgo:desc collection of 3..4 chunks whose section titles are drawn from {"Chapter One", "Summary", "Chapter Two"} (enumerated per chunk, repeats allowed, levels 1 for chapters and 2 for Summary); ToMarkdownWithOptions without front matter or table of contents: the sequence of ATX heading lines equals the sequence of section changes (a title equal to the previous chunk's is not repeated; a title seen earlier but not adjacent is written again), each with its level, and every chunk's text appears
func H_C15_collection_headings() {
	titles := []string{"Chapter One", "Summary", "Chapter Two"}
	levels := []int{1, 2, 1}
	n := vAnyIntIn(3, 4)
	cc := &ChunkCollection{}
	var want []string
	prev := ""
	for i := 0; i < n; i++ {
		k := vAnyIntIn(0, 2)
		cc.Chunks = append(cc.Chunks, &Chunk{ID: "c" + string(rune('0'+i)), Text: "Body" + string(rune('A'+i)) + " text.",
			Metadata: ChunkMetadata{SectionTitle: titles[k], HeadingLevel: levels[k], ChunkIndex: i}})
		if titles[k] != prev {
			want = append(want, repeatHash(levels[k])+" "+titles[k])
			prev = titles[k]
		}
	}
	opts := DefaultMarkdownOptions()
	opts.IncludeMetadata, opts.IncludeTableOfContents = false, false
	md := cc.ToMarkdownWithOptions(opts)
	var got []string
	start := 0
	for i := 0; i <= len(md); i++ {
		if i == len(md) || md[i] == '\n' {
			if i > start && md[start] == '#' {
				got = append(got, md[start:i])
			}
			start = i + 1
		}
	}
	vAssert("one-heading-per-section-change", len(got) == len(want))
	for i := range want {
		vAssert("heading-text-and-level", i < len(got) && got[i] == want[i])
	}
	for i := 0; i < n; i++ {
		vAssert("chunk-text-present", vContains(md, "Body"+string(rune('A'+i))+" text."))
	}
	vReach("end")
}

func repeatHash(n int) string {
	s := ""
	for i := 0; i < n; i++ {
		s += "#"
	}
	return s
}

func vContains(s, sub string) bool {
	for i := 0; i+len(sub) <= len(s); i++ {
		if s[i:i+len(sub)] == sub {
			return true
		}
	}
	return false
}
