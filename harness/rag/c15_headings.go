//go:build verif_harness

package rag

func vCountHashes(s string) (int, bool) { // leading '#' count and whether a space follows
	n := 0
	for n < len(s) && s[n] == '#' {
		n++
	}
	return n, n < len(s) && s[n] == ' '
}

// H_C15_chunk_heading_level: a chunk's section heading is an ATX heading whose level is the source level shifted by the
// offset and capped at the maximum, never below 1 or above 6.
//
//symgo:harness prop=C15 kernel=K2-chunk-heading
//symgo:desc source heading level symbolic in [0,9] (0 = unset, rendered as 2), HeadingLevelOffset symbolic in [-2,7], MaxHeadingLevel symbolic in [0,6] (0 = no configured maximum): the emitted line starts with exactly clamp(level+offset, 1, min(max or 6, 6)) '#' characters followed by a space and the title
func H_C15_chunk_heading_level() {
	level := vAnyIntRange(0, 9)
	off := vAnyIntRange(-2, 7)
	max := vAnyIntRange(0, 6)
	c := &Chunk{ID: "c1", Text: "Body text.", Metadata: ChunkMetadata{SectionTitle: "Title", HeadingLevel: level}}
	opts := DefaultMarkdownOptions()
	opts.HeadingLevelOffset, opts.MaxHeadingLevel = off, max
	md := c.ToMarkdownWithOptions(opts)
	src := level
	if src == 0 {
		src = 2
	}
	want := src + off
	if want < 1 {
		want = 1
	}
	limit := 6
	if max > 0 && max < 6 {
		limit = max
	}
	if want > limit {
		want = limit
	}
	n, sp := vCountHashes(md)
	vAssert("atx-heading-level", n == want)
	vAssert("space-after-hashes", sp)
	vAssert("title-follows", len(md) >= n+6 && md[n+1:n+6] == "Title")
	vReach("end")
}
