//go:build verif_harness

package rag

import "unicode/utf8"

// H_C13_overlap: overlap text is a suffix of the chunk's own content (whitespace aside), is valid UTF-8
// and does not exceed the configured maximum.
//
//symgo:harness prop=C13 kernel=K3-overlap loop=256
//symgo:desc chunk of 1..4 quick / 1..5 thorough characters (symbolic byte from {a, space, '.', newline} or concrete 2/3/4-byte character); strategy in {character, sentence, paragraph}, Size 1..3, PreserveWords symbolic, MinOverlap 0, MaxOverlap 2..5 (all enumerated)
func H_C13_overlap() {
	maxK := 4
	if vTier() > 0 {
		maxK = 5
	}
	k := vAnyIntIn(1, maxK)
	text := vBuildText(k, "a .\n", true)
	cfg := OverlapConfig{Strategy: OverlapStrategy(vAnyIntIn(1, 3)), Size: vAnyIntIn(1, 3), MinOverlap: 0, MaxOverlap: vAnyIntIn(2, 5), PreserveWords: vAnyIntIn(0, 1) == 1}
	res := NewOverlapGeneratorWithConfig(cfg).GenerateOverlap(text)
	vAssert("result", res != nil)
	ov := res.Text
	vAssert("overlap-is-valid-utf8", utf8.ValidString(ov))
	vAssert("overlap-within-max", len(ov) <= cfg.MaxOverlap)
	a, b := vNonWS(ov), vNonWS(text)
	vAssert("overlap-not-longer-than-chunk", len(a) <= len(b))
	for i := range a {
		vAssert("overlap-is-suffix-of-chunk", a[i] == b[len(b)-len(a)+i])
	}
	vReach("end")
}
