//go:build verif_harness

package rag

import "unicode/utf8"

// H_C13_overlap: overlap text is a suffix of the chunk's own content (whitespace aside), is valid UTF-8
// and does not exceed the configured maximum.
//
//symgo:harness prop=C13 kernel=K3-overlap loop=256
//symgo:desc chunk of 1..4 quick / 1..5 thorough characters (symbolic byte from {a, space, '.', newline} or concrete 2/3/4-byte character); strategy in {character, sentence, paragraph}, Size 1..3, PreserveWords symbolic, MinOverlap 0, MaxOverlap 2..5 (all enumerated)
func H_C13_overlap() {
	maxK := 4
	if vTier() > 0 {
		maxK = 5
	}
	k := vAnyIntIn(1, maxK)
	text := vBuildText(k, "a .\n", true)
	cfg := OverlapConfig{Strategy: OverlapStrategy(vAnyIntIn(1, 3)), Size: vAnyIntIn(1, 3), MinOverlap: 0, MaxOverlap: vAnyIntIn(2, 5), PreserveWords: vAnyIntIn(0, 1) == 1}
	res := NewOverlapGeneratorWithConfig(cfg).GenerateOverlap(text)
	vAssert("result", res != nil)
	ov := res.Text
	vAssert("overlap-is-valid-utf8", utf8.ValidString(ov))
	vAssert("overlap-within-max", len(ov) <= cfg.MaxOverlap)
	a, b := vNonWS(ov), vNonWS(text)
	vAssert("overlap-not-longer-than-chunk", len(a) <= len(b))
	for i := range a {
		vAssert("overlap-is-suffix-of-chunk", a[i] == b[len(b)-len(a)+i])
	}
	vReach("end")
}

// H_C13_overlap_truncation_keeps_suffix: when the overlap has to be cut down to MaxOverlap, what remains is still the
// end of the chunk, with its sentences in their original order.
//
//symgo:harness prop=C13 kernel=K3-overlap-truncation loop=256
//symgo:desc chunk = three sentences "Xa bb. Yc dd. Ze ff." whose capitals X, Y, Z are symbolic over {A, B, C}; sentence or paragraph strategy (enumerated), Size 3, MaxOverlap enumerated 2..19 (so that zero, one or two whole sentences survive truncation): the overlap (whitespace aside) is a suffix of the chunk and has at most MaxOverlap bytes
func H_C13_overlap_truncation_keeps_suffix() {
	// (single letters followed by a period are read as initials, not sentences: two-word sentences)
	x, y, z := vAnyByteOf("ABC"), vAnyByteOf("ABC"), vAnyByteOf("ABC")
	text := string([]byte{x, 'a', ' ', 'b', 'b', '.', ' ', y, 'c', ' ', 'd', 'd', '.', ' ', z, 'e', ' ', 'f', 'f', '.'})
	cfg := OverlapConfig{Strategy: OverlapStrategy(vAnyIntIn(2, 3)), Size: 3, MinOverlap: 0, MaxOverlap: vAnyIntIn(2, 19), PreserveWords: true}
	res := NewOverlapGeneratorWithConfig(cfg).GenerateOverlap(text)
	vAssert("result", res != nil)
	ov := res.Text
	vAssert("overlap-within-max", len(ov) <= cfg.MaxOverlap)
	a, b := vNonWS(ov), vNonWS(text)
	vAssert("overlap-not-longer-than-chunk", len(a) <= len(b))
	for i := range a {
		vAssert("overlap-is-suffix-of-chunk", a[i] == b[len(b)-len(a)+i])
	}
	vReach("end")
}

// H_C13_overlap_across_three_chunks: the overlap a chunk receives comes from the previous chunk's OWN content, also
// when that chunk is shorter than the overlap size and has itself received an overlap.
//
//symgo:harness prop=C13 kernel=K3-overlap-chain loop=512
//symgo:desc three chunks: "Xaa bbb ccc ddd eee." / a middle chunk of 1 or 3 words (enumerated; shorter than the overlap size) / "Zaa bbb."; capitals symbolic over {A, B}; ApplyOverlapToChunks with the character strategy (Size 12, words preserved) or the sentence strategy (Size 2) (enumerated), MaxOverlap 40: for every chunk i > 0 the overlap prefix (whitespace aside) is a suffix of chunk i-1's own text as it was before any overlap was added, and chunk 0's text is unchanged
func H_C13_overlap_across_three_chunks() {
	x, z := vAnyByteOf("AB"), vAnyByteOf("AB")
	own := []string{string([]byte{x}) + "aa bbb ccc ddd eee.", "Mid.", string([]byte{z}) + "aa bbb."}
	if vAnyIntIn(0, 1) == 1 {
		own[1] = "Mid one two."
	}
	cfg := OverlapConfig{Strategy: OverlapCharacter, Size: 12, MinOverlap: 0, MaxOverlap: 40, PreserveWords: true}
	if vAnyIntIn(0, 1) == 1 {
		cfg.Strategy, cfg.Size = OverlapSentence, 2
	}
	chunks := make([]*Chunk, len(own))
	for i, t := range own {
		chunks[i] = NewChunk("c"+string(rune('0'+i)), t, ChunkMetadata{ChunkIndex: i})
	}
	res := ApplyOverlapToChunks(chunks, cfg)
	vAssert("one-result-per-chunk", len(res) == len(own))
	vAssert("first-chunk-unchanged", res[0].Chunk.Text == own[0])
	for i := 1; i < len(res); i++ {
		a, b := vNonWS(res[i].OverlapPrefix), vNonWS(own[i-1])
		vAssert("overlap-not-longer-than-previous-chunk", len(a) <= len(b))
		for k := range a {
			vAssert("overlap-is-suffix-of-previous-chunks-own-text", k < len(a) && len(b)-len(a)+k >= 0 && a[k] == b[len(b)-len(a)+k])
		}
	}
	vReach("end")
}
