//go:build verif_harness

package rag

import (
	"encoding/csv"
	"strconv"
	"strings"
)

const vCSVAlphabet = ",\t\"\r\n\x00a\xc3\xa9;"

func vCRLFNorm(s string) string { // an RFC 4180 reader reports CRLF inside a quoted field as LF
	return strings.ReplaceAll(s, "\r\n", "\n")
}

// H_C14_csv_roundtrip: CSV and TSV exports parse back, with a standard CSV reader, to one record per chunk in order with the same id and text.
//
//symgo:harness prop=C14 kernel=K1-csv-tsv
//symgo:desc 1..2 chunks; format CSV (CSVExportConfig), TSV (TSVExportConfig) or TSV chosen by setting Format on DefaultExportConfig, header row on/off (enumerated); one cell (the text or the id of chunk 0, enumerated) holds 0..2 quick / 0..3 thorough symbolic bytes over {comma, tab, quote, CR, LF, NUL, 'a', 0xC3, 0xA9, ';'}, the other cells concrete adversarial strings; read back by the interpreted encoding/csv.Reader with the same delimiter (LazyQuotes off): record count, header = column list, id and text cells equal (CRLF->LF inside quoted fields allowed), and the chunk_index / page_start / page_end cells are the chunk's own metadata values (which differ from its position in the exported slice)
func H_C14_csv_roundtrip() {
	maxN := 2
	if vTier() > 0 {
		maxN = 3
	}
	n := vAnyIntIn(1, 2)
	cfg := CSVExportConfig()
	delim := ','
	switch vAnyIntIn(0, 2) {
	case 1:
		cfg = TSVExportConfig()
		delim = '\t'
	case 2:
		// the TSV format chosen on the default configuration, as its Format field invites
		cfg = DefaultExportConfig()
		cfg.Format = ExportFormatTSV
		delim = '\t'
	}
	cfg.IncludeHeader = vAnyIntIn(0, 1) == 1
	cfg.IncludeMetadata = false
	sym := vAnyStringOf(vAnyIntIn(0, maxN), vCSVAlphabet)
	which := vAnyIntIn(0, 1)
	chunks := make([]*Chunk, n)
	for i := range chunks {
		// the chunk's own index and page span are not its position in the exported slice (filtered or batched collections)
		idx := 10*(i+1) + vAnyIntIn(0, 1)
		if i == 1 && vAnyIntIn(0, 1) == 1 {
			idx = 0 // the first chunk of a second document in a combined collection: index 0 at position 1
		}
		chunks[i] = &Chunk{ID: "id" + string(rune('0'+i)), Text: "t,\"x\"\n" + string(rune('0'+i)),
			Metadata: ChunkMetadata{ChunkIndex: idx, PageStart: 3 + i, PageEnd: 4 + 2*i, SectionTitle: "s\t1"}}
	}
	if which == 0 {
		chunks[0].Text = sym
	} else {
		chunks[0].ID = sym
	}
	out, err := NewExporterWithConfig(cfg).ExportToString(chunks)
	vAssert("export-no-error", err == nil)
	rd := csv.NewReader(strings.NewReader(out))
	rd.Comma = delim
	rd.FieldsPerRecord = -1
	recs, rerr := rd.ReadAll()
	vAssert("well-formed-csv", rerr == nil)
	first := 0
	if cfg.IncludeHeader {
		vAssert("has-header-record", len(recs) >= 1 && len(recs[0]) >= 2 && recs[0][0] == cfg.ChunkIDColumnName && recs[0][1] == cfg.TextColumnName)
		first = 1
	}
	vAssert("one-record-per-chunk", len(recs) == first+n)
	for i := 0; i < n; i++ {
		rec := recs[first+i]
		vAssert("record-width", len(rec) >= 2)
		vAssert("id-cell", rec[0] == vCRLFNorm(chunks[i].ID))
		vAssert("text-cell", rec[1] == vCRLFNorm(chunks[i].Text))
		vAssert("positional-columns-present", len(rec) >= 6)
		vAssert("chunk-index-cell-is-the-chunks-own-index", rec[2] == strconv.Itoa(chunks[i].Metadata.ChunkIndex))
		vAssert("page-start-cell", rec[4] == strconv.Itoa(chunks[i].Metadata.PageStart))
		vAssert("page-end-cell", rec[5] == strconv.Itoa(chunks[i].Metadata.PageEnd))
	}
	if cfg.IncludeHeader {
		vAssert("positional-header-names", len(recs[0]) >= 6 && recs[0][2] == "chunk_index" && recs[0][4] == "page_start" && recs[0][5] == "page_end")
	}
	vReach("end")
}

// H_C14_batches_cover_once: batch export delivers every chunk exactly once, in order, for every batch size; a batch size
// that cannot make progress is refused instead of looping.
//
//symgo:harness prop=C14 kernel=K2-batching hang=1 loop=64
//symgo:desc 0..4 chunks, batch size symbolic in [-1,5]; CSV format; callback records (start, end, count): batches are contiguous, ordered and cover 0..n-1 exactly once, each batch's data has one row per chunk; batch size < 1 returns an error (loop bound 64 as unwinding assertion)
func H_C14_batches_cover_once() {
	n := vAnyIntIn(0, 4)
	size := vAnyIntRange(-1, 5)
	chunks := make([]*Chunk, n)
	for i := range chunks {
		chunks[i] = &Chunk{ID: "id" + string(rune('0'+i)), Text: "text", Metadata: ChunkMetadata{ChunkIndex: i}}
	}
	cfg := CSVExportConfig()
	cfg.IncludeHeader = false
	cfg.IncludeMetadata = false
	next := 0
	ok := true
	err := NewBatchExporterWithConfig(size, cfg).Export(chunks, func(b ExportBatch) error {
		if b.StartIndex != next || b.EndIndex <= b.StartIndex || b.ChunkCount != b.EndIndex-b.StartIndex {
			ok = false
		}
		if strings.Count(b.Data, "\n") != b.ChunkCount {
			ok = false
		}
		for k := b.StartIndex; k < b.EndIndex && k < n; k++ {
			if !strings.Contains(b.Data, chunks[k].ID) {
				ok = false
			}
		}
		next = b.EndIndex
		return nil
	})
	if size < 1 {
		vAssert("non-positive-batch-size-is-refused", err != nil)
	} else {
		vAssert("no-error", err == nil)
		vAssert("batches-contiguous-and-complete", ok && next == n)
	}
	vReach("end")
}

// H_C14_filters_exact: filtering returns exactly the chunks that satisfy the predicate, in order; chains compose as conjunction.
//
//symgo:harness prop=C14 kernel=K3-filters
//symgo:desc 0..3 quick / 0..4 thorough chunks with symbolic page numbers in [1,3], symbolic has-table flags and section A/B (enumerated); Filter(pred) with an arbitrary symbolic predicate vector, FilterByPage(p), FilterWithTables, FilterBySection and the chain FilterByPage(p).FilterWithTables(): result = the satisfying chunks in original order
func H_C14_filters_exact() {
	n := vAnyIntIn(0, 3+vTier())
	cc := &ChunkCollection{}
	pred := make([]bool, n)
	for i := 0; i < n; i++ {
		pg := vAnyIntRange(1, 3)
		sec := "A"
		if vAnyIntIn(0, 1) == 1 {
			sec = "B"
		}
		c := &Chunk{ID: "id" + string(rune('0'+i)), Text: "t", Metadata: ChunkMetadata{ChunkIndex: i, PageStart: pg, PageEnd: pg, HasTable: vAnyBool(), SectionTitle: sec, SectionPath: []string{sec}}}
		cc.Chunks = append(cc.Chunks, c)
		pred[i] = vAnyBool()
	}
	check := func(label string, got *ChunkCollection, want func(i int) bool) {
		k := 0
		for i := 0; i < n; i++ {
			if want(i) {
				vAssert(label+"-contains-in-order", k < len(got.Chunks) && got.Chunks[k] == cc.Chunks[i])
				k++
			}
		}
		vAssert(label+"-nothing-else", k == len(got.Chunks))
	}
	check("predicate", cc.Filter(func(c *Chunk) bool { return pred[c.Metadata.ChunkIndex] }), func(i int) bool { return pred[i] })
	p := vAnyIntRange(1, 3)
	check("by-page", cc.FilterByPage(p), func(i int) bool { return cc.Chunks[i].Metadata.PageStart == p })
	check("with-tables", cc.FilterWithTables(), func(i int) bool { return cc.Chunks[i].Metadata.HasTable })
	check("by-section", cc.FilterBySection("A"), func(i int) bool { return cc.Chunks[i].Metadata.SectionTitle == "A" })
	check("chain", cc.FilterByPage(p).FilterWithTables(), func(i int) bool {
		return cc.Chunks[i].Metadata.PageStart == p && cc.Chunks[i].Metadata.HasTable
	})
	vReach("end")
}

// H_C14_batch_metadata_columns: every batch is a self-contained CSV whose header covers the metadata of its own chunks.
//
//symgo:harness prop=C14 kernel=K2-batch-metadata
//symgo:desc 2..3 chunks, batch size 1..2 (enumerated), CSV with header and flattened metadata; which chunks carry a ParentID / WordCount is symbolic: each batch's header has a meta_parent_id (meta_word_count) column iff one of its own chunks has that field, and the chunk's row holds the value
func H_C14_batch_metadata_columns() {
	n := vAnyIntIn(2, 3)
	size := vAnyIntIn(1, 2)
	chunks := make([]*Chunk, n)
	hasParent := make([]bool, n)
	for i := range chunks {
		chunks[i] = &Chunk{ID: "id" + string(rune('0'+i)), Text: "text", Metadata: ChunkMetadata{ChunkIndex: i}}
		if vAnyBool() {
			hasParent[i] = true
			chunks[i].Metadata.ParentID = "parent" + string(rune('0'+i))
		}
	}
	cfg := CSVExportConfig()
	cfg.IncludeHeader = true
	cfg.IncludeMetadata = true
	ok := true
	err := NewBatchExporterWithConfig(size, cfg).Export(chunks, func(b ExportBatch) error {
		lines := strings.Split(strings.TrimRight(b.Data, "\n"), "\n")
		want := false
		for k := b.StartIndex; k < b.EndIndex; k++ {
			if hasParent[k] {
				want = true
				if !strings.Contains(b.Data, chunks[k].Metadata.ParentID) {
					ok = false
				}
			}
		}
		if strings.Contains(lines[0], "meta_parent_id") != want {
			ok = false
		}
		return nil
	})
	vAssert("no-error", err == nil)
	vAssert("batch-header-covers-its-own-metadata", ok)
	vReach("end")
}

// H_C14_page_range_filter: FilterByPageRange is a pure selection.
//
//symgo:harness prop=C14 kernel=K3-page-range-filter
//symgo:desc 1..3 chunks whose PageStart and PageEnd are independent symbolic integers in [0,4] (also PageEnd < PageStart, as left by an unset end page); query range symbolic in [0,5]: the result holds exactly the chunks with PageEnd >= start and PageStart <= end, in order
func H_C14_page_range_filter() {
	n := vAnyIntIn(1, 3)
	cc := &ChunkCollection{}
	for i := 0; i < n; i++ {
		ps, pe := vAnyIntRange(0, 4), vAnyIntRange(0, 4)
		cc.Chunks = append(cc.Chunks, &Chunk{ID: "id" + string(rune('0'+i)), Metadata: ChunkMetadata{ChunkIndex: i, PageStart: ps, PageEnd: pe}})
	}
	a, b := vAnyIntRange(0, 5), vAnyIntRange(0, 5)
	got := cc.FilterByPageRange(a, b)
	k := 0
	for i := 0; i < n; i++ {
		c := cc.Chunks[i]
		if c.Metadata.PageEnd >= a && c.Metadata.PageStart <= b {
			vAssert("selected-chunk-present-in-order", k < len(got.Chunks) && got.Chunks[k] == c)
			k++
		}
	}
	vAssert("nothing-else", k == len(got.Chunks))
	vReach("end")
}

// H_C14_csv_metadata_cells: every metadata column of a CSV/TSV export holds, in each row, the value of that chunk's
// metadata field - the header is not enough, the cells must parse back too.
//
//symgo:harness prop=C14 kernel=K1-csv-metadata-cells
//symgo:desc 1..2 chunks carrying TotalChunks, EstimatedTokens, ElementTypes, ParentID, WordCount, CharCount and HeadingLevel (the second chunk with different values; which of ParentID / ElementTypes the first chunk has is enumerated); CSV or TSV with header and metadata, read back by the interpreted encoding/csv.Reader: for every column meta_<key> of the header the row's cell equals the chunk's value for that key (numbers in decimal; the element-type list names every type) and is empty only if the chunk lacks the field
func H_C14_csv_metadata_cells() {
	n := vAnyIntIn(1, 2)
	cfg := CSVExportConfig()
	delim := ','
	if vAnyIntIn(0, 1) == 1 {
		cfg = TSVExportConfig()
		delim = '\t'
	}
	cfg.IncludeHeader = true
	cfg.IncludeMetadata = true
	withParent, withTypes := vAnyIntIn(0, 1) == 1, vAnyIntIn(0, 1) == 1
	chunks := make([]*Chunk, n)
	want := make([]map[string]string, n)
	for i := range chunks {
		md := ChunkMetadata{ChunkIndex: 3 + i, TotalChunks: 7 + i, EstimatedTokens: 9 + i, WordCount: 3 + i, CharCount: 11 + i, HeadingLevel: 2}
		w := map[string]string{"meta_total_chunks": strconv.Itoa(7 + i), "meta_estimated_tokens": strconv.Itoa(9 + i), "meta_word_count": strconv.Itoa(3 + i),
			"meta_char_count": strconv.Itoa(11 + i), "meta_heading_level": "2"}
		if i > 0 || withParent {
			md.ParentID = "par" + string(rune('0'+i))
			w["meta_parent_id"] = md.ParentID
		}
		if i > 0 || withTypes {
			md.ElementTypes = []string{"paragraph", "table"}
			w["meta_element_types"] = "*types*"
		}
		chunks[i] = &Chunk{ID: "id" + string(rune('0'+i)), Text: "text " + string(rune('0'+i)), Metadata: md}
		want[i] = w
	}
	out, err := NewExporterWithConfig(cfg).ExportToString(chunks)
	vAssert("export-no-error", err == nil)
	rd := csv.NewReader(strings.NewReader(out))
	rd.Comma = delim
	rd.FieldsPerRecord = -1
	recs, rerr := rd.ReadAll()
	vAssert("well-formed", rerr == nil && len(recs) == n+1)
	header := recs[0]
	seen := map[string]bool{}
	for c, col := range header {
		seen[col] = true
		for i := 0; i < n; i++ {
			vAssert("row-as-wide-as-header", c < len(recs[i+1]))
			cell := recs[i+1][c]
			exp, has := want[i][col]
			switch {
			case !has:
				// a column this harness does not set expectations for, or a field this chunk lacks
				if col == "meta_parent_id" || col == "meta_element_types" {
					vAssert("cell-empty-when-chunk-lacks-the-field", cell == "")
				}
			case exp == "*types*":
				vAssert("element-types-cell-names-every-type", strings.Contains(cell, "paragraph") && strings.Contains(cell, "table"))
			default:
				vAssert("metadata-cell-is-the-chunks-value", cell == exp)
			}
		}
	}
	for i := 0; i < n; i++ {
		for col := range want[i] {
			vAssert("header-has-a-column-for-every-field", seen[col])
		}
	}
	vReach("end")
}
