//go:build verif_harness

package rag

import "unicode/utf8"

// vBuildText builds a valid UTF-8 text of k characters: each is a symbolic ASCII byte from set,
// or one of the concrete multi-byte characters (2, 3 and 4 bytes; the 3-byte ones contain the bytes 0xA0 / 0x85, which are spaces when a single byte is misread as a rune).
func vBuildText(k int, set string, multi bool) string {
	var b []byte
	for i := 0; i < k; i++ {
		kind := 0
		if multi {
			kind = vAnyIntIn(0, 3+vTier())
		}
		switch kind {
		case 0:
			b = append(b, vAnyByteOf(set))
		case 1:
			b = append(b, "é"...)
		case 2:
			b = append(b, "校"...) // E6 A0 A1: its continuation byte 0xA0 is U+00A0 (a space) when read as a rune
		case 3:
			b = append(b, "😀"...)
		default:
			b = append(b, "元"...) // E5 85 83: continuation byte 0x85 is U+0085 (NEL, a space) as a rune
		}
	}
	return string(b)
}

func vIsWS(c byte) bool { return c == ' ' || c == '\n' || c == '\t' || c == '\r' }

// vNonWS returns the non-whitespace bytes of s in order.
func vNonWS(s string) []byte {
	var out []byte
	for i := 0; i < len(s); i++ {
		if !vIsWS(s[i]) {
			out = append(out, s[i])
		}
	}
	return out
}

func vCheckPieces(text string, pieces []string) {
	var cat []byte
	for _, p := range pieces {
		vAssert("piece-is-valid-utf8", utf8.ValidString(p))
		cat = append(cat, vNonWS(p)...)
	}
	want := vNonWS(text)
	vAssert("conservation-length", len(cat) == len(want))
	for i := range want {
		vAssert("conservation-bytes", cat[i] == want[i])
	}
}

// H_C13_split_small_limits: splitting terminates, conserves the non-whitespace characters in order and never cuts
// a multi-byte character, for limits down to 1 in characters and tokens.
//
//symgo:harness prop=C13 kernel=K1-chars-tokens loop=64
//symgo:desc text of 1..4 quick / 1..5 thorough characters, each a symbolic byte from {a, space, '.', newline} or a concrete 2-, 3- or 4-byte character (enumerated); Max = 1..4 characters or 1..2 tokens (enumerated), hard; loops bounded at 64 iterations (unwinding assertion)
func H_C13_split_small_limits() {
	maxK := 4
	if vTier() > 0 {
		maxK = 5
	}
	k := vAnyIntIn(1, maxK)
	text := vBuildText(k, "a .\n", true)
	cfg := DefaultSizeConfig()
	if vAnyIntIn(0, 1) == 0 {
		cfg.Max = SizeLimit{Value: vAnyIntIn(1, 4), Unit: SizeUnitCharacters, Type: LimitTypeHard}
	} else {
		cfg.Max = SizeLimit{Value: vAnyIntIn(1, 2), Unit: SizeUnitTokens, Type: LimitTypeHard}
	}
	pieces := NewSizeCalculatorWithConfig(cfg).SplitToSize(text, nil)
	vCheckPieces(text, pieces)
	vReach("end")
}

// H_C13_split_other_units: the same for word, sentence and paragraph limits (termination, conservation, UTF-8 only).
//
//symgo:harness prop=C13 kernel=K1-words-sentences-paragraphs loop=64
//symgo:desc text of 1..3 quick / 1..4 thorough characters as above; Max = 1 word / sentence / paragraph (enumerated unit)
func H_C13_split_other_units() {
	maxK := 3
	if vTier() > 0 {
		maxK = 4
	}
	k := vAnyIntIn(1, maxK)
	text := vBuildText(k, "a .\n", true)
	cfg := DefaultSizeConfig()
	cfg.Max = SizeLimit{Value: 1, Unit: SizeUnit(vAnyIntIn(2, 4)), Type: LimitTypeHard}
	pieces := NewSizeCalculatorWithConfig(cfg).SplitToSize(text, nil)
	vCheckPieces(text, pieces)
	vReach("end")
}

// vHavocCount replaces the word/sentence/paragraph counters where the unit under test is characters or
// tokens: GetSize computes all five metrics and discards four. The stub returns an arbitrary non-negative
// count, a superset of the real behaviours (a havoc, not a model).
func vHavocCount(text string) int {
	n := vAnyInt()
	vAssume(n >= 0)
	return n
}

// H_C13_hard_max: with a hard maximum in characters or tokens and a space at least every 50 bytes,
// no piece exceeds the maximum.
//
//symgo:harness prop=C13 kernel=K2-hard-max loop=2000 steps=50000000 tiers=quick,thorough
//symgo:redirect github.com/tsawler/tabula/rag.countWords vHavocCount
//symgo:redirect github.com/tsawler/tabula/rag.countSentences vHavocCount
//symgo:redirect github.com/tsawler/tabula/rag.countParagraphs vHavocCount
//symgo:desc text of 260 quick / 420 thorough bytes: every 50th byte is a space; bytes at i%25==24 symbolic over {a, space}; all others symbolic over {a, '.'} (quick) or {a, '.', newline} (thorough); word/sentence/paragraph counters havoc'd; Max = 200 characters, 50 tokens at TokensPerChar 0.25, 100 tokens at TokensPerChar 0.5, or 50 tokens with TokensPerChar left 0 = default (enumerated), hard: every piece has at most 200 bytes / 50 estimated tokens
func H_C13_hard_max() {
	n := 260
	if vTier() > 0 {
		n = 420
	}
	b := make([]byte, n)
	for i := range b {
		switch {
		case i%50 == 49:
			b[i] = ' '
		case i%25 == 24:
			b[i] = vAnyByteOf("a ")
		case vTier() > 0:
			b[i] = vAnyByteOf("a.\n")
		default:
			b[i] = vAnyByteOf("a.")
		}
	}
	text := string(b)
	cfg := DefaultSizeConfig()
	tokens := vAnyIntIn(0, 1) == 1
	if tokens {
		cfg.Max = SizeLimit{Value: 50, Unit: SizeUnitTokens, Type: LimitTypeHard}
		switch vAnyIntIn(0, 2) {
		case 1:
			// a denser token estimate (2 bytes per token): the same 200-byte ceiling, spelled as 100 tokens
			cfg.TokensPerChar = 0.5
			cfg.Max.Value = 100
		case 2:
			// a configuration written as a literal leaves the ratio unset: the documented default 0.25 applies
			cfg.TokensPerChar = 0
		}
	} else {
		cfg.Max = SizeLimit{Value: 200, Unit: SizeUnitCharacters, Type: LimitTypeHard}
	}
	sc := NewSizeCalculatorWithConfig(cfg)
	pieces := sc.SplitToSize(text, nil)
	for _, p := range pieces {
		if tokens {
			vAssert("within-hard-max-tokens", sc.EstimateTokens(p) <= cfg.Max.Value)
		} else {
			vAssert("within-hard-max-characters", len(p) <= 200)
		}
	}
	vReach("end")
}

// H_C13_hard_max_multibyte: the fall-back that enforces a hard maximum (last break at or before the limit) never cuts
// inside a multi-byte character, in particular not after a continuation byte that looks like a space when read alone.
//
//symgo:harness prop=C13 kernel=K2-hard-max-multibyte loop=2000 steps=50000000
//symgo:redirect github.com/tsawler/tabula/rag.countWords vHavocCount
//symgo:redirect github.com/tsawler/tabula/rag.countSentences vHavocCount
//symgo:redirect github.com/tsawler/tabula/rag.countParagraphs vHavocCount
//symgo:desc 260-byte text of 4-letter ASCII words (the five word gaps before the insertion point symbolic over {a, space}) into which the characters U+5B66 U+6821 U+5143 (continuation bytes 0xA0 and 0x85, which read alone are NBSP/NEL) are inserted at an offset enumerated over 180..200, followed by "abc. "; hard Max of 200 characters or 50 tokens: every piece is valid UTF-8 and the pieces conserve the non-whitespace bytes in order
func H_C13_hard_max_multibyte() {
	off := vAnyIntIn(180, 200)
	var b []byte
	for i := 0; len(b) < 260; i++ {
		if len(b) == off {
			b = append(b, "学校元abc. "...)
			continue
		}
		switch {
		case i%50 == 49:
			b = append(b, ' ')
		case i%5 == 4 && len(b) < off && len(b) >= off-25:
			b = append(b, vAnyByteOf("a "))
		case i%5 == 4:
			b = append(b, ' ')
		default:
			b = append(b, 'a')
		}
	}
	text := string(b)
	cfg := DefaultSizeConfig()
	if vAnyIntIn(0, 1) == 1 {
		cfg.Max = SizeLimit{Value: 50, Unit: SizeUnitTokens, Type: LimitTypeHard}
	} else {
		cfg.Max = SizeLimit{Value: 200, Unit: SizeUnitCharacters, Type: LimitTypeHard}
	}
	pieces := NewSizeCalculatorWithConfig(cfg).SplitToSize(text, nil)
	var joined []byte
	for _, p := range pieces {
		vAssert("piece-is-valid-utf8", utf8.ValidString(p))
		joined = append(joined, vNonWS(p)...)
	}
	want := vNonWS(text)
	vAssert("non-whitespace-conserved", string(joined) == string(want))
	vReach("end")
}

// H_C13_split_with_boundaries: SplitToSize given paragraph boundaries (the positions where paragraphs start) keeps pieces
// valid UTF-8 and conserves the text: the boundaries must stay attached to their positions after every split.
//
//symgo:harness prop=C13 kernel=K1b-split-with-boundaries loop=4000 steps=60000000
//symgo:redirect github.com/tsawler/tabula/rag.countWords vHavocCount
//symgo:redirect github.com/tsawler/tabula/rag.countSentences vHavocCount
//symgo:redirect github.com/tsawler/tabula/rag.countParagraphs vHavocCount
//symgo:desc text = a first paragraph of 6..8 sentences of 14 bytes (count enumerated), then 2 paragraphs that start with a two-byte character (U+00DC, U+00C4), separated by blank lines; boundaries = one BoundaryParagraph at the byte offset where each later paragraph starts; hard Max of 60, 70 or 80 characters (enumerated); word/sentence/paragraph counters havoc'd: every piece is valid UTF-8 and the pieces' non-whitespace bytes are the text's, in order
func H_C13_split_with_boundaries() {
	ns := vAnyIntIn(6, 8)
	p1 := ""
	for i := 0; i < ns; i++ {
		if i > 0 {
			p1 += " "
		}
		p1 += "The fox " + string(rune('a'+i)) + " ran."
	}
	text := p1 + "\n\n" + "Über den Wolken ist die Freiheit gross." + "\n\n" + "Ärger gibt es immer wieder einmal."
	var bs []Boundary
	for i := 0; i+2 < len(text); i++ {
		if text[i] == '\n' && text[i+1] == '\n' {
			bs = append(bs, Boundary{Type: BoundaryParagraph, Position: i + 2, Score: 80})
		}
	}
	cfg := DefaultSizeConfig()
	cfg.Max = SizeLimit{Value: []int{60, 70, 80}[vAnyIntIn(0, 2)], Unit: SizeUnitCharacters, Type: LimitTypeHard}
	pieces := NewSizeCalculatorWithConfig(cfg).SplitToSize(text, bs)
	var joined []byte
	for _, p := range pieces {
		vAssert("piece-is-valid-utf8", utf8.ValidString(p))
		joined = append(joined, vNonWS(p)...)
	}
	vAssert("non-whitespace-conserved", string(joined) == string(vNonWS(text)))
	vReach("end")
}

// H_C02_sentence_splitting_never_panics: the sentence splitter behind the Chunker's oversized-paragraph path returns
// for every text; nothing is lost.
//
//symgo:harness prop=C02 kernel=rag.splitIntoSentences
//symgo:desc all strings of 1..5 (quick) / 1..6 (thorough) bytes over the alphabet {'.', '!', 'A', 'a', ' '} (covers "Ph.D."-shaped abbreviations: a sentence end followed by a capital and another full stop): splitIntoSentences returns without a run-time panic and the sentences joined contain every non-space byte of the input in order
func H_C02_sentence_splitting_never_panics() {
	n := vAnyIntIn(1, 5+vTier())
	b := make([]byte, n)
	for i := range b {
		b[i] = vAnyByteOf(".!Aa ")
	}
	parts := splitIntoSentences(string(b))
	var got []byte
	for _, p := range parts {
		for i := 0; i < len(p); i++ {
			if p[i] != ' ' {
				got = append(got, p[i])
			}
		}
	}
	var want []byte
	for _, c := range b {
		if c != ' ' {
			want = append(want, c)
		}
	}
	vAssert("nothing-lost", string(got) == string(want))
	vReach("end")
}
