//go:build verif_harness

package rag

import (
	"strings"

	"github.com/tsawler/tabula/model"
)

type vHeadingRef struct {
	level int
	text  string
}

// vRefPath: the chain of headings enclosing the current position after a heading of the given level.
func vRefPush(stack []vHeadingRef, level int, text string) []vHeadingRef {
	for len(stack) > 0 && stack[len(stack)-1].level >= level {
		stack = stack[:len(stack)-1]
	}
	return append(append([]vHeadingRef{}, stack...), vHeadingRef{level, text})
}

func vPathTexts(stack []vHeadingRef) []string {
	out := make([]string, len(stack))
	for i, h := range stack {
		out[i] = h.text
	}
	return out
}

func vSameStrings(a, b []string) bool {
	if len(a) != len(b) {
		return false
	}
	for i := range a {
		if a[i] != b[i] {
			return false
		}
	}
	return true
}

// H_C12_document_chunker: DocumentChunker covers the document once, in order, with true metadata.
//
//symgo:harness prop=C12 kernel=K1K2K3-document-chunker
//symgo:desc 1..3 quick / 1..4 thorough elements over 1..2 pages; element kind enumerated in {heading, paragraph, list of 2 items, 1x1 table}; heading levels symbolic integers in [1,4]; marker texts concrete and distinct; checks coverage once/in order, indices 0..n-1, unique IDs, TotalChunks, page of origin, and the section path of every chunk against the chain of enclosing headings (checked after chunking returns, so later headings must not rewrite earlier chunks)
func H_C12_document_chunker() {
	maxN := 3
	if vTier() > 0 {
		maxN = 4
	}
	n := vAnyIntIn(1, maxN)
	split := vAnyIntIn(0, n) // elements [0,split) on page 1, the rest on page 2
	doc := model.NewDocument()
	p1, p2 := model.NewPage(612, 792), model.NewPage(612, 792)
	markers := make([]string, n)
	wantPath := make([][]string, n)
	wantPage := make([]int, n)
	var stack []vHeadingRef
	for i := 0; i < n; i++ {
		mk := "Mk" + string(rune('A'+i))
		markers[i] = mk
		var el model.Element
		switch vAnyIntIn(0, 3) {
		case 0:
			lvl := vAnyIntRange(1, 4)
			el = &model.Heading{Text: mk, Level: lvl}
			stack = vRefPush(stack, lvl, mk)
		case 1:
			el = &model.Paragraph{Text: mk + " body text."}
		case 2:
			el = &model.List{Items: []model.ListItem{{Text: mk + " one"}, {Text: "two"}}}
		default:
			t := model.NewTable(1, 1)
			t.Rows[0][0].Text = mk
			el = t
		}
		wantPath[i] = vPathTexts(stack)
		if i < split {
			p1.AddElement(el)
			wantPage[i] = 1
		} else {
			p2.AddElement(el)
			wantPage[i] = 2
		}
	}
	doc.AddPage(p1)
	doc.AddPage(p2)
	coll := NewDocumentChunker().ChunkDocument(doc)
	vAssert("collection", coll != nil)
	chunks := coll.Chunks
	// indices, ids, totals
	ids := map[string]bool{}
	var all strings.Builder
	for i, c := range chunks {
		vAssert("index-sequence", c.Metadata.ChunkIndex == i)
		vAssert("total-chunks", c.Metadata.TotalChunks == len(chunks))
		vAssert("unique-id", !ids[c.ID])
		ids[c.ID] = true
		all.WriteString(c.Text)
		all.WriteString("\n")
	}
	// coverage: every marker exactly once, in order
	text := all.String()
	last := -1
	for i, mk := range markers {
		vAssert("marker-exactly-once", strings.Count(text, mk) == 1)
		pos := strings.Index(text, mk)
		vAssert("document-order", pos > last)
		last = pos
		// the chunk that carries the marker
		for _, c := range chunks {
			if strings.Contains(c.Text, mk) {
				vAssert("page-of-origin", c.Metadata.PageStart <= wantPage[i] && wantPage[i] <= c.Metadata.PageEnd)
				vAssert("section-path-is-enclosing-headings", vSameStrings(c.Metadata.SectionPath, wantPath[i]))
			}
		}
	}
	vReach("end")
}

// H_C12_layout_chunker: the layout-based Chunker covers every paragraph and list of every page once,
// in page order, whatever the heading nesting, with indices 0..n-1, unique ids and the right total.
//
//symgo:harness prop=C12 kernel=K2-layout-chunker
//symgo:desc 1..2 pages, each with 0..2 headings (levels symbolic in [1,4]; level 4 is deeper than the default MinHeadingLevel and must come out as content) and 1 paragraph (marker text) and optionally a 1-item list; default ChunkerConfig: every paragraph/list marker occurs exactly once in the chunk texts, page order preserved, indices/ids/total consistent, section path = chain of enclosing headings for the page's last heading; the pages carry source numbers 1,2 or 2,4 (enumerated) and every chunk's PageStart/PageEnd are source numbers whose range holds the page of each text in it
func H_C12_layout_chunker() {
	np := vAnyIntIn(1, 2)
	doc := model.NewDocument()
	var markers []string
	var stack []vHeadingRef
	var wantPath [][]string
	var markerPage []int
	// the pages carry their source page numbers: 1, 2 or - a selection such as Pages(2, 4) - 2, 4 (enumerated)
	sparse := vAnyIntIn(0, 1) == 1
	nums := map[int]bool{}
	for p := 0; p < np; p++ {
		num := p + 1
		if sparse {
			num = 2 * (p + 1)
		}
		nums[num] = true
		page := model.NewPage(612, 792)
		page.Layout = &model.PageLayout{}
		nh := vAnyIntIn(0, 2)
		for h := 0; h < nh; h++ {
			lvl := vAnyIntRange(1, 4)
			txt := "Head" + string(rune('A'+p)) + string(rune('0'+h))
			page.Layout.Headings = append(page.Layout.Headings, model.HeadingInfo{Level: lvl, Text: txt})
			if lvl <= 3 {
				stack = vRefPush(stack, lvl, txt)
			} else {
				// deeper than MinHeadingLevel (3): not a section of its own, its text is content of the enclosing one
				markers = append(markers, txt)
				markerPage = append(markerPage, num)
				wantPath = append(wantPath, vPathTexts(stack))
			}
		}
		mk := "Para" + string(rune('A'+p))
		page.Layout.Paragraphs = append(page.Layout.Paragraphs, model.ParagraphInfo{Text: mk + " body."})
		markers = append(markers, mk)
		markerPage = append(markerPage, num)
		wantPath = append(wantPath, vPathTexts(stack))
		if vAnyIntIn(0, 1) == 1 {
			lk := "Item" + string(rune('A'+p))
			page.Layout.Lists = append(page.Layout.Lists, model.ListInfo{Items: []model.ListItem{{Text: lk}}})
			markers = append(markers, lk)
			markerPage = append(markerPage, num)
			wantPath = append(wantPath, vPathTexts(stack))
		}
		doc.AddPage(page)
		page.Number = num
	}
	res, err := NewChunker().Chunk(doc)
	vAssert("no-error", err == nil && res != nil)
	ids := map[string]bool{}
	var all strings.Builder
	for i, c := range res.Chunks {
		vAssert("index-sequence", c.Metadata.ChunkIndex == i)
		vAssert("total-chunks", c.Metadata.TotalChunks == len(res.Chunks))
		vAssert("unique-id", !ids[c.ID])
		ids[c.ID] = true
		all.WriteString(c.Text)
		all.WriteString("\n")
	}
	text := all.String()
	last := -1
	for i, mk := range markers {
		vAssert("marker-exactly-once", strings.Count(text, mk) == 1)
		pos := strings.Index(text, mk)
		vAssert("document-order", pos > last)
		last = pos
		for _, c := range res.Chunks {
			if strings.Contains(c.Text, mk) {
				vAssert("section-path-is-enclosing-headings", vSameStrings(c.Metadata.SectionPath, wantPath[i]))
				vAssert("page-range-names-source-pages", nums[c.Metadata.PageStart] && nums[c.Metadata.PageEnd])
				vAssert("page-range-holds-the-texts-source-page", c.Metadata.PageStart <= markerPage[i] && markerPage[i] <= c.Metadata.PageEnd)
			}
		}
	}
	vReach("end")
}

// H_C12_layout_chunker_large_section: a section larger than the maximum chunk size is split by paragraphs without
// dropping or repeating any paragraph, whatever the mix of short and long paragraphs.
//
//symgo:harness prop=C12 kernel=K2-layout-chunker-split
//symgo:desc one heading and 3..4 paragraphs whose lengths are enumerated over {8, 45, 75} bytes (marker + filler words), all on one page or each on a page of its own (enumerated); ChunkerConfig with MaxChunkSize 80, MinChunkSize 20, TargetChunkSize 60, no overlap: every paragraph marker occurs exactly once in the chunk texts, in order; indices, ids and totals consistent; each chunk's page range is exactly the pages of the paragraphs it holds
func H_C12_layout_chunker_large_section() {
	cfg := DefaultChunkerConfig()
	cfg.MaxChunkSize, cfg.MinChunkSize, cfg.TargetChunkSize, cfg.OverlapSize = 80, 20, 60, 0
	n := vAnyIntIn(3, 4)
	spread := vAnyIntIn(0, 1) == 1 // every paragraph on a page of its own (the section then spans n pages)
	doc := model.NewDocument()
	page := model.NewPage(612, 792)
	page.Layout = &model.PageLayout{Headings: []model.HeadingInfo{{Level: 1, Text: "Title"}}}
	doc.AddPage(page)
	fill := "lorem ipsum dolor sit amet consectetur adipiscing elit sed do eiusmod tempor incididunt ut labore"
	var markers []string
	for i := 0; i < n; i++ {
		mk := "Pm" + string(rune('A'+i))
		ln := []int{8, 45, 75}[vAnyIntIn(0, 2)]
		txt := mk + " " + fill
		txt = txt[:ln-1] + "."
		if spread && i > 0 {
			page = model.NewPage(612, 792)
			page.Layout = &model.PageLayout{}
			doc.AddPage(page)
		}
		page.Layout.Paragraphs = append(page.Layout.Paragraphs, model.ParagraphInfo{Text: txt})
		markers = append(markers, mk)
	}
	res, err := NewChunkerWithConfig(cfg).Chunk(doc)
	vAssert("no-error", err == nil && res != nil)
	var all strings.Builder
	ids := map[string]bool{}
	for i, c := range res.Chunks {
		vAssert("index-sequence", c.Metadata.ChunkIndex == i)
		vAssert("total-chunks", c.Metadata.TotalChunks == len(res.Chunks))
		vAssert("unique-id", !ids[c.ID])
		ids[c.ID] = true
		all.WriteString(c.Text)
		all.WriteString("\n")
	}
	text := all.String()
	last := -1
	for _, mk := range markers {
		vAssert("paragraph-exactly-once", strings.Count(text, mk) == 1)
		pos := strings.Index(text, mk)
		vAssert("document-order", pos > last)
		last = pos
	}
	// a chunk's page range lies on the pages its content came from
	for _, c := range res.Chunks {
		lo, hi := 0, 0
		for k, mk := range markers {
			if strings.Contains(c.Text, mk) {
				pg := 1
				if spread {
					pg = k + 1
				}
				if lo == 0 || pg < lo {
					lo = pg
				}
				if pg > hi {
					hi = pg
				}
			}
		}
		if lo > 0 {
			vAssert("page-range-is-that-of-the-chunks-own-content", c.Metadata.PageStart == lo && c.Metadata.PageEnd == hi)
		}
	}
	vReach("end")
}

// H_C12_layout_chunker_lists: in a section that has to be split, paragraphs and lists - a list after an introducing
// paragraph, two lists in a row, a list whose last item reads like an introduction - all land in the chunks exactly once.
//
//symgo:harness prop=C12 kernel=K2-layout-chunker-lists
//symgo:desc one heading, 2 paragraphs of 45 or 75 bytes (enumerated; the second optionally ends in a colon, i.e. reads as a list introduction) and 1..2 bullet lists of two items each (enumerated; the first list's last item optionally ends in "options:"; the first list optionally has four items and is then larger than the maximum chunk size); ChunkerConfig with MaxChunkSize 80, MinChunkSize 20, TargetChunkSize 60, no overlap, list coherence on: every paragraph marker and every list item marker occurs exactly once in the chunk texts, in document order; chunk indices consistent
func H_C12_layout_chunker_lists() {
	cfg := DefaultChunkerConfig()
	cfg.MaxChunkSize, cfg.MinChunkSize, cfg.TargetChunkSize, cfg.OverlapSize = 80, 20, 60, 0
	page := model.NewPage(612, 792)
	page.Layout = &model.PageLayout{Headings: []model.HeadingInfo{{Level: 1, Text: "Title"}}}
	fill := "lorem ipsum dolor sit amet consectetur adipiscing elit sed do eiusmod tempor incididunt ut labore"
	var markers []string
	for i := 0; i < 2; i++ {
		mk := "Pm" + string(rune('A'+i))
		ln := []int{45, 75}[vAnyIntIn(0, 1)]
		txt := (mk + " " + fill)[:ln-1]
		if i == 1 && vAnyIntIn(0, 1) == 1 {
			txt += ":"
		} else {
			txt += "."
		}
		page.Layout.Paragraphs = append(page.Layout.Paragraphs, model.ParagraphInfo{Text: txt})
		markers = append(markers, mk)
	}
	nl := vAnyIntIn(1, 2)
	for l := 0; l < nl; l++ {
		tag := string(rune('A' + l))
		last := "Li" + tag + "2 second entry"
		if l == 0 && vAnyIntIn(0, 1) == 1 {
			last = "Li" + tag + "2 see the remaining options:"
		}
		items := []model.ListItem{{Text: "Li" + tag + "1 first entry"}, {Text: last}}
		markers = append(markers, "Li"+tag+"1", "Li"+tag+"2")
		if l == 0 && vAnyIntIn(0, 1) == 1 {
			// the first list alone is larger than the maximum chunk size: it has to be split by sentences
			items = append(items, model.ListItem{Text: "Li" + tag + "3 third entry of the long list."}, model.ListItem{Text: "Li" + tag + "4 fourth entry of the long list."})
			markers = append(markers, "Li"+tag+"3", "Li"+tag+"4")
		}
		page.Layout.Lists = append(page.Layout.Lists, model.ListInfo{Type: model.ListTypeBullet, Items: items})
	}
	doc := model.NewDocument()
	doc.AddPage(page)
	res, err := NewChunkerWithConfig(cfg).Chunk(doc)
	vAssert("no-error", err == nil && res != nil)
	var all strings.Builder
	for i, c := range res.Chunks {
		vAssert("index-sequence", c.Metadata.ChunkIndex == i)
		all.WriteString(c.Text)
		all.WriteString("\n")
	}
	text := all.String()
	lastPos := -1
	for _, mk := range markers {
		vAssert("paragraph-or-list-item-exactly-once", strings.Count(text, mk) == 1)
		pos := strings.Index(text, mk)
		vAssert("document-order", pos > lastPos)
		lastPos = pos
	}
	vReach("end")
}
