//go:build verif_harness

package docx

import (
	"archive/zip"
	"strings"
)

var vZip *zip.ReadCloser

func vStubOpenZip(name string) (*zip.ReadCloser, error) { return vZip, nil }

func vMember(name, content string) {
	vZip.File = append(vZip.File, &zip.File{FileHeader: zip.FileHeader{Name: name}})
	vZipContent(name, content)
}

const vWNS = `xmlns:w="http://schemas.openxmlformats.org/wordprocessingml/2006/main" xmlns:r="http://schemas.openxmlformats.org/officeDocument/2006/relationships"`

const vStylesXML = `<?xml version="1.0" encoding="UTF-8" standalone="yes"?><w:styles ` + vWNS + `>` +
	`<w:style w:type="paragraph" w:default="1" w:styleId="Normal"><w:name w:val="Normal"/></w:style>` +
	`<w:style w:type="paragraph" w:styleId="Heading1"><w:name w:val="heading 1"/><w:basedOn w:val="Normal"/><w:pPr><w:outlineLvl w:val="0"/></w:pPr></w:style>` +
	`<w:style w:type="paragraph" w:styleId="Heading2"><w:name w:val="heading 2"/><w:basedOn w:val="Normal"/><w:pPr><w:outlineLvl w:val="1"/></w:pPr></w:style>` +
	`<w:style w:type="paragraph" w:customStyle="1" w:styleId="MySection"><w:name w:val="My Section"/><w:basedOn w:val="Heading2"/></w:style>` +
	`<w:style w:type="paragraph" w:customStyle="1" w:styleId="BodyFancy"><w:name w:val="Body Fancy"/><w:basedOn w:val="Normal"/></w:style>` +
	`</w:styles>`

// H_C16_docx_package: a whole DOCX package, given as the texts of its parts, read by the real docx.Open: the body comes
// out in document order with heading levels as authored (built-in style, custom style inheriting from a heading style,
// direct outline level), and header/footer parts do not leak into the body.
//
//symgo:harness prop=C16 kernel=K5-docx-package noreplay=1
//symgo:redirect archive/zip.OpenReader vStubOpenZip
//symgo:desc zip layer cut (OpenReader returns a harness-built member list; member content model); parts: [Content_Types].xml, word/document.xml, word/styles.xml (Heading1, Heading2, a custom style based on Heading2, a custom body style), word/_rels/document.xml.rels naming header1.xml and footer1.xml, both present; body = 2..3 quick / 2..4 thorough elements, each a plain paragraph, a paragraph in the custom body style, a Heading1, a custom-style heading (level 2 by inheritance), a paragraph with direct outlineLvl 2 (level 3), or a 1x2 table (enumerated), followed by sectPr with header/footer references: Open succeeds; the element list has the body elements in source order with IsHeading/Level as authored; Text() contains every body text once, in order, and neither the header's nor the footer's text; HeaderTexts/FooterTexts carry them
func H_C16_docx_package() {
	n := vAnyIntIn(2, 3+vTier())
	type exp struct {
		text    string
		heading int // 0 = not a heading
		table   bool
	}
	var want []exp
	body := ""
	for i := 0; i < n; i++ {
		w := "body" + string(rune('A'+i))
		run := `<w:r><w:t>` + w + `</w:t></w:r>`
		switch vAnyIntIn(0, 5) {
		case 0:
			body += `<w:p>` + run + `</w:p>`
			want = append(want, exp{w, 0, false})
		case 1:
			body += `<w:p><w:pPr><w:pStyle w:val="BodyFancy"/></w:pPr>` + run + `</w:p>`
			want = append(want, exp{w, 0, false})
		case 2:
			body += `<w:p><w:pPr><w:pStyle w:val="Heading1"/></w:pPr>` + run + `</w:p>`
			want = append(want, exp{w, 1, false})
		case 3:
			body += `<w:p><w:pPr><w:pStyle w:val="MySection"/></w:pPr>` + run + `</w:p>`
			want = append(want, exp{w, 2, false})
		case 4:
			body += `<w:p><w:pPr><w:outlineLvl w:val="2"/></w:pPr>` + run + `</w:p>`
			want = append(want, exp{w, 3, false})
		default:
			body += `<w:tbl><w:tblGrid><w:gridCol w:w="100"/><w:gridCol w:w="100"/></w:tblGrid><w:tr><w:tc><w:p><w:r><w:t>` + w + `x</w:t></w:r></w:p></w:tc><w:tc><w:p><w:r><w:t>` + w + `y</w:t></w:r></w:p></w:tc></w:tr></w:tbl>`
			want = append(want, exp{w, 0, true})
		}
	}
	doc := `<?xml version="1.0" encoding="UTF-8" standalone="yes"?><w:document ` + vWNS + `><w:body>` + body +
		`<w:sectPr><w:headerReference w:type="default" r:id="rId6"/><w:footerReference w:type="default" r:id="rId7"/><w:pgSz w:w="12240" w:h="15840"/></w:sectPr></w:body></w:document>`
	vZip = &zip.ReadCloser{}
	vMember("[Content_Types].xml", `<?xml version="1.0"?><Types xmlns="http://schemas.openxmlformats.org/package/2006/content-types"/>`)
	vMember("word/header1.xml", `<?xml version="1.0"?><w:hdr `+vWNS+`><w:p><w:r><w:t>RunningHeaderText</w:t></w:r></w:p></w:hdr>`)
	vMember("word/_rels/document.xml.rels", `<?xml version="1.0"?><Relationships xmlns="http://schemas.openxmlformats.org/package/2006/relationships">`+
		`<Relationship Id="rId1" Type="http://schemas.openxmlformats.org/officeDocument/2006/relationships/styles" Target="styles.xml"/>`+
		`<Relationship Id="rId6" Type="http://schemas.openxmlformats.org/officeDocument/2006/relationships/header" Target="header1.xml"/>`+
		`<Relationship Id="rId7" Type="http://schemas.openxmlformats.org/officeDocument/2006/relationships/footer" Target="footer1.xml"/></Relationships>`)
	vMember("word/document.xml", doc)
	vMember("word/styles.xml", vStylesXML)
	vMember("word/footer1.xml", `<?xml version="1.0"?><w:ftr `+vWNS+`><w:p><w:r><w:t>RunningFooterText</w:t></w:r></w:p></w:ftr>`)
	r, err := Open("any.docx")
	vAssert("opens", err == nil && r != nil)
	vAssert("element-count", len(r.elements) == n)
	for i, w := range want {
		e := r.elements[i]
		if w.table {
			vAssert("table-in-source-position", e.Type == "table" && e.Table != nil && len(e.Table.Rows) == 1 && len(e.Table.Rows[0].Cells) == 2 && e.Table.Rows[0].Cells[0].Text == w.text+"x")
			continue
		}
		vAssert("paragraph-in-source-position", e.Type == "paragraph" && e.Paragraph != nil && e.Paragraph.Text == w.text)
		if w.heading > 0 {
			vAssert("heading-level-as-authored", e.Paragraph.IsHeading && e.Paragraph.Level == w.heading)
		} else {
			vAssert("not-a-heading", !e.Paragraph.IsHeading)
		}
	}
	txt, terr := r.Text()
	vAssert("text-no-error", terr == nil)
	pos := 0
	for _, w := range want {
		vAssert("each-body-text-once", strings.Count(txt, w.text) == map[bool]int{false: 1, true: 2}[w.table])
		k := strings.Index(txt[pos:], w.text)
		vAssert("body-texts-in-document-order", k >= 0)
		pos += k + len(w.text)
	}
	vAssert("header-does-not-leak", !strings.Contains(txt, "RunningHeaderText"))
	vAssert("footer-does-not-leak", !strings.Contains(txt, "RunningFooterText"))
	vAssert("header-part-read", len(r.HeaderTexts()) == 1 && r.HeaderTexts()[0] == "RunningHeaderText")
	vAssert("footer-part-read", len(r.FooterTexts()) == 1 && r.FooterTexts()[0] == "RunningFooterText")
	vReach("end")
}
