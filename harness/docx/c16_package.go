//go:build verif_harness

package docx

import (
	"archive/zip"
	"strings"
)

var vZip *zip.ReadCloser

func vStubOpenZip(name string) (*zip.ReadCloser, error) { return vZip, nil }

func vMember(name, content string) {
	vZip.File = append(vZip.File, &zip.File{FileHeader: zip.FileHeader{Name: name}})
	vZipContent(name, content)
}

const vWNS = `xmlns:w="http://schemas.openxmlformats.org/wordprocessingml/2006/main" xmlns:r="http://schemas.openxmlformats.org/officeDocument/2006/relationships"`

const vStylesXML = `<?xml version="1.0" encoding="UTF-8" standalone="yes"?><w:styles ` + vWNS + `>` +
	`<w:style w:type="paragraph" w:default="1" w:styleId="Normal"><w:name w:val="Normal"/></w:style>` +
	`<w:style w:type="paragraph" w:styleId="Heading1"><w:name w:val="heading 1"/><w:basedOn w:val="Normal"/><w:pPr><w:outlineLvl w:val="0"/></w:pPr></w:style>` +
	`<w:style w:type="paragraph" w:styleId="Heading2"><w:name w:val="heading 2"/><w:basedOn w:val="Normal"/><w:pPr><w:outlineLvl w:val="1"/></w:pPr></w:style>` +
	`<w:style w:type="paragraph" w:customStyle="1" w:styleId="MySection"><w:name w:val="My Section"/><w:basedOn w:val="Heading2"/></w:style>` +
	`<w:style w:type="paragraph" w:customStyle="1" w:styleId="BodyFancy"><w:name w:val="Body Fancy"/><w:basedOn w:val="Normal"/></w:style>` +
	`</w:styles>`

// H_C16_docx_package: a whole DOCX package, given as the texts of its parts, read by the real docx.Open: the body comes
// out in document order with heading levels as authored (built-in style, custom style inheriting from a heading style,
// direct outline level), and header/footer parts do not leak into the body.
//
//symgo:harness prop=C16 kernel=K5-docx-package noreplay=1
//symgo:redirect archive/zip.OpenReader vStubOpenZip
//symgo:desc zip layer cut (OpenReader returns a harness-built member list; member content model); parts: [Content_Types].xml, word/document.xml, word/styles.xml (Heading1, Heading2, a custom style based on Heading2, a custom body style), word/_rels/document.xml.rels naming header1.xml and footer1.xml, both present; body = 2..3 quick / 2..4 thorough elements, each a plain paragraph, a paragraph in the custom body style, a Heading1, a custom-style heading (level 2 by inheritance), a paragraph with direct outlineLvl 2 (level 3), or a 1x2 table (enumerated), followed by sectPr with header/footer references: Open succeeds; the element list has the body elements in source order with IsHeading/Level as authored; Text() contains every body text once, in order, and neither the header's nor the footer's text; HeaderTexts/FooterTexts carry them
func H_C16_docx_package() {
	n := vAnyIntIn(2, 3+vTier())
	type exp struct {
		text    string
		heading int // 0 = not a heading
		table   bool
	}
	var want []exp
	body := ""
	for i := 0; i < n; i++ {
		w := "body" + string(rune('A'+i))
		run := `<w:r><w:t>` + w + `</w:t></w:r>`
		switch vAnyIntIn(0, 5) {
		case 0:
			body += `<w:p>` + run + `</w:p>`
			want = append(want, exp{w, 0, false})
		case 1:
			body += `<w:p><w:pPr><w:pStyle w:val="BodyFancy"/></w:pPr>` + run + `</w:p>`
			want = append(want, exp{w, 0, false})
		case 2:
			body += `<w:p><w:pPr><w:pStyle w:val="Heading1"/></w:pPr>` + run + `</w:p>`
			want = append(want, exp{w, 1, false})
		case 3:
			body += `<w:p><w:pPr><w:pStyle w:val="MySection"/></w:pPr>` + run + `</w:p>`
			want = append(want, exp{w, 2, false})
		case 4:
			body += `<w:p><w:pPr><w:outlineLvl w:val="2"/></w:pPr>` + run + `</w:p>`
			want = append(want, exp{w, 3, false})
		default:
			body += `<w:tbl><w:tblGrid><w:gridCol w:w="100"/><w:gridCol w:w="100"/></w:tblGrid><w:tr><w:tc><w:p><w:r><w:t>` + w + `x</w:t></w:r></w:p></w:tc><w:tc><w:p><w:r><w:t>` + w + `y</w:t></w:r></w:p></w:tc></w:tr></w:tbl>`
			want = append(want, exp{w, 0, true})
		}
	}
	doc := `<?xml version="1.0" encoding="UTF-8" standalone="yes"?><w:document ` + vWNS + `><w:body>` + body +
		`<w:sectPr><w:headerReference w:type="default" r:id="rId6"/><w:footerReference w:type="default" r:id="rId7"/><w:pgSz w:w="12240" w:h="15840"/></w:sectPr></w:body></w:document>`
	vZip = &zip.ReadCloser{}
	vMember("[Content_Types].xml", `<?xml version="1.0"?><Types xmlns="http://schemas.openxmlformats.org/package/2006/content-types"/>`)
	vMember("word/header1.xml", `<?xml version="1.0"?><w:hdr `+vWNS+`><w:p><w:r><w:t>RunningHeaderText</w:t></w:r></w:p></w:hdr>`)
	vMember("word/_rels/document.xml.rels", `<?xml version="1.0"?><Relationships xmlns="http://schemas.openxmlformats.org/package/2006/relationships">`+
		`<Relationship Id="rId1" Type="http://schemas.openxmlformats.org/officeDocument/2006/relationships/styles" Target="styles.xml"/>`+
		`<Relationship Id="rId6" Type="http://schemas.openxmlformats.org/officeDocument/2006/relationships/header" Target="header1.xml"/>`+
		`<Relationship Id="rId7" Type="http://schemas.openxmlformats.org/officeDocument/2006/relationships/footer" Target="footer1.xml"/></Relationships>`)
	vMember("word/document.xml", doc)
	vMember("word/styles.xml", vStylesXML)
	vMember("word/footer1.xml", `<?xml version="1.0"?><w:ftr `+vWNS+`><w:p><w:r><w:t>RunningFooterText</w:t></w:r></w:p></w:ftr>`)
	r, err := Open("any.docx")
	vAssert("opens", err == nil && r != nil)
	vAssert("element-count", len(r.elements) == n)
	for i, w := range want {
		e := r.elements[i]
		if w.table {
			vAssert("table-in-source-position", e.Type == "table" && e.Table != nil && len(e.Table.Rows) == 1 && len(e.Table.Rows[0].Cells) == 2 && e.Table.Rows[0].Cells[0].Text == w.text+"x")
			continue
		}
		vAssert("paragraph-in-source-position", e.Type == "paragraph" && e.Paragraph != nil && e.Paragraph.Text == w.text)
		if w.heading > 0 {
			vAssert("heading-level-as-authored", e.Paragraph.IsHeading && e.Paragraph.Level == w.heading)
		} else {
			vAssert("not-a-heading", !e.Paragraph.IsHeading)
		}
	}
	txt, terr := r.Text()
	vAssert("text-no-error", terr == nil)
	pos := 0
	for _, w := range want {
		vAssert("each-body-text-once", strings.Count(txt, w.text) == map[bool]int{false: 1, true: 2}[w.table])
		k := strings.Index(txt[pos:], w.text)
		vAssert("body-texts-in-document-order", k >= 0)
		pos += k + len(w.text)
	}
	vAssert("header-does-not-leak", !strings.Contains(txt, "RunningHeaderText"))
	vAssert("footer-does-not-leak", !strings.Contains(txt, "RunningFooterText"))
	vAssert("header-part-read", len(r.HeaderTexts()) == 1 && r.HeaderTexts()[0] == "RunningHeaderText")
	vAssert("footer-part-read", len(r.FooterTexts()) == 1 && r.FooterTexts()[0] == "RunningFooterText")
	vReach("end")
}

const vNumberingXML = `<?xml version="1.0" encoding="UTF-8" standalone="yes"?><w:numbering ` + vWNS + `>` +
	`<w:abstractNum w:abstractNumId="0"><w:lvl w:ilvl="0"><w:start w:val="1"/><w:numFmt w:val="decimal"/><w:lvlText w:val="%1."/></w:lvl><w:lvl w:ilvl="1"><w:start w:val="1"/><w:numFmt w:val="lowerLetter"/><w:lvlText w:val="%2)"/></w:lvl></w:abstractNum>` +
	`<w:abstractNum w:abstractNumId="1"><w:lvl w:ilvl="0"><w:start w:val="1"/><w:numFmt w:val="bullet"/><w:lvlText w:val="&#8226;"/></w:lvl><w:lvl w:ilvl="1"><w:start w:val="1"/><w:numFmt w:val="bullet"/><w:lvlText w:val="o"/></w:lvl></w:abstractNum>` +
	`<w:abstractNum w:abstractNumId="2"><w:lvl w:ilvl="0"><w:start w:val="1"/><w:numFmt w:val="decimalZero"/><w:lvlText w:val="%1."/></w:lvl><w:lvl w:ilvl="1"><w:start w:val="1"/><w:numFmt w:val="ordinal"/><w:lvlText w:val="%2"/></w:lvl></w:abstractNum>` +
	`<w:num w:numId="1"><w:abstractNumId w:val="0"/></w:num><w:num w:numId="2"><w:abstractNumId w:val="1"/></w:num><w:num w:numId="3"><w:abstractNumId w:val="2"/></w:num></w:numbering>`

// H_C15_docx_package_markdown: the Markdown of a whole DOCX package keeps structure: headings as ATX headings of the
// source level (capped at 6), list items in order with their nesting depth and ordered/unordered kind, tables as pipe
// tables, and no body text lost.
//
//symgo:harness prop=C15 kernel=K3-docx-package-markdown noreplay=1
//symgo:redirect archive/zip.OpenReader vStubOpenZip
//symgo:desc zip layer cut (member content model); parts: document.xml, styles.xml (Heading1, Heading2, custom style on Heading2), numbering.xml (numId 1 decimal / lower-letter, numId 2 bullets, numId 3 decimalZero / ordinal); body = 2 quick / 2..3 thorough elements out of: heading by style (level 1 or 2), heading by outlineLvl 6 (level 7, to be capped at 6), plain paragraph, a three-item list (numId 1, 2 or 3, enumerated) whose middle item is nested one level deeper, a 2x2 table with a pipe in one cell (enumerated): Markdown(): every body text occurs exactly once, in source order; a heading line is '#' x min(level,6) + text; list lines are "<number>. " (ordered; the number itself is not checked) or "- " (bulleted) with two spaces of indentation per level, in order; the table is one pipe table read back by the reference GFM reader with its cell texts
func H_C15_docx_package_markdown() {
	n := vAnyIntIn(2, 2+vTier())
	type exp struct {
		kind  string // h, p, ol, ul, tbl
		text  string
		level int
	}
	var want []exp
	body := ""
	for i := 0; i < n; i++ {
		w := "txt" + string(rune('A'+i))
		run := func(t string) string { return `<w:r><w:t>` + t + `</w:t></w:r>` }
		switch vAnyIntIn(0, 5) {
		case 0:
			lvl := vAnyIntIn(1, 2)
			body += `<w:p><w:pPr><w:pStyle w:val="Heading` + string(rune('0'+lvl)) + `"/></w:pPr>` + run(w) + `</w:p>`
			want = append(want, exp{"h", w, lvl})
		case 1:
			body += `<w:p><w:pPr><w:outlineLvl w:val="6"/></w:pPr>` + run(w) + `</w:p>`
			want = append(want, exp{"h", w, 7})
		case 2:
			body += `<w:p>` + run(w) + `</w:p>`
			want = append(want, exp{"p", w, 0})
		case 3, 4:
			numID, kind := "1", "ol"
			switch vAnyIntIn(0, 2) {
			case 1:
				numID, kind = "2", "ul"
			case 2:
				numID, kind = "3", "ol" // number formats other than the five common ones (decimalZero, ordinal) are still numbers
			}
			for k, lv := range []int{0, 1, 0} {
				body += `<w:p><w:pPr><w:numPr><w:ilvl w:val="` + string(rune('0'+lv)) + `"/><w:numId w:val="` + numID + `"/></w:numPr></w:pPr>` + run(w+string(rune('0'+k))) + `</w:p>`
				want = append(want, exp{kind, w + string(rune('0'+k)), lv})
			}
		default:
			body += `<w:tbl><w:tr><w:tc><w:p>` + run(w+"a") + `</w:p></w:tc><w:tc><w:p>` + run(w+"b|c") + `</w:p></w:tc></w:tr><w:tr><w:tc><w:p>` + run(w+"d") + `</w:p></w:tc><w:tc><w:p>` + run(w+"e") + `</w:p></w:tc></w:tr></w:tbl>`
			want = append(want, exp{"tbl", w, 0})
		}
	}
	doc := `<?xml version="1.0" encoding="UTF-8" standalone="yes"?><w:document ` + vWNS + `><w:body>` + body + `<w:sectPr/></w:body></w:document>`
	vZip = &zip.ReadCloser{}
	vMember("[Content_Types].xml", `<?xml version="1.0"?><Types xmlns="http://schemas.openxmlformats.org/package/2006/content-types"/>`)
	vMember("word/document.xml", doc)
	vMember("word/styles.xml", vStylesXML)
	vMember("word/numbering.xml", vNumberingXML)
	r, err := Open("any.docx")
	vAssert("opens", err == nil && r != nil)
	md, merr := r.Markdown()
	vAssert("markdown-no-error", merr == nil)
	lines := strings.Split(md, "\n")
	li := 0
	find := func(prefix, text string) int {
		for k := li; k < len(lines); k++ {
			if lines[k] == prefix+text {
				return k
			}
		}
		return -1
	}
	for _, w := range want {
		switch w.kind {
		case "h":
			lvl := w.level
			if lvl > 6 {
				lvl = 6
			}
			k := find(strings.Repeat("#", lvl)+" ", w.text)
			vAssert("heading-is-atx-of-source-level-capped-at-6", k >= 0)
			li = k + 1
		case "p":
			k := find("", w.text)
			vAssert("paragraph-text-kept-in-order", k >= 0)
			li = k + 1
		case "ol", "ul":
			// the number shown is the list's business (a list instance keeps counting across interruptions);
			// the property fixes order, indentation by depth and the kind of marker
			indent := strings.Repeat("  ", w.level)
			k := -1
			for q := li; q < len(lines) && k < 0; q++ {
				ln := lines[q]
				if !strings.HasPrefix(ln, indent) || strings.HasPrefix(ln, indent+" ") {
					continue
				}
				rest := ln[len(indent):]
				if w.kind == "ul" {
					if rest == "- "+w.text {
						k = q
					}
					continue
				}
				d := 0
				for d < len(rest) && rest[d] >= '0' && rest[d] <= '9' {
					d++
				}
				if d > 0 && rest[d:] == ". "+w.text {
					k = q
				}
			}
			vAssert("list-item-order-nesting-and-kind", k >= 0)
			li = k + 1
		default:
			k := -1
			for q := li; q < len(lines); q++ {
				if strings.HasPrefix(lines[q], "|") {
					k = q
					break
				}
			}
			vAssert("table-present-in-order", k >= 0)
			e := k
			for e < len(lines) && strings.HasPrefix(lines[e], "|") {
				e++
			}
			got, ok := vGFMParse(strings.Join(lines[k:e], "\n") + "\n")
			vAssert("table-is-one-pipe-table", ok && len(got) == 2 && len(got[0]) == 2 && len(got[1]) == 2)
			vAssert("table-cell-texts", got[0][0] == w.text+"a" && got[0][1] == w.text+"b|c" && got[1][0] == w.text+"d" && got[1][1] == w.text+"e")
			li = e
		}
	}
	for _, w := range want {
		if w.kind != "tbl" {
			vAssert("no-body-text-lost-or-doubled", strings.Count(md, w.text) == 1)
		}
	}
	vReach("end")
}

// H_C16_docx_block_content_controls: paragraphs and tables wrapped in a block-level content control (w:sdt - what Word
// writes for a table of contents, a cover page, any rich-text control) are body content in their place.
//
//symgo:harness prop=C16 kernel=K5c-docx-block-sdt noreplay=1
//symgo:redirect archive/zip.OpenReader vStubOpenZip
//symgo:desc zip layer cut (member content model); body = paragraph "before", then 1..2 elements each either a plain paragraph, a w:sdt holding one paragraph, a w:sdt holding two paragraphs, or a w:sdt holding a 1x2 table (enumerated), then paragraph "after": Open succeeds; Text() contains every text once, in source order
func H_C16_docx_block_content_controls() {
	para := func(t string) string { return `<w:p><w:r><w:t>` + t + `</w:t></w:r></w:p>` }
	sdt := func(inner string) string {
		return `<w:sdt><w:sdtPr><w:id w:val="7"/><w:docPartObj><w:docPartGallery w:val="Table of Contents"/></w:docPartObj></w:sdtPr><w:sdtContent>` + inner + `</w:sdtContent></w:sdt>`
	}
	body := para("before")
	want := []string{"before"}
	for i, n := 0, vAnyIntIn(1, 2); i < n; i++ {
		w := "el" + string(rune('A'+i))
		switch vAnyIntIn(0, 3) {
		case 0:
			body += para(w)
			want = append(want, w)
		case 1:
			body += sdt(para(w))
			want = append(want, w)
		case 2:
			body += sdt(para(w+"1") + para(w+"2"))
			want = append(want, w+"1", w+"2")
		default:
			body += sdt(`<w:tbl><w:tblGrid><w:gridCol w:w="100"/><w:gridCol w:w="100"/></w:tblGrid><w:tr><w:tc><w:p><w:r><w:t>` + w + `x</w:t></w:r></w:p></w:tc><w:tc><w:p><w:r><w:t>` + w + `y</w:t></w:r></w:p></w:tc></w:tr></w:tbl>`)
			want = append(want, w+"x", w+"y")
		}
	}
	body += para("after")
	want = append(want, "after")
	vZip = &zip.ReadCloser{}
	vMember("[Content_Types].xml", `<?xml version="1.0"?><Types xmlns="http://schemas.openxmlformats.org/package/2006/content-types"/>`)
	vMember("word/document.xml", `<?xml version="1.0"?><w:document `+vWNS+`><w:body>`+body+`<w:sectPr/></w:body></w:document>`)
	vMember("word/styles.xml", vStylesXML)
	r, err := Open("any.docx")
	vAssert("opens", err == nil && r != nil)
	txt, terr := r.Text()
	vAssert("text-no-error", terr == nil)
	pos := 0
	for _, w := range want {
		vAssert("every-text-exactly-once", strings.Count(txt, w) == 1)
		k := strings.Index(txt[pos:], w)
		vAssert("body-texts-in-document-order", k >= 0)
		if k >= 0 {
			pos += k + len(w)
		}
	}
	vReach("end")
}
