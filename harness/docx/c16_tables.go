//go:build verif_harness

package docx

import "encoding/xml"

func vPara(texts ...string) paragraphXML {
	var p paragraphXML
	for _, t := range texts {
		p.Runs = append(p.Runs, runXML{Text: []textXML{{Value: t}}})
	}
	return p
}

// H_C16_docx_table_grid: the parsed table grid has the authored spans: a vertical-merge root carries RowSpan = 1 + the
// number of continuation cells directly below it, continuation cells are flagged, gridSpan becomes ColSpan, and a
// multi-paragraph cell keeps its paragraphs in order.
//
//symgo:harness prop=C16 kernel=K1-docx-table-grid
//symgo:desc harness-built tableXML (the XML unmarshalling itself is outside the claim): 2..3 rows x 1..2 columns; per cell vMerge in {absent, restart, continue} (enumerated; no continue in the first row), gridSpan absent or, in one-column tables, a symbolic digit 1..3; cell (0,0) has two paragraphs of two runs: RowSpan of every non-continuation cell = 1 + length of the continuation run directly below it in the same grid column; ColSpan = gridSpan; paragraph and run order kept
func H_C16_docx_table_grid() {
	rows, cols := vAnyIntIn(2, 3), vAnyIntIn(1, 2)
	kind := make([][]int, rows) // 0 absent, 1 restart, 2 continue
	spans := make([]int, rows)
	for i := range spans {
		spans[i] = 1
	}
	var tbl tableXML
	for r := 0; r < rows; r++ {
		kind[r] = make([]int, cols)
		var row tableRowXML
		for c := 0; c < cols; c++ {
			k := 0
			if r == 0 {
				k = vAnyIntIn(0, 1)
			} else {
				k = vAnyIntIn(0, 2)
			}
			kind[r][c] = k
			var cell tableCellXML
			switch k {
			case 1:
				cell.Properties.VMerge = vMergeXML{XMLName: xml.Name{Local: "vMerge"}, Val: "restart"}
			case 2:
				cell.Properties.VMerge = vMergeXML{XMLName: xml.Name{Local: "vMerge"}}
			}
			if cols == 1 {
				// gridSpan as written in the file: a symbolic decimal digit 1..3
				d := vAnyByteOf("123")
				cell.Properties.GridSpan.Val = string([]byte{d})
				spans[r] = int(d - '0')
			}
			if r == 0 && c == 0 {
				cell.Paragraphs = []paragraphXML{vPara("first ", "para"), vPara("second")}
			} else {
				cell.Paragraphs = []paragraphXML{vPara("c")}
			}
			row.Cells = append(row.Cells, cell)
		}
		tbl.Rows = append(tbl.Rows, row)
	}
	pt := NewTableParser(nil).ParseTable(tbl)
	vAssert("row-count", len(pt.Rows) == rows)
	for r := 0; r < rows; r++ {
		vAssert("cell-count", len(pt.Rows[r].Cells) == cols)
		for c := 0; c < cols; c++ {
			cell := pt.Rows[r].Cells[c]
			vAssert("continuation-flag", cell.IsMergedContinuation == (kind[r][c] == 2))
			if kind[r][c] != 2 {
				span := 1
				for rr := r + 1; rr < rows && kind[rr][c] == 2; rr++ {
					span++
				}
				vAssert("row-span-is-merge-length", cell.RowSpan == span)
			}
			vAssert("col-span-is-grid-span", cell.ColSpan == spans[r])
		}
	}
	vAssert("multi-paragraph-cell-keeps-order", pt.Rows[0].Cells[0].Text == "first para\nsecond")
	mt := pt.ToModelTable()
	vAssert("model-table-shape", mt != nil && len(mt.Rows) == rows)
	vReach("end")
}

// H_C16_docx_model_table_columns: in the document model every cell text sits in the grid column where its cell starts,
// also to the right of a cell that is merged in both directions.
//
//symgo:harness prop=C16 kernel=K1-docx-model-table
//symgo:desc 2 rows x 2 cells; the first cell of each row has gridSpan = a symbolic digit 1..3 (same in both rows); the first cell of row 2 is a vertical-merge continuation or a regular cell (enumerated): model.Table cell [r][span] holds the text of the second cell of row r, cell [0][0] the first text; RowSpan of the merge root = 2 when continued
func H_C16_docx_model_table_columns() {
	d := vAnyByteOf("123")
	span := int(d - '0')
	cont := vAnyIntIn(0, 1) == 1
	mk := func(text string, gs bool, vm int) tableCellXML {
		var c tableCellXML
		if gs {
			c.Properties.GridSpan.Val = string([]byte{d})
		}
		switch vm {
		case 1:
			c.Properties.VMerge = vMergeXML{XMLName: xml.Name{Local: "vMerge"}, Val: "restart"}
		case 2:
			c.Properties.VMerge = vMergeXML{XMLName: xml.Name{Local: "vMerge"}}
		}
		c.Paragraphs = []paragraphXML{vPara(text)}
		return c
	}
	var tbl tableXML
	vm2 := 0
	if cont {
		vm2 = 2
	}
	tbl.Rows = []tableRowXML{
		{Cells: []tableCellXML{mk("A", true, 1), mk("B", false, 0)}},
		{Cells: []tableCellXML{mk("", true, vm2), mk("C", false, 0)}},
	}
	pt := NewTableParser(nil).ParseTable(tbl)
	mt := pt.ToModelTable()
	vAssert("model-shape", mt != nil && len(mt.Rows) == 2 && len(mt.Rows[0]) >= span+1 && len(mt.Rows[1]) >= span+1)
	vAssert("first-cell", mt.Rows[0][0].Text == "A")
	vAssert("row0-second-cell-in-its-column", mt.Rows[0][span].Text == "B")
	vAssert("row1-second-cell-in-its-column", mt.Rows[1][span].Text == "C")
	if cont {
		vAssert("merge-root-rowspan", mt.Rows[0][0].RowSpan == 2)
	}
	vReach("end")
}
