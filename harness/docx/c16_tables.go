//go:build verif_harness

package docx

import "encoding/xml"

func vPara(texts ...string) paragraphXML {
	var p paragraphXML
	for _, t := range texts {
		p.Runs = append(p.Runs, runXML{Text: []textXML{{Value: t}}})
	}
	return p
}

// H_C16_docx_table_grid: the parsed table grid has the authored spans: a vertical-merge root carries RowSpan = 1 + the
// number of continuation cells directly below it, continuation cells are flagged, gridSpan becomes ColSpan, and a
// multi-paragraph cell keeps its paragraphs in order.
//
//symgo:harness prop=C16 kernel=K1-docx-table-grid
//symgo:desc harness-built tableXML (the XML unmarshalling itself is outside the claim): 2..3 rows x 1..2 columns; per cell vMerge in {absent, restart, continue} (enumerated; no continue in the first row; continue written as <w:vMerge/> or with w:val="continue"), gridSpan absent or, in one-column tables, a symbolic digit 1..3; cell (0,0) has two paragraphs of two runs: RowSpan of every non-continuation cell = 1 + length of the continuation run directly below it in the same grid column; ColSpan = gridSpan; paragraph and run order kept
func H_C16_docx_table_grid() {
	rows, cols := vAnyIntIn(2, 3), vAnyIntIn(1, 2)
	kind := make([][]int, rows) // 0 absent, 1 restart, 2 continue
	spans := make([]int, rows)
	for i := range spans {
		spans[i] = 1
	}
	var tbl tableXML
	for r := 0; r < rows; r++ {
		kind[r] = make([]int, cols)
		var row tableRowXML
		for c := 0; c < cols; c++ {
			k := 0
			if r == 0 {
				k = vAnyIntIn(0, 1)
			} else {
				k = vAnyIntIn(0, 2)
			}
			kind[r][c] = k
			var cell tableCellXML
			switch k {
			case 1:
				cell.Properties.VMerge = vMergeXML{XMLName: xml.Name{Local: "vMerge"}, Val: "restart"}
			case 2:
				// a continuation is <w:vMerge/> or, spelled out, <w:vMerge w:val="continue"/>
				cell.Properties.VMerge = vMergeXML{XMLName: xml.Name{Local: "vMerge"}, Val: []string{"", "continue"}[vAnyIntIn(0, 1)]}
			}
			if cols == 1 {
				// gridSpan as written in the file: a symbolic decimal digit 1..3
				d := vAnyByteOf("123")
				cell.Properties.GridSpan.Val = string([]byte{d})
				spans[r] = int(d - '0')
			}
			if r == 0 && c == 0 {
				cell.Paragraphs = []paragraphXML{vPara("first ", "para"), vPara("second")}
			} else {
				cell.Paragraphs = []paragraphXML{vPara("c")}
			}
			row.Cells = append(row.Cells, cell)
		}
		tbl.Rows = append(tbl.Rows, row)
	}
	pt := NewTableParser(nil).ParseTable(tbl)
	vAssert("row-count", len(pt.Rows) == rows)
	for r := 0; r < rows; r++ {
		vAssert("cell-count", len(pt.Rows[r].Cells) == cols)
		for c := 0; c < cols; c++ {
			cell := pt.Rows[r].Cells[c]
			vAssert("continuation-flag", cell.IsMergedContinuation == (kind[r][c] == 2))
			if kind[r][c] != 2 {
				span := 1
				for rr := r + 1; rr < rows && kind[rr][c] == 2; rr++ {
					span++
				}
				vAssert("row-span-is-merge-length", cell.RowSpan == span)
			}
			vAssert("col-span-is-grid-span", cell.ColSpan == spans[r])
		}
	}
	vAssert("multi-paragraph-cell-keeps-order", pt.Rows[0].Cells[0].Text == "first para\nsecond")
	mt := pt.ToModelTable()
	vAssert("model-table-shape", mt != nil && len(mt.Rows) == rows)
	vReach("end")
}

// H_C16_docx_model_table_columns: in the document model every cell text sits in the grid column where its cell starts,
// also to the right of a cell that is merged in both directions.
//
//symgo:harness prop=C16 kernel=K1-docx-model-table
//symgo:desc 2 rows x 2 cells; the first cell of each row has gridSpan = a symbolic digit 1..3 (same in both rows); the first cell of row 2 is a vertical-merge continuation or a regular cell (enumerated): model.Table cell [r][span] holds the text of the second cell of row r, cell [0][0] the first text; RowSpan of the merge root = 2 when continued
func H_C16_docx_model_table_columns() {
	d := vAnyByteOf("123")
	span := int(d - '0')
	cont := vAnyIntIn(0, 1) == 1
	mk := func(text string, gs bool, vm int) tableCellXML {
		var c tableCellXML
		if gs {
			c.Properties.GridSpan.Val = string([]byte{d})
		}
		switch vm {
		case 1:
			c.Properties.VMerge = vMergeXML{XMLName: xml.Name{Local: "vMerge"}, Val: "restart"}
		case 2:
			c.Properties.VMerge = vMergeXML{XMLName: xml.Name{Local: "vMerge"}}
		}
		c.Paragraphs = []paragraphXML{vPara(text)}
		return c
	}
	var tbl tableXML
	vm2 := 0
	if cont {
		vm2 = 2
	}
	tbl.Rows = []tableRowXML{
		{Cells: []tableCellXML{mk("A", true, 1), mk("B", false, 0)}},
		{Cells: []tableCellXML{mk("", true, vm2), mk("C", false, 0)}},
	}
	pt := NewTableParser(nil).ParseTable(tbl)
	mt := pt.ToModelTable()
	vAssert("model-shape", mt != nil && len(mt.Rows) == 2 && len(mt.Rows[0]) >= span+1 && len(mt.Rows[1]) >= span+1)
	vAssert("first-cell", mt.Rows[0][0].Text == "A")
	vAssert("row0-second-cell-in-its-column", mt.Rows[0][span].Text == "B")
	vAssert("row1-second-cell-in-its-column", mt.Rows[1][span].Text == "C")
	if cont {
		vAssert("merge-root-rowspan", mt.Rows[0][0].RowSpan == 2)
	}
	vReach("end")
}

// H_C16_docx_vmerge_by_grid_column: a vertical merge is tracked by GRID column, not by the cell's index in its row: a
// continuation cell that follows a wide (gridSpan) cell extends the merge root that starts in the same grid column.
//
//symgo:harness prop=C16 kernel=K1-docx-vmerge-grid-column
//symgo:desc 3-column grid; row 1 = [A, B, C] with vMerge restart on one of them (enumerated which column m); row 2 spells the same grid with a cell of gridSpan 2 (symbolic digit) before or after the continuation cell so that the continuation cell's index in its row differs from its grid column where possible (layouts enumerated); optional third plain row: the root in column m has RowSpan 2, every other first-row cell RowSpan 1, the continuation cell is flagged
func H_C16_docx_vmerge_by_grid_column() {
	m := vAnyIntIn(0, 2)
	d := vAnyByteOf("2")
	mk := func(text string, gs bool, vm int) tableCellXML {
		var c tableCellXML
		if gs {
			c.Properties.GridSpan.Val = string([]byte{d})
		}
		switch vm {
		case 1:
			c.Properties.VMerge = vMergeXML{XMLName: xml.Name{Local: "vMerge"}, Val: "restart"}
		case 2:
			c.Properties.VMerge = vMergeXML{XMLName: xml.Name{Local: "vMerge"}}
		}
		c.Paragraphs = []paragraphXML{vPara(text)}
		return c
	}
	vm := func(c int) int {
		if c == m {
			return 1
		}
		return 0
	}
	row1 := tableRowXML{Cells: []tableCellXML{mk("A", false, vm(0)), mk("B", false, vm(1)), mk("C", false, vm(2))}}
	var row2 tableRowXML
	contIdx := 0
	switch m {
	case 0: // [cont, D(span 2)]
		row2.Cells = []tableCellXML{mk("", false, 2), mk("D", true, 0)}
		contIdx = 0
	case 1: // [D, cont, E] - no wide cell fits beside a middle continuation in a 3-column grid
		row2.Cells = []tableCellXML{mk("D", false, 0), mk("", false, 2), mk("E", false, 0)}
		contIdx = 1
	default: // [D(span 2), cont]: index 1, grid column 2
		row2.Cells = []tableCellXML{mk("D", true, 0), mk("", false, 2)}
		contIdx = 1
	}
	tbl := tableXML{Rows: []tableRowXML{row1, row2}}
	if vAnyIntIn(0, 1) == 1 {
		tbl.Rows = append(tbl.Rows, tableRowXML{Cells: []tableCellXML{mk("X", false, 0), mk("Y", false, 0), mk("Z", false, 0)}})
	}
	pt := NewTableParser(nil).ParseTable(tbl)
	vAssert("row-count", len(pt.Rows) == len(tbl.Rows))
	vAssert("first-row-cells", len(pt.Rows[0].Cells) == 3)
	for c := 0; c < 3; c++ {
		want := 1
		if c == m {
			want = 2
		}
		vAssert("row-span-follows-grid-column", pt.Rows[0].Cells[c].RowSpan == want)
	}
	vAssert("continuation-flag", pt.Rows[1].Cells[contIdx].IsMergedContinuation)
	for i, c := range pt.Rows[1].Cells {
		if i != contIdx {
			vAssert("second-row-cells-unmerged", c.RowSpan == 1 && !c.IsMergedContinuation)
		}
	}
	vReach("end")
}

// H_C02_docx_inconsistent_table: a table whose rows do not agree with its declared grid or with each other - a dropped
// gridCol, a duplicated cell, an inflated gridSpan, merges that overlap - never crashes parsing or rendering.
//
//symgo:harness prop=C02 kernel=docx.TableParser-inconsistent-grid
//symgo:desc harness-built tableXML: tblGrid with 0..3 gridCol entries (enumerated); 2 rows of 1..3 cells (enumerated); in the first two cells of each row gridSpan is enumerated over {absent, 2, 7}, in the first cell vMerge over {absent, restart, continue}: ParseTable, ToMarkdown, ToText and ToModelTable return without a run-time panic
func H_C02_docx_inconsistent_table() {
	var tbl tableXML
	for i, n := 0, vAnyIntIn(0, 3); i < n; i++ {
		tbl.Grid.Cols = append(tbl.Grid.Cols, gridColXML{W: "2000"})
	}
	for r := 0; r < 2; r++ {
		var row tableRowXML
		for c, n := 0, vAnyIntIn(1, 3); c < n; c++ {
			var cell tableCellXML
			if c < 2 {
				switch vAnyIntIn(0, 2) {
				case 1:
					cell.Properties.GridSpan.Val = "2"
				case 2:
					cell.Properties.GridSpan.Val = "7"
				}
			}
			if c == 0 {
				switch vAnyIntIn(0, 2) {
				case 1:
					cell.Properties.VMerge = vMergeXML{XMLName: xml.Name{Local: "vMerge"}, Val: "restart"}
				case 2:
					cell.Properties.VMerge = vMergeXML{XMLName: xml.Name{Local: "vMerge"}}
				}
			}
			cell.Paragraphs = []paragraphXML{vPara("t")}
			row.Cells = append(row.Cells, cell)
		}
		tbl.Rows = append(tbl.Rows, row)
	}
	pt := NewTableParser(nil).ParseTable(tbl)
	_ = pt.ToMarkdown()
	_ = pt.ToText()
	_ = pt.ToModelTable()
	vReach("end")
}
