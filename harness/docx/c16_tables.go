//go:build verif_harness

package docx

import "encoding/xml"

func vPara(texts ...string) paragraphXML {
	var p paragraphXML
	for _, t := range texts {
		p.Runs = append(p.Runs, runXML{Text: []textXML{{Value: t}}})
	}
	return p
}

// H_C16_docx_table_grid: the parsed table grid has the authored spans: a vertical-merge root carries RowSpan = 1 + the
// number of continuation cells directly below it, continuation cells are flagged, gridSpan becomes ColSpan, and a
// multi-paragraph cell keeps its paragraphs in order.
//
//symgo:harness prop=C16 kernel=K1-docx-table-grid
//symgo:desc harness-built tableXML (the XML unmarshalling itself is outside the claim): 2..3 rows x 1..2 columns; per cell vMerge in {absent, restart, continue} (enumerated; no continue in the first row), gridSpan absent or, in one-column tables, a symbolic digit 1..3; cell (0,0) has two paragraphs of two runs: RowSpan of every non-continuation cell = 1 + length of the continuation run directly below it in the same grid column; ColSpan = gridSpan; paragraph and run order kept
func H_C16_docx_table_grid() {
	rows, cols := vAnyIntIn(2, 3), vAnyIntIn(1, 2)
	kind := make([][]int, rows) // 0 absent, 1 restart, 2 continue
	spans := make([]int, rows)
	for i := range spans {
		spans[i] = 1
	}
	var tbl tableXML
	for r := 0; r < rows; r++ {
		kind[r] = make([]int, cols)
		var row tableRowXML
		for c := 0; c < cols; c++ {
			k := 0
			if r == 0 {
				k = vAnyIntIn(0, 1)
			} else {
				k = vAnyIntIn(0, 2)
			}
			kind[r][c] = k
			var cell tableCellXML
			switch k {
			case 1:
				cell.Properties.VMerge = vMergeXML{XMLName: xml.Name{Local: "vMerge"}, Val: "restart"}
			case 2:
				cell.Properties.VMerge = vMergeXML{XMLName: xml.Name{Local: "vMerge"}}
			}
			if cols == 1 {
				// gridSpan as written in the file: a symbolic decimal digit 1..3
				d := vAnyByteOf("123")
				cell.Properties.GridSpan.Val = string([]byte{d})
				spans[r] = int(d - '0')
			}
			if r == 0 && c == 0 {
				cell.Paragraphs = []paragraphXML{vPara("first ", "para"), vPara("second")}
			} else {
				cell.Paragraphs = []paragraphXML{vPara("c")}
			}
			row.Cells = append(row.Cells, cell)
		}
		tbl.Rows = append(tbl.Rows, row)
	}
	pt := NewTableParser(nil).ParseTable(tbl)
	vAssert("row-count", len(pt.Rows) == rows)
	for r := 0; r < rows; r++ {
		vAssert("cell-count", len(pt.Rows[r].Cells) == cols)
		for c := 0; c < cols; c++ {
			cell := pt.Rows[r].Cells[c]
			vAssert("continuation-flag", cell.IsMergedContinuation == (kind[r][c] == 2))
			if kind[r][c] != 2 {
				span := 1
				for rr := r + 1; rr < rows && kind[rr][c] == 2; rr++ {
					span++
				}
				vAssert("row-span-is-merge-length", cell.RowSpan == span)
			}
			vAssert("col-span-is-grid-span", cell.ColSpan == spans[r])
		}
	}
	vAssert("multi-paragraph-cell-keeps-order", pt.Rows[0].Cells[0].Text == "first para\nsecond")
	mt := pt.ToModelTable()
	vAssert("model-table-shape", mt != nil && len(mt.Rows) == rows)
	vReach("end")
}
