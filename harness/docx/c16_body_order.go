//go:build verif_harness

package docx

// H_C16_docx_body_order: the body's paragraphs and tables are presented interleaved exactly as in the source, also when
// tables contain paragraphs of their own (cell paragraphs are not body paragraphs).
//
//symgo:harness prop=C16 kernel=K2-docx-body-order
//symgo:desc body of 1..4 elements, each a paragraph or a table with 1..2 cell paragraphs (enumerated), optionally followed by a w:sectPr; the XML text is built by the harness and streamed through the real encoding/xml Decoder inside parseBodyElementsInOrder, while Body.Paragraphs / Body.Tables are the slices xml.Unmarshal produces for that text (direct children only; built by the harness, Unmarshal itself is outside the claim): Body.Elements lists the same elements, in source order, each pointing at its own paragraph or table
func H_C16_docx_body_order() {
	n := vAnyIntIn(1, 4)
	xmlText := `<?xml version="1.0" encoding="UTF-8"?><w:document xmlns:w="http://schemas.openxmlformats.org/wordprocessingml/2006/main"><w:body>`
	body := &bodyXML{}
	var kinds []int // 0 paragraph, 1 table
	for i := 0; i < n; i++ {
		tag := string(rune('A' + i))
		if vAnyIntIn(0, 1) == 0 {
			kinds = append(kinds, 0)
			xmlText += `<w:p><w:r><w:t>P` + tag + `</w:t></w:r></w:p>`
			body.Paragraphs = append(body.Paragraphs, vPara("P"+tag))
		} else {
			kinds = append(kinds, 1)
			cells := vAnyIntIn(1, 2)
			xmlText += `<w:tbl><w:tr>`
			var row tableRowXML
			for c := 0; c < cells; c++ {
				xmlText += `<w:tc><w:p><w:r><w:t>T` + tag + `</w:t></w:r></w:p></w:tc>`
				row.Cells = append(row.Cells, tableCellXML{Paragraphs: []paragraphXML{vPara("T" + tag)}})
			}
			xmlText += `</w:tr></w:tbl>`
			body.Tables = append(body.Tables, tableXML{Rows: []tableRowXML{row}})
		}
	}
	if vAnyIntIn(0, 1) == 1 {
		xmlText += `<w:sectPr><w:pgSz w:w="12240" w:h="15840"/></w:sectPr>`
	}
	xmlText += `</w:body></w:document>`
	r := &Reader{document: &documentXML{Body: body}}
	err := r.parseBodyElementsInOrder([]byte(xmlText))
	vAssert("no-error", err == nil)
	vAssert("one-element-per-body-child", len(body.Elements) == n)
	pi, ti := 0, 0
	for i, k := range kinds {
		e := body.Elements[i]
		if k == 0 {
			vAssert("paragraph-in-source-position", e.Type == "paragraph" && e.Paragraph == &body.Paragraphs[pi])
			pi++
		} else {
			vAssert("table-in-source-position", e.Type == "table" && e.Table == &body.Tables[ti])
			ti++
		}
	}
	vReach("end")
}
