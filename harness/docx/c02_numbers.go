//go:build verif_harness

package docx

import "archive/zip"

// vCatalogue: the numeric fault catalogue of C02 (0, -1, 2^31, 2^63-1) as attribute text.
func vCatalogue() string {
	return []string{"0", "-1", "2147483648", "9223372036854775807"}[vAnyIntIn(0, 3)]
}

// H_C02_docx_numeric_fields: numbers taken from the package's XML never size an allocation or a loop.
//
//symgo:harness prop=C02 kernel=docx-numeric-fields hang=1 loop=200000 steps=100000000 noreplay=1
//symgo:redirect archive/zip.OpenReader vStubOpenZip
//symgo:desc zip layer cut (member content model); a DOCX package whose body holds a 2x2 table and a numbered paragraph; one numeric attribute is replaced by a catalogue value (0, -1, 2^31, 2^63-1; enumerated): w:gridSpan of a cell, w:ilvl of the paragraph's numPr, w:gridCol count unaffected; Open, Text, Markdown and Document-model conversion return without run-time panic, within the allocation budget and the loop/step bounds
func H_C02_docx_numeric_fields() {
	gridSpan, ilvl := "1", "0"
	if vAnyIntIn(0, 1) == 0 {
		gridSpan = vCatalogue()
	} else {
		ilvl = vCatalogue()
	}
	body := `<w:tbl><w:tblGrid><w:gridCol w:w="100"/><w:gridCol w:w="100"/></w:tblGrid>` +
		`<w:tr><w:tc><w:tcPr><w:gridSpan w:val="` + gridSpan + `"/></w:tcPr><w:p><w:r><w:t>a</w:t></w:r></w:p></w:tc><w:tc><w:p><w:r><w:t>b</w:t></w:r></w:p></w:tc></w:tr>` +
		`<w:tr><w:tc><w:p><w:r><w:t>c</w:t></w:r></w:p></w:tc><w:tc><w:p><w:r><w:t>d</w:t></w:r></w:p></w:tc></w:tr></w:tbl>` +
		`<w:p><w:pPr><w:numPr><w:ilvl w:val="` + ilvl + `"/><w:numId w:val="1"/></w:numPr></w:pPr><w:r><w:t>item</w:t></w:r></w:p>`
	vZip = &zip.ReadCloser{}
	vMember("[Content_Types].xml", `<?xml version="1.0"?><Types xmlns="http://schemas.openxmlformats.org/package/2006/content-types"/>`)
	vMember("word/document.xml", `<?xml version="1.0"?><w:document `+vWNS+`><w:body>`+body+`<w:sectPr/></w:body></w:document>`)
	vMember("word/styles.xml", vStylesXML)
	vMember("word/numbering.xml", `<?xml version="1.0"?><w:numbering `+vWNS+`><w:abstractNum w:abstractNumId="0"><w:lvl w:ilvl="0"><w:start w:val="1"/><w:numFmt w:val="decimal"/><w:lvlText w:val="%1."/></w:lvl></w:abstractNum><w:num w:numId="1"><w:abstractNumId w:val="0"/></w:num></w:numbering>`)
	r, err := Open("any.docx")
	if err == nil && r != nil {
		_, _ = r.Text()
		_, _ = r.Markdown()
		_, _ = r.Document()
		_ = r.Close()
	}
	vReach("end")
}

// H_C02_docx_style_based_on_cycles: w:basedOn links written as a cycle are resolved in bounded time.
//
//symgo:harness prop=C02 kernel=docx-style-cycles hang=1 loop=5000 steps=50000000 noreplay=1
//symgo:redirect archive/zip.OpenReader vStubOpenZip
//symgo:desc zip layer cut (member content model); paragraph styles S1, S2, S3 whose w:basedOn links form (enumerated) a chain, a self-loop, a 2-cycle, a 3-cycle through the start, or a cycle that does not pass through the start (S1->S2->S3->S2); a paragraph in style S1: Open, Text, Markdown and Document return within the loop bound 5000
func H_C02_docx_style_based_on_cycles() {
	parents := [][3]string{{"S2", "S3", ""}, {"S1", "", ""}, {"S2", "S1", ""}, {"S2", "S3", "S1"}, {"S2", "S3", "S2"}}[vAnyIntIn(0, 4)]
	styles := `<?xml version="1.0"?><w:styles ` + vWNS + `>`
	for i, n := range []string{"S1", "S2", "S3"} {
		based := ""
		if parents[i] != "" {
			based = `<w:basedOn w:val="` + parents[i] + `"/>`
		}
		styles += `<w:style w:type="paragraph" w:customStyle="1" w:styleId="` + n + `"><w:name w:val="Style ` + n + `"/>` + based + `<w:rPr><w:b/></w:rPr></w:style>`
	}
	styles += `</w:styles>`
	vZip = &zip.ReadCloser{}
	vMember("[Content_Types].xml", `<?xml version="1.0"?><Types xmlns="http://schemas.openxmlformats.org/package/2006/content-types"/>`)
	vMember("word/document.xml", `<?xml version="1.0"?><w:document `+vWNS+`><w:body><w:p><w:pPr><w:pStyle w:val="S1"/></w:pPr><w:r><w:t>Body text.</w:t></w:r></w:p><w:sectPr/></w:body></w:document>`)
	vMember("word/styles.xml", styles)
	r, err := Open("any.docx")
	if err == nil && r != nil {
		_, _ = r.Text()
		_, _ = r.Markdown()
		_, _ = r.Document()
		_ = r.Close()
	}
	vReach("end")
}
