//go:build verif_harness

package docx

import "encoding/xml"

// vParseDocumentXML is parseDocument without the zip read: the same three steps on the given bytes.
func vParseDocumentXML(r *Reader, data []byte) error {
	r.document = &documentXML{}
	if err := xml.Unmarshal(data, r.document); err != nil {
		return err
	}
	if err := r.parseBodyElementsInOrder(data); err != nil {
		return err
	}
	r.processElementsInOrder()
	return nil
}

const vDocHead = `<?xml version="1.0" encoding="UTF-8" standalone="yes"?><w:document xmlns:w="http://schemas.openxmlformats.org/wordprocessingml/2006/main" xmlns:r="http://schemas.openxmlformats.org/officeDocument/2006/relationships"><w:body>`
const vDocTail = `<w:sectPr><w:pgSz w:w="12240" w:h="15840"/></w:sectPr></w:body></w:document>`

// H_C16_docx_inline_order: the text of a paragraph is its inline content in source order: text, tabs, line breaks and
// symbols inside each run as written, runs and hyperlinks as interleaved.
//
//symgo:harness prop=C16 kernel=K4-docx-inline-order
//symgo:desc word/document.xml text built by the harness and put through the three steps of parseDocument (xml.Unmarshal - real tokeniser, reflection walk modelled and validated natively -, parseBodyElementsInOrder, processElementsInOrder; the zip read is left out); one body paragraph with 1..3 pieces, each a plain run, a run "tab then text", a run "text, line break, text", a run "text, carriage return (w:cr), text", a run "text, non-breaking hyphen (w:noBreakHyphen), text", a hyperlink holding a run, or a run "symbol then text" (enumerated): the parsed paragraph's Text is the pieces' texts in source order
func H_C16_docx_inline_order() {
	n := vAnyIntIn(1, 3)
	body, want := "<w:p>", ""
	for i := 0; i < n; i++ {
		w := "w" + string(rune('A'+i))
		switch vAnyIntIn(0, 6) {
		case 5:
			body += `<w:r><w:t>` + w + `</w:t><w:cr/><w:t>y</w:t></w:r>`
			want += w + "\ny"
		case 6:
			body += `<w:r><w:t>` + w + `</w:t><w:noBreakHyphen/><w:t>z</w:t></w:r>`
			want += w + "\u2011z"
		case 0:
			body += `<w:r><w:t xml:space="preserve">` + w + ` </w:t></w:r>`
			want += w + " "
		case 1:
			body += `<w:r><w:tab/><w:t>` + w + `</w:t></w:r>`
			want += "\t" + w
		case 2:
			body += `<w:r><w:t>` + w + `</w:t><w:br/><w:t>x</w:t></w:r>`
			want += w + "\nx"
		case 3:
			body += `<w:hyperlink r:id="rId5"><w:r><w:t>` + w + `</w:t></w:r></w:hyperlink>`
			want += w
		default:
			body += `<w:r><w:sym w:font="Wingdings" w:char="F0E0"/><w:t>` + w + `</w:t></w:r>`
			want += "" + w
		}
	}
	body += "</w:p>"
	r := &Reader{}
	err := vParseDocumentXML(r, []byte(vDocHead+body+vDocTail))
	vAssert("no-error", err == nil)
	vAssert("one-paragraph", len(r.paragraphs) == 1)
	vObserveStr("text", r.paragraphs[0].Text)
	vAssert("inline-content-in-source-order", r.paragraphs[0].Text == want)
	vReach("end")
}
