//go:build verif_harness

package docx

import (
	"strings"

	"github.com/tsawler/tabula/rag"
)

// H_C15_docx_heading_and_lists: headings come out as ATX headings at the shifted, capped level; list items keep their
// order, nesting depth and ordered/unordered kind; body text is kept.
//
//symgo:harness prop=C15 kernel=K2K3-docx-markdown
//symgo:desc document = heading (level symbolic in [0,9]) + paragraph + 2..3 list items (depth symbolic in [0,2] each, one list, unordered: no numbering part) + paragraph; HeadingLevelOffset symbolic in [-2,7], MaxHeadingLevel symbolic in [0,6]: heading level = clamp(max(level,1)+offset, 1, min(max or 6, 6)); list items appear in source order, each indented by two spaces per level with a '-' marker; both paragraphs present
func H_C15_docx_heading_and_lists() {
	level := vAnyIntRange(0, 9)
	off := vAnyIntRange(-2, 7)
	max := vAnyIntRange(0, 6)
	r := &Reader{}
	add := func(p parsedParagraph) {
		pp := p
		r.elements = append(r.elements, parsedElement{Type: "paragraph", Paragraph: &pp})
	}
	add(parsedParagraph{Text: "Heading text", IsHeading: true, Level: level})
	add(parsedParagraph{Text: "First body."})
	ni := vAnyIntIn(2, 3)
	depth := make([]int, ni)
	for i := 0; i < ni; i++ {
		depth[i] = vAnyIntIn(0, 2)
		add(parsedParagraph{Text: "item" + string(rune('A'+i)), IsListItem: true, NumID: "1", ListLevel: depth[i]})
	}
	add(parsedParagraph{Text: "Last body."})
	opts := rag.DefaultMarkdownOptions()
	opts.HeadingLevelOffset, opts.MaxHeadingLevel = off, max
	md, err := r.MarkdownWithRAGOptions(ExtractOptions{}, opts)
	vAssert("no-error", err == nil)
	src := level
	if src < 1 {
		src = 1
	}
	want := src + off
	if want < 1 {
		want = 1
	}
	limit := 6
	if max > 0 && max < 6 {
		limit = max
	}
	if want > limit {
		want = limit
	}
	lines := strings.Split(md, "\n")
	n := 0
	for n < len(lines[0]) && lines[0][n] == '#' {
		n++
	}
	vAssert("atx-heading-level", n == want)
	vAssert("heading-text", lines[0][n:] == " Heading text")
	// list items in order with indentation and marker
	li := 0
	for _, ln := range lines {
		if li < ni && strings.HasSuffix(ln, "item"+string(rune('A'+li))) {
			vAssert("list-item-indent-and-marker", ln == strings.Repeat("  ", depth[li])+"- item"+string(rune('A'+li)))
			li++
		}
	}
	vAssert("all-list-items-in-order", li == ni)
	vAssert("body-text-kept", strings.Contains(md, "First body.") && strings.Contains(md, "Last body."))
	vReach("end")
}
