//go:build verif_harness

package docx

import "strings"

// H_C11_docx_paragraph_exclusion: with header/footer exclusion, a body paragraph is dropped only if its text equals a
// line of a header or footer part.
//
//symgo:harness prop=C11 kernel=K3-docx-paragraph-rule
//symgo:desc paragraph text = 0..3 symbolic bytes over {a, b, space, newline}; header part lines {"ab", "a", "b b"}, footer part line {"ba"}; ExcludeHeaders / ExcludeFooters symbolic: excluded iff the trimmed text equals a trimmed non-empty line of an enabled part
func H_C11_docx_paragraph_exclusion() {
	txt := vAnyStringOf(vAnyIntIn(0, 3), "ab \n")
	r := &Reader{headerTexts: []string{"ab", "a\n b b "}, footerTexts: []string{"ba"}}
	opts := ExtractOptions{ExcludeHeaders: vAnyBool(), ExcludeFooters: vAnyBool()}
	got := r.shouldExcludeParagraph(txt, opts)
	t := strings.TrimSpace(txt)
	want := false
	if t != "" {
		if opts.ExcludeHeaders && (t == "ab" || t == "a" || t == "b b") {
			want = true
		}
		if opts.ExcludeFooters && t == "ba" {
			want = true
		}
	}
	vAssert("excluded-iff-equal-to-a-header-or-footer-line", got == want)
	vReach("end")
}
