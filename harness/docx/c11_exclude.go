//go:build verif_harness

package docx

import (
	"archive/zip"
	"strings"
)

// H_C11_docx_paragraph_exclusion: with header/footer exclusion, a body paragraph is dropped only if its text equals a
// line of a header or footer part.
//
//symgo:harness prop=C11 kernel=K3-docx-paragraph-rule
//symgo:desc paragraph text = 0..3 symbolic bytes over {a, b, space, newline}; header part lines {"ab", "a", "b b"}, footer part line {"ba"}; ExcludeHeaders / ExcludeFooters symbolic: excluded iff the trimmed text equals a trimmed non-empty line of an enabled part
func H_C11_docx_paragraph_exclusion() {
	txt := vAnyStringOf(vAnyIntIn(0, 3), "ab \n")
	r := &Reader{headerTexts: []string{"ab", "a\n b b "}, footerTexts: []string{"ba"}}
	opts := ExtractOptions{ExcludeHeaders: vAnyBool(), ExcludeFooters: vAnyBool()}
	got := r.shouldExcludeParagraph(txt, opts)
	t := strings.TrimSpace(txt)
	want := false
	if t != "" {
		if opts.ExcludeHeaders && (t == "ab" || t == "a" || t == "b b") {
			want = true
		}
		if opts.ExcludeFooters && t == "ba" {
			want = true
		}
	}
	vAssert("excluded-iff-equal-to-a-header-or-footer-line", got == want)
	vReach("end")
}

// H_C11_docx_exclusion_only_deletes: with exclusion, the text is the unfiltered text minus the excluded paragraphs: the
// surviving lines - list numbers included - are unchanged.
//
//symgo:harness prop=C11 kernel=K3b-docx-exclusion-only-deletes noreplay=1
//symgo:redirect archive/zip.OpenReader vStubOpenZip
//symgo:desc zip layer cut (member content model); a DOCX package with a decimal numbered list of three items, a closing paragraph and a header part whose text equals the first item, the second item or nothing in the body (enumerated); every non-empty line of Text() with ExcludeHeaders is a line of Text() without it - same list number -, in the same order, and exactly the matching item is gone
func H_C11_docx_exclusion_only_deletes() {
	items := []string{"Introduction", "Methods", "Results"}
	hdr := vAnyIntIn(0, 2)
	headerText := "Unrelated running header"
	if hdr < 2 {
		headerText = items[hdr]
	}
	body := ""
	for _, t := range items {
		body += `<w:p><w:pPr><w:numPr><w:ilvl w:val="0"/><w:numId w:val="1"/></w:numPr></w:pPr><w:r><w:t>` + t + `</w:t></w:r></w:p>`
	}
	body += `<w:p><w:r><w:t>Closing words.</w:t></w:r></w:p>`
	vZip = &zip.ReadCloser{}
	vMember("[Content_Types].xml", `<?xml version="1.0"?><Types xmlns="http://schemas.openxmlformats.org/package/2006/content-types"/>`)
	vMember("word/_rels/document.xml.rels", `<?xml version="1.0"?><Relationships xmlns="http://schemas.openxmlformats.org/package/2006/relationships"><Relationship Id="rId6" Type="http://schemas.openxmlformats.org/officeDocument/2006/relationships/header" Target="header1.xml"/></Relationships>`)
	vMember("word/header1.xml", `<?xml version="1.0"?><w:hdr `+vWNS+`><w:p><w:r><w:t>`+headerText+`</w:t></w:r></w:p></w:hdr>`)
	vMember("word/document.xml", `<?xml version="1.0"?><w:document `+vWNS+`><w:body>`+body+`<w:sectPr><w:headerReference w:type="default" r:id="rId6"/></w:sectPr></w:body></w:document>`)
	vMember("word/styles.xml", vStylesXML)
	vMember("word/numbering.xml", `<?xml version="1.0"?><w:numbering `+vWNS+`><w:abstractNum w:abstractNumId="0"><w:lvl w:ilvl="0"><w:start w:val="1"/><w:numFmt w:val="decimal"/><w:lvlText w:val="%1."/></w:lvl></w:abstractNum><w:num w:numId="1"><w:abstractNumId w:val="0"/></w:num></w:numbering>`)
	r, err := Open("any.docx")
	vAssert("opens", err == nil && r != nil)
	plain, err1 := r.TextWithOptions(ExtractOptions{})
	excl, err2 := r.TextWithOptions(ExtractOptions{ExcludeHeaders: true})
	vAssert("no-error", err1 == nil && err2 == nil)
	lines := func(s string) []string {
		var out []string
		for _, l := range strings.Split(s, "\n") {
			if strings.TrimSpace(l) != "" {
				out = append(out, strings.TrimSpace(l))
			}
		}
		return out
	}
	pl, el := lines(plain), lines(excl)
	vAssert("unfiltered-has-four-lines", len(pl) == 4 && strings.HasPrefix(pl[1], "2."))
	want := len(pl)
	if hdr < 2 {
		want--
	}
	vAssert("only-the-matching-paragraph-is-gone", len(el) == want)
	k := 0
	for _, l := range el {
		for k < len(pl) && pl[k] != l {
			k++
		}
		vAssert("surviving-lines-unchanged-and-in-order", k < len(pl))
		k++
	}
	vReach("end")
}
