//go:build verif_harness

package pptx

import (
	"strings"

	"github.com/tsawler/tabula/rag"
)

// ---- reference reader for GitHub-flavoured-Markdown pipe tables (GFM spec 4.10), used as the oracle.

// vGFMSplitRow splits one table line into trimmed cell texts; "\|" is a literal pipe.
func vGFMSplitRow(line string) []string {
	// trim spaces
	for len(line) > 0 && (line[0] == ' ' || line[0] == '\t') {
		line = line[1:]
	}
	for len(line) > 0 && (line[len(line)-1] == ' ' || line[len(line)-1] == '\t') {
		line = line[:len(line)-1]
	}
	if len(line) > 0 && line[0] == '|' {
		line = line[1:]
	}
	// a trailing unescaped pipe closes the last cell
	if n := len(line); n > 0 && line[n-1] == '|' && (n < 2 || line[n-2] != '\\') {
		line = line[:n-1]
	}
	var cells []string
	var cur []byte
	for i := 0; i < len(line); i++ {
		c := line[i]
		if c == '\\' && i+1 < len(line) && line[i+1] == '|' {
			cur = append(cur, '|')
			i++
			continue
		}
		if c == '|' {
			cells = append(cells, vGFMTrim(string(cur)))
			cur = nil
			continue
		}
		cur = append(cur, c)
	}
	return append(cells, vGFMTrim(string(cur)))
}

func vGFMTrim(s string) string {
	for len(s) > 0 && (s[0] == ' ' || s[0] == '\t') {
		s = s[1:]
	}
	for len(s) > 0 && (s[len(s)-1] == ' ' || s[len(s)-1] == '\t') {
		s = s[:len(s)-1]
	}
	return s
}

func vGFMIsDelimiterCell(s string) bool {
	if len(s) > 0 && s[0] == ':' {
		s = s[1:]
	}
	if len(s) > 0 && s[len(s)-1] == ':' {
		s = s[:len(s)-1]
	}
	if len(s) == 0 {
		return false
	}
	for i := 0; i < len(s); i++ {
		if s[i] != '-' {
			return false
		}
	}
	return true
}

// vGFMParse reads md as exactly one pipe table and returns its rows (header first); ok=false if md is not one table.
func vGFMParse(md string) ([][]string, bool) {
	var lines []string
	start := 0
	for i := 0; i <= len(md); i++ {
		if i == len(md) || md[i] == '\n' {
			if i > start || i < len(md) {
				lines = append(lines, md[start:i])
			}
			start = i + 1
		}
	}
	for len(lines) > 0 && lines[len(lines)-1] == "" {
		lines = lines[:len(lines)-1]
	}
	if len(lines) < 2 {
		return nil, false
	}
	header := vGFMSplitRow(lines[0])
	delim := vGFMSplitRow(lines[1])
	if len(delim) != len(header) {
		return nil, false
	}
	for _, d := range delim {
		if !vGFMIsDelimiterCell(d) {
			return nil, false
		}
	}
	rows := [][]string{header}
	for _, ln := range lines[2:] {
		if ln == "" {
			return nil, false // a blank line would end the table: the output is more than one block
		}
		cells := vGFMSplitRow(ln)
		for len(cells) < len(header) {
			cells = append(cells, "")
		}
		rows = append(rows, cells[:len(header)])
	}
	return rows, true
}

// vSymCells bounds how many cells of a table are symbolic (the others hold a concrete text).
var vSymCells int

// vCellText: 0..2 symbolic bytes over the alphabet that matters for pipe tables.
func vCellText() string {
	if vSymCells <= 0 {
		return "é|y" // a non-ASCII character and a pipe
	}
	vSymCells--
	n := vAnyIntIn(0, 2)
	b := make([]byte, n)
	for i := range b {
		b[i] = vAnyByteOf("|\n a-")
	}
	return string(b)
}

// vNormCell: what a Markdown reader may legitimately see for a cell: newlines become spaces, outer blanks are trimmed.
func vNormCell(s string) string {
	b := []byte(s)
	for i := range b {
		if b[i] == '\n' {
			b[i] = ' '
		}
	}
	return vGFMTrim(string(b))
}

// H_C15_pptx_table_markdown: a GFM reader reads the pipe table back as the same rows x columns of cell texts.
//
//symgo:harness prop=C15 kernel=K1-pptx-table
//symgo:desc shapes 1..2 x 1..2 (enumerated); up to 2 quick / 4 thorough cells hold 0..2 symbolic bytes over {pipe, newline, space, a, -}, the others the concrete text "é|y" (a non-ASCII character next to a pipe) (backslash excluded: GFM cannot represent a literal backslash before a pipe); oracle: a reference GFM pipe-table reader in the harness (header row, delimiter row of equal cell count, \\| unescaping, cell trimming)
func H_C15_pptx_table_markdown() {
	vSymCells = 2 + 2*vTier()
	rows, cols := vAnyIntIn(1, 2), vAnyIntIn(1, 2)
	texts := make([][]string, rows)
	for i := range texts {
		texts[i] = make([]string, cols)
		for j := range texts[i] {
			texts[i][j] = vCellText()
		}
	}
	t := &Table{Columns: cols}
	for i := 0; i < rows; i++ {
		var r []TableCell
		for j := 0; j < cols; j++ {
			r = append(r, TableCell{Text: texts[i][j], RowSpan: 1, ColSpan: 1})
		}
		t.Rows = append(t.Rows, r)
	}
	md := t.ToMarkdown()
	got, ok := vGFMParse(md)
	vAssert("is-one-pipe-table", ok)
	vAssert("row-count", len(got) == rows)
	for i := 0; i < rows; i++ {
		vAssert("column-count", len(got[i]) == cols)
		for j := 0; j < cols; j++ {
			vAssert("cell-text", got[i][j] == vNormCell(texts[i][j]))
		}
	}
	vReach("end")
}

// H_C15_pptx_slide_markdown: a slide's Markdown keeps its structure: the title is a level-1 heading, bullets keep their
// nesting, and every table is its own pipe table - two tables on one slide are not run together.
//
//symgo:harness prop=C15 kernel=K2-pptx-slide-markdown
//symgo:desc Reader with one or two harness-built slides; the first has a title, a body block of 1..2 bullet paragraphs at levels 0..1 (enumerated) and 0..2 tables (enumerated) of 2 x 2 and 2 x 3 cells; speaker notes present or not; Markdown(): split at blank lines, the blocks that start with a pipe are exactly the slide's tables, each read back by the reference GFM reader with its own rows, columns and cell texts; the title line is "# <title>"; a level-1 bullet is indented under a level-0 bullet
func H_C15_pptx_slide_markdown() {
	ntab := vAnyIntIn(0, 2)
	nbul := vAnyIntIn(1, 2)
	s1 := &Slide{Index: 0, Title: "Quarterly"}
	body := TextBlock{Placeholder: "body"}
	for i := 0; i < nbul; i++ {
		lvl := 0
		if i == 1 {
			lvl = vAnyIntIn(0, 1)
		}
		body.Paragraphs = append(body.Paragraphs, Paragraph{Text: "bullet" + string(rune('A'+i)), IsBullet: true, Level: lvl})
	}
	s1.Content = []TextBlock{{Text: "Quarterly", IsTitle: true, Placeholder: "title", Paragraphs: []Paragraph{{Text: "Quarterly"}}}, body}
	shapes := [][2]int{{2, 2}, {2, 3}}
	var want [][][]string
	for k := 0; k < ntab; k++ {
		t := Table{Columns: shapes[k][1]}
		var rows [][]string
		for i := 0; i < shapes[k][0]; i++ {
			var r []TableCell
			var rt []string
			for j := 0; j < shapes[k][1]; j++ {
				txt := "t" + string(rune('0'+k)) + "r" + string(rune('0'+i)) + "c" + string(rune('0'+j))
				r = append(r, TableCell{Text: txt, RowSpan: 1, ColSpan: 1})
				rt = append(rt, txt)
			}
			t.Rows = append(t.Rows, r)
			rows = append(rows, rt)
		}
		s1.Tables = append(s1.Tables, t)
		want = append(want, rows)
	}
	if vAnyIntIn(0, 1) == 1 {
		s1.Notes = "remember this"
	}
	r := &Reader{slides: []*Slide{s1}}
	if vAnyIntIn(0, 1) == 1 {
		r.slides = append(r.slides, &Slide{Index: 1, Title: "Second", Content: []TextBlock{{Text: "Second", IsTitle: true, Paragraphs: []Paragraph{{Text: "Second"}}}}})
	}
	md, err := r.Markdown()
	vAssert("no-error", err == nil)
	lines := splitLines(md)
	vAssert("title-is-level-1-heading", len(lines) > 0 && lines[0] == "# Quarterly")
	// blocks separated by blank lines
	var blocks [][]string
	var cur []string
	for _, ln := range append(lines, "") {
		if ln == "" {
			if len(cur) > 0 {
				blocks = append(blocks, cur)
				cur = nil
			}
			continue
		}
		cur = append(cur, ln)
	}
	k := 0
	for _, b := range blocks {
		if len(b[0]) == 0 || b[0][0] != '|' {
			continue
		}
		vAssert("no-more-pipe-tables-than-the-slide-has", k < len(want))
		got, ok := vGFMParse(joinLines(b))
		vAssert("each-table-is-one-well-formed-pipe-table", ok)
		vAssert("table-row-count", len(got) == len(want[k]))
		for i := range want[k] {
			vAssert("table-column-count", len(got[i]) == len(want[k][i]))
			for j := range want[k][i] {
				vAssert("table-cell-text", got[i][j] == want[k][i][j])
			}
		}
		k++
	}
	vAssert("every-table-present", k == len(want))
	if nbul == 2 {
		a, b := -1, -1
		for i, ln := range lines {
			if ln == "- bulletA" {
				a = i
			}
			if ln == "- bulletB" || ln == "  - bulletB" {
				b = i
			}
		}
		vAssert("bullets-in-order", a >= 0 && b == a+1)
		vAssert("bullet-nesting-kept", (lines[b] == "  - bulletB") == (body.Paragraphs[1].Level == 1))
	}
	vReach("end")
}

func splitLines(s string) []string {
	var out []string
	cur := ""
	for i := 0; i < len(s); i++ {
		if s[i] == '\n' {
			out = append(out, cur)
			cur = ""
			continue
		}
		cur += s[i : i+1]
	}
	return append(out, cur)
}

func joinLines(ls []string) string {
	out := ""
	for _, l := range ls {
		out += l + "\n"
	}
	return out
}

// H_C15_pptx_heading_options: the slide title is a level-1 heading shifted by the configured offset and capped.
//
//symgo:harness prop=C15 kernel=K3d-pptx-heading-options
//symgo:desc reader with one slide (title "TitleX", one body paragraph); MarkdownWithRAGOptions with HeadingLevelOffset in {-1, 0, 2, 7} and MaxHeadingLevel in {1, 3, 6} (enumerated), no front matter or TOC: exactly one ATX heading line, "#" x clamp(1 + offset, 1, max) + " TitleX"
func H_C15_pptx_heading_options() {
	off := []int{-1, 0, 2, 7}[vAnyIntIn(0, 3)]
	max := []int{1, 3, 6}[vAnyIntIn(0, 2)]
	r := &Reader{slides: []*Slide{{Index: 0, Title: "TitleX", Content: []TextBlock{{Text: "TitleX", IsTitle: true}, {Text: "Body words."}}}}}
	opts := rag.DefaultMarkdownOptions()
	opts.IncludeMetadata, opts.IncludeTableOfContents = false, false
	opts.HeadingLevelOffset, opts.MaxHeadingLevel = off, max
	md, err := r.MarkdownWithRAGOptions(ExtractOptions{IncludeTitles: true}, opts)
	vAssert("markdown-no-error", err == nil)
	want := 1 + off
	if want < 1 {
		want = 1
	}
	if want > max {
		want = max
	}
	n := 0
	for _, ln := range strings.Split(md, "\n") {
		if strings.HasPrefix(ln, "#") {
			n++
			vAssert("heading-level-is-shifted-and-capped", ln == strings.Repeat("#", want)+" TitleX")
		}
	}
	vAssert("exactly-one-heading-line", n == 1)
	vReach("end")
}
