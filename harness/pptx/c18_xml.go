//go:build verif_harness

package pptx

import (
	"archive/zip"
	"errors"
	"strings"
)

var vParts map[string]string

func vStubPart(r *Reader, name string) ([]byte, error) {
	if s, ok := vParts[name]; ok {
		return []byte(s), nil
	}
	return nil, errors.New("stub: no such part")
}

// H_C18_pptx_from_xml: from the XML text of presentation.xml, its relationships and the slide parts to the slide list:
// the order of the presentation's slide list, each slide showing its own part's text.
//
//symgo:harness prop=C18 kernel=K3-pptx-slides-from-xml noreplay=1
//symgo:redirect (*github.com/tsawler/tabula/pptx.Reader).getFileContent vStubPart
//symgo:desc three slide parts slide1..3.xml plus an unlisted decoy slide4.xml; presentation.xml lists three r:ids in an enumerated permutation; the relationship file maps ids to targets written relative ("slides/slide2.xml") or absolute ("/ppt/slides/slide2.xml") (enumerated) among master/theme relationships; archive order reversed or not (enumerated); each slide has a title placeholder and a body text naming the part: parseRelationships + parsePresentation + parseSlides (real tokeniser, modelled reflection walk; zip cut at getFileContent and a harness-built member list) give 3 slides in declared order, slide i carrying exactly its own part's title and body; the decoy's text appears nowhere
func H_C18_pptx_from_xml() {
	p := []int{0, 1, 2}
	for i := 0; i < 2; i++ {
		j := vAnyIntIn(i, 2)
		p[i], p[j] = p[j], p[i]
	}
	abs := vAnyIntIn(0, 1) == 1
	const ns = `xmlns:a="http://schemas.openxmlformats.org/drawingml/2006/main" xmlns:r="http://schemas.openxmlformats.org/officeDocument/2006/relationships" xmlns:p="http://schemas.openxmlformats.org/presentationml/2006/main"`
	pres := `<?xml version="1.0" encoding="UTF-8" standalone="yes"?><p:presentation ` + ns + `><p:sldMasterIdLst><p:sldMasterId id="2147483648" r:id="rId7"/></p:sldMasterIdLst><p:sldIdLst>`
	for i := 0; i < 3; i++ {
		pres += `<p:sldId id="` + string(rune('2'+i)) + `56" r:id="rId` + string(rune('1'+p[i])) + `"/>`
	}
	pres += `</p:sldIdLst><p:sldSz cx="9144000" cy="6858000"/></p:presentation>`
	rels := `<?xml version="1.0" encoding="UTF-8" standalone="yes"?><Relationships xmlns="http://schemas.openxmlformats.org/package/2006/relationships"><Relationship Id="rId7" Type="http://schemas.openxmlformats.org/officeDocument/2006/relationships/slideMaster" Target="slideMasters/slideMaster1.xml"/>`
	vParts = map[string]string{}
	var members []string
	for k := 0; k < 4; k++ {
		name := "ppt/slides/slide" + string(rune('1'+k)) + ".xml"
		members = append(members, name, "ppt/slides/_rels/slide"+string(rune('1'+k))+".xml.rels")
		vParts[name] = `<?xml version="1.0" encoding="UTF-8" standalone="yes"?><p:sld ` + ns + `><p:cSld><p:spTree><p:nvGrpSpPr><p:cNvPr id="1" name=""/><p:cNvGrpSpPr/><p:nvPr/></p:nvGrpSpPr><p:grpSpPr/>` +
			`<p:sp><p:nvSpPr><p:cNvPr id="2" name="Title 1"/><p:cNvSpPr/><p:nvPr><p:ph type="title"/></p:nvPr></p:nvSpPr><p:spPr/><p:txBody><a:bodyPr/><a:p><a:r><a:rPr lang="en-US" b="1"/><a:t>Title` + string(rune('1'+k)) + `</a:t></a:r></a:p></p:txBody></p:sp>` +
			`<p:sp><p:nvSpPr><p:cNvPr id="3" name="Content 2"/><p:cNvSpPr/><p:nvPr><p:ph idx="1"/></p:nvPr></p:nvSpPr><p:spPr><a:xfrm><a:off x="100" y="200"/><a:ext cx="300" cy="400"/></a:xfrm></p:spPr><p:txBody><a:bodyPr/><a:p><a:pPr lvl="1"/><a:r><a:t>Body` + string(rune('1'+k)) + `</a:t></a:r></a:p></p:txBody></p:sp>` +
			`</p:spTree></p:cSld></p:sld>`
		if k < 3 {
			target := "slides/slide" + string(rune('1'+k)) + ".xml"
			if abs {
				target = "/ppt/" + target
			}
			rels += `<Relationship Id="rId` + string(rune('1'+k)) + `" Type="http://schemas.openxmlformats.org/officeDocument/2006/relationships/slide" Target="` + target + `"/>`
		}
	}
	rels += `<Relationship Id="rId8" Type="http://schemas.openxmlformats.org/officeDocument/2006/relationships/theme" Target="theme/theme1.xml"/></Relationships>`
	vParts["ppt/presentation.xml"] = pres
	vParts["ppt/_rels/presentation.xml.rels"] = rels
	zr := &zip.ReadCloser{}
	zr.File = append(zr.File, &zip.File{FileHeader: zip.FileHeader{Name: "ppt/presentation.xml"}})
	if vAnyIntIn(0, 1) == 1 {
		for i, j := 0, len(members)-1; i < j; i, j = i+1, j-1 {
			members[i], members[j] = members[j], members[i]
		}
	}
	for _, n := range members {
		zr.File = append(zr.File, &zip.File{FileHeader: zip.FileHeader{Name: n}})
	}
	r := &Reader{zipReader: zr, slideRels: map[int]*relationshipsXML{}}
	vAssert("relationships-parse", r.parseRelationships() == nil)
	vAssert("presentation-parses", r.parsePresentation() == nil)
	vAssert("slides-parse", r.parseSlides() == nil)
	vAssert("slide-count-is-declared-parts", len(r.slides) == 3)
	for i := 0; i < 3; i++ {
		var all string
		for _, b := range r.slides[i].Content {
			all += b.Text + "\n"
		}
		own := string(rune('1' + p[i]))
		vAssert("own-title", strings.Contains(all, "Title"+own))
		vAssert("own-body", strings.Contains(all, "Body"+own))
		for k := 0; k < 4; k++ {
			if other := string(rune('1' + k)); other != own {
				vAssert("no-other-parts-text", !strings.Contains(all, "Title"+other) && !strings.Contains(all, "Body"+other))
			}
		}
	}
	vReach("end")
}

var vZipRC *zip.ReadCloser

func vStubOpenZip(name string) (*zip.ReadCloser, error) { return vZipRC, nil }

func vZipMember(name, content string) {
	vZipRC.File = append(vZipRC.File, &zip.File{FileHeader: zip.FileHeader{Name: name}})
	vZipContent(name, content)
}

// H_C18_pptx_package_text: a whole presentation opened from the texts of its parts: slides in declared order, each page
// carrying its own title, body and speaker notes and nothing of the other slide; footer-type placeholders leave when
// footers are excluded, the body stays.
//
//symgo:harness prop=C18 kernel=K3-pptx-package-text noreplay=1
//symgo:redirect archive/zip.OpenReader vStubOpenZip
//symgo:desc zip layer cut (member content model); two slides declared in the order slide2, slide1 or slide1, slide2 (enumerated); each slide has a title, a body paragraph, a footer placeholder (ftr), a slide-number placeholder (sldNum) and a notes slide reached through its own relationships - slide1's notes live in notesSlide2.xml and slide2's in notesSlide1.xml (crosswise file numbers); Text with notes: page i holds slide i's title, body and notes and none of the other slide's; with ExcludeFooters the footer and slide-number texts are gone from every page and titles, bodies and notes remain
func H_C18_pptx_package_text() {
	const ns = `xmlns:a="http://schemas.openxmlformats.org/drawingml/2006/main" xmlns:r="http://schemas.openxmlformats.org/officeDocument/2006/relationships" xmlns:p="http://schemas.openxmlformats.org/presentationml/2006/main"`
	sp := func(ph, text string) string {
		return `<p:sp><p:nvSpPr><p:cNvPr id="2" name="x"/><p:cNvSpPr/><p:nvPr><p:ph type="` + ph + `"/></p:nvPr></p:nvSpPr><p:spPr/><p:txBody><a:bodyPr/><a:p><a:r><a:t>` + text + `</a:t></a:r></a:p></p:txBody></p:sp>`
	}
	slide := func(k string) string {
		return `<?xml version="1.0"?><p:sld ` + ns + `><p:cSld><p:spTree><p:nvGrpSpPr><p:cNvPr id="1" name=""/><p:cNvGrpSpPr/><p:nvPr/></p:nvGrpSpPr><p:grpSpPr/>` +
			sp("title", "Title"+k) + sp("body", "Body"+k) + sp("ftr", "FooterText"+k) + sp("sldNum", "Num"+k) + `</p:spTree></p:cSld></p:sld>`
	}
	notes := func(k string) string {
		return `<?xml version="1.0"?><p:notes ` + ns + `><p:cSld><p:spTree><p:nvGrpSpPr><p:cNvPr id="1" name=""/><p:cNvGrpSpPr/><p:nvPr/></p:nvGrpSpPr><p:grpSpPr/>` +
			`<p:sp><p:nvSpPr><p:cNvPr id="2" name="img"/><p:cNvSpPr/><p:nvPr><p:ph type="sldImg"/></p:nvPr></p:nvSpPr><p:spPr/></p:sp>` + sp("body", "Notes"+k) + `</p:spTree></p:cSld></p:notes>`
	}
	rels := func(target string) string {
		return `<?xml version="1.0"?><Relationships xmlns="http://schemas.openxmlformats.org/package/2006/relationships"><Relationship Id="rId1" Type="http://schemas.openxmlformats.org/officeDocument/2006/relationships/slideLayout" Target="../slideLayouts/slideLayout1.xml"/><Relationship Id="rId2" Type="http://schemas.openxmlformats.org/officeDocument/2006/relationships/notesSlide" Target="` + target + `"/></Relationships>`
	}
	first := vAnyIntIn(1, 2)
	order := []string{"1", "2"}
	if first == 2 {
		order = []string{"2", "1"}
	}
	vZipRC = &zip.ReadCloser{}
	vZipMember("[Content_Types].xml", `<?xml version="1.0"?><Types xmlns="http://schemas.openxmlformats.org/package/2006/content-types"/>`)
	vZipMember("ppt/presentation.xml", `<?xml version="1.0"?><p:presentation `+ns+`><p:sldIdLst><p:sldId id="256" r:id="rId`+order[0]+`"/><p:sldId id="257" r:id="rId`+order[1]+`"/></p:sldIdLst></p:presentation>`)
	vZipMember("ppt/_rels/presentation.xml.rels", `<?xml version="1.0"?><Relationships xmlns="http://schemas.openxmlformats.org/package/2006/relationships"><Relationship Id="rId1" Type="http://schemas.openxmlformats.org/officeDocument/2006/relationships/slide" Target="slides/slide1.xml"/><Relationship Id="rId2" Type="http://schemas.openxmlformats.org/officeDocument/2006/relationships/slide" Target="slides/slide2.xml"/></Relationships>`)
	vZipMember("ppt/slides/slide1.xml", slide("1"))
	vZipMember("ppt/slides/slide2.xml", slide("2"))
	vZipMember("ppt/slides/_rels/slide1.xml.rels", rels("../notesSlides/notesSlide2.xml"))
	vZipMember("ppt/slides/_rels/slide2.xml.rels", rels("../notesSlides/notesSlide1.xml"))
	vZipMember("ppt/notesSlides/notesSlide2.xml", notes("1"))
	vZipMember("ppt/notesSlides/notesSlide1.xml", notes("2"))
	r, err := Open("any.pptx")
	vAssert("opens", err == nil && r != nil)
	vAssert("two-slides", len(r.slides) == 2)
	for i, k := range order {
		other := "1"
		if k == "1" {
			other = "2"
		}
		for _, excl := range []bool{false, true} {
			txt, terr := r.TextWithOptions(ExtractOptions{SlideNumbers: []int{i}, IncludeTitles: true, IncludeNotes: true, ExcludeFooters: excl})
			vAssert("text-no-error", terr == nil)
			vAssert("own-title-body-notes", strings.Contains(txt, "Title"+k) && strings.Contains(txt, "Body"+k) && strings.Contains(txt, "Notes"+k))
			vAssert("nothing-of-the-other-slide", !strings.Contains(txt, "Title"+other) && !strings.Contains(txt, "Body"+other) && !strings.Contains(txt, "Notes"+other) && !strings.Contains(txt, "FooterText"+other))
			if excl {
				vAssert("footer-placeholders-excluded", !strings.Contains(txt, "FooterText") && !strings.Contains(txt, "Num"+k))
			} else {
				vAssert("footer-placeholders-kept-by-default", strings.Contains(txt, "FooterText"+k) && strings.Contains(txt, "Num"+k))
			}
		}
	}
	vReach("end")
}

// H_C18_pptx_renamed_parts: the slide list names parts by relationship target, not by file-name pattern: slides stored
// under other names or directories are shown, in declared order, and an unreferenced part that happens to look like a
// slide is not.
//
//symgo:harness prop=C18 kernel=K3b-pptx-renamed-parts noreplay=1
//symgo:redirect archive/zip.OpenReader vStubOpenZip
//symgo:desc zip layer cut (member content model); two declared slides whose parts are stored as (enumerated) ppt/slides/slide1.xml + ppt/slides/intro.xml, ppt/deck/a.xml + ppt/deck/b.xml, or ppt/slides/slide2.xml + ppt/slides/slide1.xml, declared in either order (enumerated); an unreferenced decoy ppt/slides/slide7.xml is present or not (enumerated): the reader has exactly the two declared slides in declared order, each page holds its own title only, and the decoy's text appears nowhere
func H_C18_pptx_renamed_parts() {
	const ns = `xmlns:a="http://schemas.openxmlformats.org/drawingml/2006/main" xmlns:r="http://schemas.openxmlformats.org/officeDocument/2006/relationships" xmlns:p="http://schemas.openxmlformats.org/presentationml/2006/main"`
	slide := func(k string) string {
		return `<?xml version="1.0"?><p:sld ` + ns + `><p:cSld><p:spTree><p:nvGrpSpPr><p:cNvPr id="1" name=""/><p:cNvGrpSpPr/><p:nvPr/></p:nvGrpSpPr><p:grpSpPr/>` +
			`<p:sp><p:nvSpPr><p:cNvPr id="2" name="x"/><p:cNvSpPr/><p:nvPr><p:ph type="title"/></p:nvPr></p:nvSpPr><p:spPr/><p:txBody><a:bodyPr/><a:p><a:r><a:t>Title` + k + `</a:t></a:r></a:p></p:txBody></p:sp></p:spTree></p:cSld></p:sld>`
	}
	names := [][2]string{{"slides/slide1.xml", "slides/intro.xml"}, {"deck/a.xml", "deck/b.xml"}, {"slides/slide2.xml", "slides/slide1.xml"}}[vAnyIntIn(0, 2)]
	order := []int{0, 1}
	if vAnyIntIn(0, 1) == 1 {
		order = []int{1, 0}
	}
	decoy := vAnyIntIn(0, 1) == 1
	vZipRC = &zip.ReadCloser{}
	vZipMember("[Content_Types].xml", `<?xml version="1.0"?><Types xmlns="http://schemas.openxmlformats.org/package/2006/content-types"/>`)
	if decoy {
		vZipMember("ppt/slides/slide7.xml", slide("DECOY"))
	}
	vZipMember("ppt/"+names[0], slide("A"))
	vZipMember("ppt/"+names[1], slide("B"))
	vZipMember("ppt/presentation.xml", `<?xml version="1.0"?><p:presentation `+ns+`><p:sldIdLst><p:sldId id="256" r:id="rId`+string(rune('1'+order[0]))+`"/><p:sldId id="257" r:id="rId`+string(rune('1'+order[1]))+`"/></p:sldIdLst></p:presentation>`)
	vZipMember("ppt/_rels/presentation.xml.rels", `<?xml version="1.0"?><Relationships xmlns="http://schemas.openxmlformats.org/package/2006/relationships"><Relationship Id="rId1" Type="http://schemas.openxmlformats.org/officeDocument/2006/relationships/slide" Target="`+names[0]+`"/><Relationship Id="rId2" Type="http://schemas.openxmlformats.org/officeDocument/2006/relationships/slide" Target="`+names[1]+`"/></Relationships>`)
	r, err := Open("any.pptx")
	vAssert("opens", err == nil && r != nil)
	vAssert("page-count-is-declared-parts", len(r.slides) == 2)
	for i, k := range order {
		own, other := []string{"TitleA", "TitleB"}[k], []string{"TitleA", "TitleB"}[1-k]
		txt, terr := r.TextWithOptions(ExtractOptions{SlideNumbers: []int{i}, IncludeTitles: true})
		vAssert("text-no-error", terr == nil)
		vAssert("declared-order-own-text", strings.Contains(txt, own) && !strings.Contains(txt, other))
		vAssert("decoy-not-shown", !strings.Contains(txt, "TitleDECOY"))
	}
	vReach("end")
}
