//go:build verif_harness

package pptx

import (
	"archive/zip"
	"errors"
	"strings"
)

var vParts map[string]string

func vStubPart(r *Reader, name string) ([]byte, error) {
	if s, ok := vParts[name]; ok {
		return []byte(s), nil
	}
	return nil, errors.New("stub: no such part")
}

// H_C18_pptx_from_xml: from the XML text of presentation.xml, its relationships and the slide parts to the slide list:
// the order of the presentation's slide list, each slide showing its own part's text.
//
//symgo:harness prop=C18 kernel=K3-pptx-slides-from-xml noreplay=1
//symgo:redirect (*github.com/tsawler/tabula/pptx.Reader).getFileContent vStubPart
//symgo:desc three slide parts slide1..3.xml plus an unlisted decoy slide4.xml; presentation.xml lists three r:ids in an enumerated permutation; the relationship file maps ids to targets written relative ("slides/slide2.xml") or absolute ("/ppt/slides/slide2.xml") (enumerated) among master/theme relationships; archive order reversed or not (enumerated); each slide has a title placeholder and a body text naming the part: parseRelationships + parsePresentation + parseSlides (real tokeniser, modelled reflection walk; zip cut at getFileContent and a harness-built member list) give 3 slides in declared order, slide i carrying exactly its own part's title and body; the decoy's text appears nowhere
func H_C18_pptx_from_xml() {
	p := []int{0, 1, 2}
	for i := 0; i < 2; i++ {
		j := vAnyIntIn(i, 2)
		p[i], p[j] = p[j], p[i]
	}
	abs := vAnyIntIn(0, 1) == 1
	const ns = `xmlns:a="http://schemas.openxmlformats.org/drawingml/2006/main" xmlns:r="http://schemas.openxmlformats.org/officeDocument/2006/relationships" xmlns:p="http://schemas.openxmlformats.org/presentationml/2006/main"`
	pres := `<?xml version="1.0" encoding="UTF-8" standalone="yes"?><p:presentation ` + ns + `><p:sldMasterIdLst><p:sldMasterId id="2147483648" r:id="rId7"/></p:sldMasterIdLst><p:sldIdLst>`
	for i := 0; i < 3; i++ {
		pres += `<p:sldId id="` + string(rune('2'+i)) + `56" r:id="rId` + string(rune('1'+p[i])) + `"/>`
	}
	pres += `</p:sldIdLst><p:sldSz cx="9144000" cy="6858000"/></p:presentation>`
	rels := `<?xml version="1.0" encoding="UTF-8" standalone="yes"?><Relationships xmlns="http://schemas.openxmlformats.org/package/2006/relationships"><Relationship Id="rId7" Type="http://schemas.openxmlformats.org/officeDocument/2006/relationships/slideMaster" Target="slideMasters/slideMaster1.xml"/>`
	vParts = map[string]string{}
	var members []string
	for k := 0; k < 4; k++ {
		name := "ppt/slides/slide" + string(rune('1'+k)) + ".xml"
		members = append(members, name, "ppt/slides/_rels/slide"+string(rune('1'+k))+".xml.rels")
		vParts[name] = `<?xml version="1.0" encoding="UTF-8" standalone="yes"?><p:sld ` + ns + `><p:cSld><p:spTree><p:nvGrpSpPr><p:cNvPr id="1" name=""/><p:cNvGrpSpPr/><p:nvPr/></p:nvGrpSpPr><p:grpSpPr/>` +
			`<p:sp><p:nvSpPr><p:cNvPr id="2" name="Title 1"/><p:cNvSpPr/><p:nvPr><p:ph type="title"/></p:nvPr></p:nvSpPr><p:spPr/><p:txBody><a:bodyPr/><a:p><a:r><a:rPr lang="en-US" b="1"/><a:t>Title` + string(rune('1'+k)) + `</a:t></a:r></a:p></p:txBody></p:sp>` +
			`<p:sp><p:nvSpPr><p:cNvPr id="3" name="Content 2"/><p:cNvSpPr/><p:nvPr><p:ph idx="1"/></p:nvPr></p:nvSpPr><p:spPr><a:xfrm><a:off x="100" y="200"/><a:ext cx="300" cy="400"/></a:xfrm></p:spPr><p:txBody><a:bodyPr/><a:p><a:pPr lvl="1"/><a:r><a:t>Body` + string(rune('1'+k)) + `</a:t></a:r></a:p></p:txBody></p:sp>` +
			`</p:spTree></p:cSld></p:sld>`
		if k < 3 {
			target := "slides/slide" + string(rune('1'+k)) + ".xml"
			if abs {
				target = "/ppt/" + target
			}
			rels += `<Relationship Id="rId` + string(rune('1'+k)) + `" Type="http://schemas.openxmlformats.org/officeDocument/2006/relationships/slide" Target="` + target + `"/>`
		}
	}
	rels += `<Relationship Id="rId8" Type="http://schemas.openxmlformats.org/officeDocument/2006/relationships/theme" Target="theme/theme1.xml"/></Relationships>`
	vParts["ppt/presentation.xml"] = pres
	vParts["ppt/_rels/presentation.xml.rels"] = rels
	zr := &zip.ReadCloser{}
	zr.File = append(zr.File, &zip.File{FileHeader: zip.FileHeader{Name: "ppt/presentation.xml"}})
	if vAnyIntIn(0, 1) == 1 {
		for i, j := 0, len(members)-1; i < j; i, j = i+1, j-1 {
			members[i], members[j] = members[j], members[i]
		}
	}
	for _, n := range members {
		zr.File = append(zr.File, &zip.File{FileHeader: zip.FileHeader{Name: n}})
	}
	r := &Reader{zipReader: zr, slideRels: map[int]*relationshipsXML{}}
	vAssert("relationships-parse", r.parseRelationships() == nil)
	vAssert("presentation-parses", r.parsePresentation() == nil)
	vAssert("slides-parse", r.parseSlides() == nil)
	vAssert("slide-count-is-declared-parts", len(r.slides) == 3)
	for i := 0; i < 3; i++ {
		var all string
		for _, b := range r.slides[i].Content {
			all += b.Text + "\n"
		}
		own := string(rune('1' + p[i]))
		vAssert("own-title", strings.Contains(all, "Title"+own))
		vAssert("own-body", strings.Contains(all, "Body"+own))
		for k := 0; k < 4; k++ {
			if other := string(rune('1' + k)); other != own {
				vAssert("no-other-parts-text", !strings.Contains(all, "Title"+other) && !strings.Contains(all, "Body"+other))
			}
		}
	}
	vReach("end")
}
