//go:build verif_harness

package pptx

import (
	"archive/zip"
	"errors"
)

func vStubParseSlide(r *Reader, slidePath string, index int) (*Slide, error) {
	if slidePath == "" {
		return nil, errors.New("stub")
	}
	return &Slide{Index: index, Title: slidePath}, nil
}
func vStubSlideRels(r *Reader, slidePath string, index int) {}
func vStubSlideNotes(r *Reader, index int, slide *Slide)   {}

// H_C18_pptx_slide_order: slides come in the order of the presentation's slide list, not in archive or file-name order,
// and slide parts that the presentation does not list are not shown.
//
//symgo:harness prop=C18 kernel=K3-pptx-slides noreplay=1
//symgo:redirect (*github.com/tsawler/tabula/pptx.Reader).parseSlide vStubParseSlide
//symgo:redirect (*github.com/tsawler/tabula/pptx.Reader).parseSlideRelationships vStubSlideRels
//symgo:redirect (*github.com/tsawler/tabula/pptx.Reader).parseSlideNotes vStubSlideNotes
//symgo:desc 3 slide parts whose file numbers are a symbolic digit 1..9, optionally prefixed with 1 (11..19; all distinct), so that numeric and lexicographic order of the part names differ, archive order and declared order (sldIdLst through presentation relationships) are independent enumerated permutations; optionally one of the three parts is not listed (a decoy): Slide(i) is the i-th listed part, count = number of listed parts; slide XML parsing and zip access are cut (harness-built zip.Reader and stub parseSlide recording the part name)
func H_C18_pptx_slide_order() {
	names := make([]string, 3)
	var ds [3]string
	var dd [3]byte
	var two [3]int
	for i := range names {
		dd[i] = vAnyByteOf("123456789")
		two[i] = vAnyIntIn(0, 1) // file number 1..9 or 11..19: numeric and lexicographic order of the names differ
		for j := 0; j < i; j++ {
			if two[j] == two[i] {
				vAssume(dd[j] != dd[i])
			}
		}
		ds[i] = string([]byte{dd[i]})
		if two[i] == 1 {
			ds[i] = "1" + ds[i]
		}
		names[i] = "ppt/slides/slide" + ds[i] + ".xml"
	}
	perm := func() []int {
		p := []int{0, 1, 2}
		for i := 0; i < 2; i++ {
			j := vAnyIntIn(i, 2)
			p[i], p[j] = p[j], p[i]
		}
		return p
	}
	archive, declared := perm(), perm()
	listed := 3
	if vAnyIntIn(0, 1) == 1 {
		listed = 2 // the last one in declared order is a decoy part
	}
	zr := &zip.ReadCloser{}
	zr.File = append(zr.File, &zip.File{FileHeader: zip.FileHeader{Name: "ppt/presentation.xml"}})
	for _, k := range archive {
		zr.File = append(zr.File, &zip.File{FileHeader: zip.FileHeader{Name: names[k]}})
		zr.File = append(zr.File, &zip.File{FileHeader: zip.FileHeader{Name: "ppt/slides/_rels/slide" + ds[k] + ".xml.rels"}})
	}
	r := &Reader{zipReader: zr, slideRels: map[int]*relationshipsXML{}}
	r.presentation = &presentationXML{SlideIdList: &slideIdListXML{}}
	r.presRels = &relationshipsXML{}
	for i := 0; i < listed; i++ {
		k := declared[i]
		rid := "rId" + string(rune('1'+k))
		r.presentation.SlideIdList.SlideId = append(r.presentation.SlideIdList.SlideId, slideIdXML{ID: string(rune('1' + i)), RID: rid})
		r.presRels.Relationship = append(r.presRels.Relationship, relationshipXML{ID: rid, Target: "slides/slide" + ds[k] + ".xml"})
	}
	err := r.parseSlides()
	vAssert("no-error", err == nil)
	vAssert("slide-count-is-listed-parts", len(r.slides) == listed)
	for i := 0; i < listed; i++ {
		vAssert("declared-order", r.slides[i].Title == names[declared[i]])
	}
	vReach("end")
}
