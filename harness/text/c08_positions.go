//go:build verif_harness

package text

import (
	"github.com/tsawler/tabula/contentstream"
	"github.com/tsawler/tabula/core"
)

type vMat [6]float64

var vIdent = vMat{1, 0, 0, 1, 0, 0}

// vMul: A x B in the row-vector convention of ISO 32000-1 8.3.4 (a point is transformed by A first, then by B).
func vMul(a, b vMat) vMat {
	return vMat{
		a[0]*b[0] + a[1]*b[2], a[0]*b[1] + a[1]*b[3],
		a[2]*b[0] + a[3]*b[2], a[2]*b[1] + a[3]*b[3],
		a[4]*b[0] + a[5]*b[2] + b[4], a[4]*b[1] + a[5]*b[3] + b[5],
	}
}

func vAnyMat() vMat {
	var m vMat
	for i := range m {
		m[i] = vAnyFloat()
	}
	return m
}

func vOp(name string, args ...core.Object) contentstream.Operation {
	return contentstream.Operation{Operator: name, Operands: args}
}

func vMatOps(m vMat) []core.Object {
	out := make([]core.Object, 6)
	for i := range m {
		out[i] = core.Real(m[i])
	}
	return out
}

// vRefState is the reference interpreter of the positioning operators (ISO 32000-1 8.4.4, 9.3, 9.4.2).
type vRefState struct {
	ctm, tm, tlm vMat
	leading      float64
	stack        []vRefState
}

func (s *vRefState) td(tx, ty float64) {
	s.tlm = vMul(vMat{1, 0, 0, 1, tx, ty}, s.tlm)
	s.tm = s.tlm
}

// H_C08_positioning_step: one positioning operator from an arbitrary graphics/text state, observed at the next text-showing operator.
//
//symgo:harness prop=C08 kernel=K1-step real=1
//symgo:desc state made arbitrary by the prefix "q^d cm BT Tm TL Tf" with d in 0..2 (enumerated), all 6+6+1 operands symbolic reals; then one operator from {q, Q, cm, BT, Tm, Td, TD, T*, TL, Tc, Tw, Tz, Tf, ', "} (enumerated) with symbolic real operands; then Tj: the fragment origin equals (0,0) x Tm x CTM of the ISO 32000 reference interpreter (cm and Td-family pre-multiply, T* ' " advance by the leading relative to the line matrix, BT resets both text matrices, Q restores the state saved by q). Floats are modelled as reals (no rounding, no NaN/Inf)
func H_C08_positioning_step() {
	var ops []contentstream.Operation
	ref := vRefState{ctm: vIdent, tm: vIdent, tlm: vIdent}
	depth := vAnyIntIn(0, 2)
	// outer state to come back to with Q
	m0 := vAnyMat()
	ops = append(ops, vOp("cm", vMatOps(m0)...))
	ref.ctm = vMul(m0, ref.ctm)
	for i := 0; i < depth; i++ {
		ops = append(ops, vOp("q"))
		ref.stack = append(ref.stack, ref)
		mi := vAnyMat()
		ops = append(ops, vOp("cm", vMatOps(mi)...))
		ref.ctm = vMul(mi, ref.ctm)
	}
	t0 := vAnyMat()
	lead := vAnyFloat()
	ops = append(ops, vOp("BT"), vOp("Tf", core.Name("F1"), core.Real(12)), vOp("Tm", vMatOps(t0)...), vOp("TL", core.Real(lead)))
	ref.tm, ref.tlm, ref.leading = t0, t0, lead
	a, b := vAnyFloat(), vAnyFloat()
	switch vAnyIntIn(0, 14) {
	case 0:
		ops = append(ops, vOp("q"))
	case 1:
		vAssume(depth > 0)
		ops = append(ops, vOp("Q"))
		top := ref.stack[len(ref.stack)-1]
		ref.ctm = top.ctm
		// text matrices are part of the text object, not restored to the outer BT-less state in this model:
		// the saved state had identity text matrices (no BT yet)
		ref.tm, ref.tlm, ref.leading = top.tm, top.tlm, top.leading
	case 2:
		m := vAnyMat()
		ops = append(ops, vOp("cm", vMatOps(m)...))
		ref.ctm = vMul(m, ref.ctm)
	case 3:
		ops = append(ops, vOp("BT"))
		ref.tm, ref.tlm = vIdent, vIdent
	case 4:
		m := vAnyMat()
		ops = append(ops, vOp("Tm", vMatOps(m)...))
		ref.tm, ref.tlm = m, m
	case 5:
		ops = append(ops, vOp("Td", core.Real(a), core.Real(b)))
		ref.td(a, b)
	case 6:
		ops = append(ops, vOp("TD", core.Real(a), core.Real(b)))
		ref.leading = -b
		ref.td(a, b)
	case 7:
		ops = append(ops, vOp("T*"))
		ref.td(0, -ref.leading)
	case 8:
		ops = append(ops, vOp("TL", core.Real(a)), vOp("T*"))
		ref.leading = a
		ref.td(0, -ref.leading)
	case 9:
		ops = append(ops, vOp("Tc", core.Real(a)))
	case 10:
		ops = append(ops, vOp("Tw", core.Real(a)))
	case 11:
		ops = append(ops, vOp("Tz", core.Real(a)))
	case 12:
		ops = append(ops, vOp("Tf", core.Name("F1"), core.Real(a)))
	case 13:
		ops = append(ops, vOp("'", core.String("B")))
		ref.td(0, -ref.leading)
		ops = append(ops, vOp("ET"), vOp("BT"), vOp("Tm", vMatOps(ref.tm)...)) // restart at the same place: the advance after a shown string is not part of the claim
	default:
		ops = append(ops, vOp("\"", core.Real(a), core.Real(b), core.String("B")))
		ref.td(0, -ref.leading)
		ops = append(ops, vOp("ET"), vOp("BT"), vOp("Tm", vMatOps(ref.tm)...))
	}
	ops = append(ops, vOp("Tj", core.String("A")))
	frags, err := NewExtractor().Extract(ops)
	vAssert("no-error", err == nil)
	vAssert("fragment-emitted", len(frags) >= 1)
	last := frags[len(frags)-1]
	full := vMul(ref.tm, ref.ctm)
	vAssert("origin-x", last.X == full[4])
	vAssert("origin-y", last.Y == full[5])
	vReach("end")
}

// H_C08_line_moves_from_advanced_position: after text has been shown the text matrix has moved away from the line
// matrix; Td, TD, T*, ' and " still start the next line relative to the LINE matrix, whatever their displacement
// (including zero).
//
//symgo:harness prop=C08 kernel=K1b-step-after-advance real=1
//symgo:desc state constructed directly: CTM, line matrix and leading set by "cm BT Tf Tm TL" with symbolic real operands, then the text matrix overwritten with an arbitrary symbolic matrix (as left behind by any amount of shown text); one operator from {Td, TD, T*, ', "} (enumerated) with symbolic real operands (zero included), or TD followed by T* (the leading TD sets, zero included, is the one T* uses); then Tj: the fragment origin is (0,0) x T(tx,ty) x Tlm x CTM of the reference interpreter. Floats as reals
func H_C08_line_moves_from_advanced_position() {
	c, t0, adv := vAnyMat(), vAnyMat(), vAnyMat()
	lead := vAnyFloat()
	e := NewExtractor()
	for _, op := range []contentstream.Operation{vOp("cm", vMatOps(c)...), vOp("BT"), vOp("Tf", core.Name("F1"), core.Real(12)), vOp("Tm", vMatOps(t0)...), vOp("TL", core.Real(lead))} {
		vAssert("prefix-ok", e.processOperation(op) == nil)
	}
	for i := range adv {
		e.gs.Text.TextMatrix[i] = adv[i]
	}
	ref := vRefState{ctm: c, tm: adv, tlm: t0, leading: lead}
	a, b := vAnyFloat(), vAnyFloat()
	var op contentstream.Operation
	shows := false
	switch vAnyIntIn(0, 5) {
	case 5:
		// TD sets the leading to -ty (also when ty is zero) before it moves; the T* that follows uses that leading
		vAssert("td-ok", e.processOperation(vOp("TD", core.Real(a), core.Real(b))) == nil)
		ref.td(a, b)
		ref.leading = -b
		op = vOp("T*")
		ref.td(0, -ref.leading)
	case 0:
		op = vOp("Td", core.Real(a), core.Real(b))
		ref.td(a, b)
	case 1:
		op = vOp("TD", core.Real(a), core.Real(b))
		ref.td(a, b)
	case 2:
		op = vOp("T*")
		ref.td(0, -ref.leading)
	case 3:
		op = vOp("'", core.String("B"))
		ref.td(0, -ref.leading)
		shows = true
	default:
		op = vOp("\"", core.Real(a), core.Real(b), core.String("B"))
		ref.td(0, -ref.leading)
		shows = true
	}
	vAssert("operator-ok", e.processOperation(op) == nil)
	if !shows {
		vAssert("show-ok", e.processOperation(vOp("Tj", core.String("A"))) == nil)
	}
	vAssert("fragment-emitted", len(e.fragments) >= 1)
	first := e.fragments[0]
	full := vMul(ref.tm, ref.ctm)
	vAssert("origin-x", first.X == full[4])
	vAssert("origin-y", first.Y == full[5])
	vReach("end")
}

// H_C08_line_move_after_kerned_array: position adjustments inside a TJ array move the text matrix only; the next T*
// still starts from the line matrix.
//
//symgo:harness prop=C08 kernel=K1c-line-move-after-TJ real=1
//symgo:desc "cm BT Tf Tm TL" with symbolic real operands, then [(A) k (B)] TJ with a symbolic real or integer adjustment k (enumerated kind), then T* or ' (enumerated), then - after T* - Tj: the last fragment's origin is (0,0) x T(0,-leading) x Tlm x CTM, where Tlm is the matrix set by Tm (untouched by the array's adjustment). Floats as reals
func H_C08_line_move_after_kerned_array() {
	c, t0 := vAnyMat(), vAnyMat()
	lead, k := vAnyFloat(), vAnyFloat()
	e := NewExtractor()
	var adj core.Object = core.Real(k)
	if vAnyIntIn(0, 1) == 1 {
		adj = core.Int(-5000)
	}
	for _, op := range []contentstream.Operation{vOp("cm", vMatOps(c)...), vOp("BT"), vOp("Tf", core.Name("F1"), core.Real(12)), vOp("Tm", vMatOps(t0)...), vOp("TL", core.Real(lead)),
		vOp("TJ", core.Array{core.String("A"), adj, core.String("B")})} {
		vAssert("prefix-ok", e.processOperation(op) == nil)
	}
	ref := vRefState{ctm: c, tm: t0, tlm: t0, leading: lead}
	ref.td(0, -ref.leading)
	if vAnyIntIn(0, 1) == 0 {
		vAssert("operator-ok", e.processOperation(vOp("T*")) == nil)
		vAssert("show-ok", e.processOperation(vOp("Tj", core.String("C"))) == nil)
	} else {
		vAssert("operator-ok", e.processOperation(vOp("'", core.String("C"))) == nil)
	}
	vAssert("fragment-emitted", len(e.fragments) >= 1)
	last := e.fragments[len(e.fragments)-1]
	full := vMul(ref.tm, ref.ctm)
	vAssert("origin-x", last.X == full[4])
	vAssert("origin-y", last.Y == full[5])
	vReach("end")
}

// H_C08_font_size: the reported font size reflects font size, text matrix and CTM scaling.
//
//symgo:harness prop=C08 kernel=K3-font-size real=1
//symgo:desc uniform scales only (where the statement is unambiguous), each turned by 0, 90, 180 or 270 degrees (enumerated, exact matrices): Tf size fs > 0, Tm = s*R with translation, cm = t*R' with translation, s, t > 0, all symbolic reals: reported FontSize = fs*s*t (the square root is modelled algebraically: y >= 0 and y*y = x)
func H_C08_font_size() {
	fs, s, t := vAnyFloat(), vAnyFloat(), vAnyFloat()
	vAssume(fs > 0 && s > 0 && t > 0)
	e1, f1, e2, f2 := vAnyFloat(), vAnyFloat(), vAnyFloat(), vAnyFloat()
	// a uniform scale k turned by 0, 90, 180 or 270 degrees (exact matrices): the scaling is still k
	turned := func(k float64, quarter int, e, f float64) vMat {
		switch quarter {
		case 1:
			return vMat{0, k, -k, 0, e, f}
		case 2:
			return vMat{-k, 0, 0, -k, e, f}
		case 3:
			return vMat{0, -k, k, 0, e, f}
		}
		return vMat{k, 0, 0, k, e, f}
	}
	ops := []contentstream.Operation{
		vOp("cm", vMatOps(turned(t, vAnyIntIn(0, 3), e1, f1))...),
		vOp("BT"), vOp("Tf", core.Name("F1"), core.Real(fs)),
		vOp("Tm", vMatOps(turned(s, vAnyIntIn(0, 3), e2, f2))...),
		vOp("Tj", core.String("A")),
	}
	frags, err := NewExtractor().Extract(ops)
	vAssert("no-error", err == nil && len(frags) == 1)
	vAssert("font-size-is-product-of-scales", frags[0].FontSize == fs*s*t)
	vAssert("font-size-positive", frags[0].FontSize > 0)
	vReach("end")
}
