//go:build verif_harness

package text

import (
	"github.com/tsawler/tabula/contentstream"
	"github.com/tsawler/tabula/core"
)

// H_C03_extract_no_shared_state: text extraction writes no memory that existed before the call.
//
//symgo:harness prop=C03 kernel=F1-text-extract-no-shared-writes globwrite=1 noreplay=1 real=1
//symgo:desc operator program "cm BT Tf Tm <op> Tj ET" with symbolic real operands and <op> enumerated over {Td, T*, q, Q-after-q, TL, Tz}: on every path of text.NewExtractor().Extract no store, in-place append or map update goes through package-level variables or anything reachable from them (font tables, encodings, glyph lists)
func H_C03_extract_no_shared_state() {
	m, t := vAnyMat(), vAnyMat()
	ops := []contentstream.Operation{vOp("cm", vMatOps(m)...), vOp("BT"), vOp("Tf", core.Name("F1"), core.Real(vAnyFloat())), vOp("Tm", vMatOps(t)...)}
	switch vAnyIntIn(0, 5) {
	case 0:
		ops = append(ops, vOp("Td", core.Real(vAnyFloat()), core.Real(vAnyFloat())))
	case 1:
		ops = append(ops, vOp("T*"))
	case 2:
		ops = append(ops, vOp("q"))
	case 3:
		ops = append(ops, vOp("q"), vOp("Q"))
	case 4:
		ops = append(ops, vOp("TL", core.Real(vAnyFloat())))
	default:
		ops = append(ops, vOp("Tz", core.Real(vAnyFloat())))
	}
	ops = append(ops, vOp("Tj", core.String("Hello")), vOp("ET"))
	e := NewExtractor()
	_, _ = e.Extract(ops)
	_ = e.GetText()
	vReach("end")
}
