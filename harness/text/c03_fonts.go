//go:build verif_harness

package text

import (
	"github.com/tsawler/tabula/contentstream"
	"github.com/tsawler/tabula/core"
)

// H_C03_font_registration_no_shared_state: registering a document's fonts writes nothing that another document can see.
//
//symgo:harness prop=C03 kernel=F1-font-registration-no-shared-writes globwrite=1 noreplay=1
//symgo:desc a page's /Font resources with one Type1 or TrueType font (enumerated) named after a Standard-14 font (Helvetica, Times-Roman, Courier - enumerated) or a custom name, carrying its own /FirstChar /LastChar /Widths (2 symbolic integers in [0,2000]) and optionally /Encoding WinAnsiEncoding: on every path of RegisterFontsFromResources no store or map update goes through package-level tables (standard width tables, encodings, glyph lists)
func H_C03_font_registration_no_shared_state() {
	names := []string{"Helvetica", "Times-Roman", "Courier", "ABCDEF+Custom"}
	fd := core.Dict{
		"Type":      core.Name("Font"),
		"Subtype":   core.Name([]string{"Type1", "TrueType"}[vAnyIntIn(0, 1)]),
		"BaseFont":  core.Name(names[vAnyIntIn(0, len(names)-1)]),
		"FirstChar": core.Int(65),
		"LastChar":  core.Int(66),
		"Widths":    core.Array{core.Int(vAnyIntRange(0, 2000)), core.Int(vAnyIntRange(0, 2000))},
	}
	if vAnyIntIn(0, 1) == 1 {
		fd["Encoding"] = core.Name("WinAnsiEncoding")
	}
	res := core.Dict{"Font": core.Dict{"F1": fd}}
	e := NewExtractor()
	_ = e.RegisterFontsFromResources(res, vNoRefs)
	_, _ = e.Extract([]contentstream.Operation{vOp("BT"), vOp("Tf", core.Name("F1"), core.Real(10)), vOp("Tj", core.String("AB")), vOp("ET")})
	vReach("end")
}
