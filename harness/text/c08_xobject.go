//go:build verif_harness

package text

import (
	"fmt"

	"github.com/tsawler/tabula/contentstream"
	"github.com/tsawler/tabula/core"
)

func vNoRefs(core.IndirectRef) (core.Object, error) { return core.Null{}, nil }

var vRefMatrix core.Array

func vResolveMatrix(ref core.IndirectRef) (core.Object, error) {
	if ref.Number == 7 {
		return vRefMatrix, nil
	}
	return nil, fmt.Errorf("no object %d", ref.Number)
}

// H_C08_form_xobject_matrix: a Form XObject is painted under CTM' = Matrix x CTM inside an implicit q...Q: text inside
// the form is positioned through the form matrix, and the state after Do is exactly the state before it.
//
//symgo:harness prop=C08 kernel=K1-form-xobject real=1
//symgo:desc outer cm and form /Matrix fully symbolic real matrices, /Matrix written directly or given by reference (enumerated); form content "BT /F1 10 Tf 1 0 0 1 7 9 Tm (IN) Tj ET" (concrete, parsed by the real content-stream parser); program: cm, Do, Do again (enumerated: once or twice), then BT Tm Tj: the form's fragment origin is (7,9) x Matrix x CTM each time it is invoked (so the second invocation coincides with the first and is de-duplicated), and the fragment after Do is positioned by the caller's CTM alone (q/Q restore exactly)
func H_C08_form_xobject_matrix() {
	ctm, fm := vAnyMat(), vAnyMat()
	// the form's content stream is concrete text (it goes through the real content-stream parser)
	form := &core.Stream{Dict: core.Dict{"Subtype": core.Name("Form"), "Matrix": core.Array(vMatOps(fm))}, Data: []byte("BT /F1 10 Tf 1 0 0 1 7 9 Tm (IN) Tj ET")}
	resolve := vNoRefs
	if vAnyIntIn(0, 1) == 1 { // the form's /Matrix is given by reference
		vRefMatrix = core.Array(vMatOps(fm))
		form.Dict["Matrix"] = core.IndirectRef{Number: 7}
		resolve = vResolveMatrix
	}
	res := core.Dict{"XObject": core.Dict{"Fm1": form}}
	times := vAnyIntIn(1, 2)
	ops := []contentstream.Operation{vOp("cm", vMatOps(ctm)...)}
	for i := 0; i < times; i++ {
		ops = append(ops, vOp("Do", core.Name("Fm1")))
	}
	t := vAnyMat()
	ops = append(ops, vOp("BT"), vOp("Tf", core.Name("F1"), core.Real(10)), vOp("Tm", vMatOps(t)...), vOp("Tj", core.String("OUT")), vOp("ET"))
	e := NewExtractor()
	e.SetResourceContext(res, resolve)
	frags, err := e.Extract(ops)
	vAssert("no-error", err == nil)
	// a second invocation paints the same text at exactly the same place, which the extractor's
	// overlaid-layer de-duplication folds into one fragment: two fragments either way
	vAssert("fragment-count", len(frags) == 2)
	inside := vMul(vMat{1, 0, 0, 1, 7, 9}, vMul(fm, ctm))
	vAssert("form-text-through-form-matrix-x", frags[0].X == inside[4])
	vAssert("form-text-through-form-matrix-y", frags[0].Y == inside[5])
	after := vMul(t, ctm)
	vAssert("state-after-Do-is-state-before-x", frags[1].X == after[4])
	vAssert("state-after-Do-is-state-before-y", frags[1].Y == after[5])
	vReach("end")
}

// H_C02_form_xobject_recursion: Form XObjects that invoke themselves, each other, or a sibling whose content cannot be
// parsed must not recurse without bound.
//
//symgo:harness prop=C02 kernel=text.invokeXObject hang=1 depth=150 loop=4096 steps=20000000
//symgo:desc three Form XObjects A, B, C; each one's content is enumerated from {text only, "/A Do", "/B Do /A Do", "/C Do", unparsable "<< ", "/B Do /C Do"}; page content "/A Do": extraction terminates within call depth 150 (the implementation limits nesting to 10)
func H_C02_form_xobject_recursion() {
	progs := []string{"BT (x) Tj ET", "/A Do", "/B Do /A Do", "/C Do", "<< ", "/B Do /C Do"}
	xo := core.Dict{}
	for _, n := range []string{"A", "B", "C"} {
		xo[n] = &core.Stream{Dict: core.Dict{"Subtype": core.Name("Form")}, Data: []byte(progs[vAnyIntIn(0, len(progs)-1)])}
	}
	e := NewExtractor()
	e.SetResourceContext(core.Dict{"XObject": xo}, vNoRefs)
	_, _ = e.Extract([]contentstream.Operation{vOp("Do", core.Name("A"))})
	vReach("end")
}

// H_C09_dedup_only_coincident: de-duplication of overlaid text layers removes a fragment only if another fragment with
// the same text sits at the same position; distinct glyphs of fine print are kept.
//
//symgo:harness prop=C09 kernel=K4-dedup real=1
//symgo:desc two fragments with the same one-letter text shown by "Tm Tj" at symbolic real positions: if the positions differ by at least 1.0 in X or in Y both fragments are returned, in order; a fragment with different text is never removed
func H_C09_dedup_only_coincident() {
	x1, y1, x2, y2 := vAnyFloat(), vAnyFloat(), vAnyFloat(), vAnyFloat()
	vAssume(x1 >= 0 && x1 <= 600 && x2 >= 0 && x2 <= 600 && y1 >= 0 && y1 <= 800 && y2 >= 0 && y2 <= 800)
	second := "l"
	if vAnyIntIn(0, 1) == 1 {
		second = "i"
	}
	ops := []contentstream.Operation{vOp("BT"), vOp("Tf", core.Name("F1"), core.Real(6)),
		vOp("Tm", vMatOps(vMat{1, 0, 0, 1, x1, y1})...), vOp("Tj", core.String("l")),
		vOp("Tm", vMatOps(vMat{1, 0, 0, 1, x2, y2})...), vOp("Tj", core.String(second)), vOp("ET")}
	frags, err := NewExtractor().Extract(ops)
	vAssert("no-error", err == nil)
	dx, dy := x1-x2, y1-y2
	if dx < 0 {
		dx = -dx
	}
	if dy < 0 {
		dy = -dy
	}
	if second != "l" || dx >= 1 || dy >= 1 {
		vAssert("distinct-fragments-are-kept", len(frags) == 2)
	}
	vAssert("never-more-than-input", len(frags) <= 2 && len(frags) >= 1)
	vReach("end")
}

// H_C02_form_xobject_fan_out: the nesting limit alone does not bound the work: a form that invokes itself (or the next
// form) many times per level multiplies at every level.
//
//symgo:harness prop=C02 kernel=text.invokeXObject-fan-out hang=1 depth=150 loop=1000000 steps=600000000
//symgo:desc Form XObject A whose content invokes A itself 8 times, or a ring A -> B -> C -> A where each form invokes the next 8 times (enumerated); page content "/A Do": extraction finishes within 600 million interpreter steps (8 invocations per level over the implementation's 10 levels would be 8^10, about 10^9 invocations); the candidate is replayed natively under the time limit
func H_C02_form_xobject_fan_out() {
	many := func(name string) []byte {
		var b []byte
		for i := 0; i < 8; i++ {
			b = append(b, "/"+name+" Do "...)
		}
		return b
	}
	xo := core.Dict{}
	if vAnyIntIn(0, 1) == 0 {
		xo["A"] = &core.Stream{Dict: core.Dict{"Subtype": core.Name("Form")}, Data: many("A")}
	} else {
		xo["A"] = &core.Stream{Dict: core.Dict{"Subtype": core.Name("Form")}, Data: many("B")}
		xo["B"] = &core.Stream{Dict: core.Dict{"Subtype": core.Name("Form")}, Data: many("C")}
		xo["C"] = &core.Stream{Dict: core.Dict{"Subtype": core.Name("Form")}, Data: many("A")}
	}
	e := NewExtractor()
	e.SetResourceContext(core.Dict{"XObject": xo}, vNoRefs)
	_, _ = e.Extract([]contentstream.Operation{vOp("Do", core.Name("A"))})
	vReach("end")
}
