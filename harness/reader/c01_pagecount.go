//go:build verif_harness

package reader

import (
	"github.com/tsawler/tabula/core"
	"github.com/tsawler/tabula/pages"
)

// H_C01_page_count_is_leaf_count: the reported page count is the number of page leaves whatever the
// (file-supplied) /Count entry says; in particular it is never negative or larger than the tree.
//
//symgo:harness prop=C01 kernel=K1b-page-count
//symgo:desc page tree with 1..3 leaf kids under the root; /Count is a full-range symbolic integer: Reader.PageCount() == number of leaves
func H_C01_page_count_is_leaf_count() {
	k := vAnyIntIn(1, 3)
	kids := core.Array{}
	for i := 0; i < k; i++ {
		kids = append(kids, core.Dict{"Type": core.Name("Page")})
	}
	root := core.Dict{"Type": core.Name("Pages"), "Kids": kids, "Count": core.Int(vAnyInt())}
	r := &Reader{objCache: map[int]core.Object{}}
	r.pageTree = pages.NewPageTree(root, r)
	n, err := r.PageCount()
	vAssert("no-error", err == nil)
	vAssert("page-count-is-leaf-count", n == k)
	vReach("end")
}
