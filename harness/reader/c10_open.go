//go:build verif_harness

package reader

import (
	"errors"
	"os"
)

var vNewReaderFails bool

// stub for NewReader: the file's content is outside this harness; parsing either succeeds or fails
func vStubNewReader(f *os.File) (*Reader, error) {
	if vNewReaderFails {
		return nil, errors.New("failed to load xref: stub")
	}
	return &Reader{file: f}, nil
}

// H_C10_open_releases_handle: reader.Open never leaves a file handle behind that nobody can close.
//
//symgo:harness prop=C10 kernel=K5-open-handle noreplay=1
//symgo:redirect github.com/tsawler/tabula/reader.NewReader vStubNewReader
//symgo:desc file-handle model: os.Open fails or returns a fresh handle that is open until (*os.File).Close (engine environment stub); NewReader is a stub that succeeds (returning a Reader holding the handle) or fails (enumerated): after a failed Open no handle is open; after a successful Open exactly one is, and Reader.Close releases it; a second Close does not panic
func H_C10_open_releases_handle() {
	vNewReaderFails = vAnyIntIn(0, 1) == 1
	r, err := Open("any.pdf")
	if err != nil {
		vAssert("failed-open-returns-no-reader", r == nil)
		vAssert("failed-open-leaves-no-handle-open", vOpenFiles() == 0)
		vReach("failed")
		return
	}
	vAssert("open-holds-one-handle", vOpenFiles() == 1)
	_ = r.Close()
	vAssert("close-releases-the-handle", vOpenFiles() == 0)
	_ = r.Close()
	vReach("end")
}
