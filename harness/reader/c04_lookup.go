//go:build verif_harness

package reader

import (
	"errors"

	"github.com/tsawler/tabula/core"
)

// Loader stubs: the two file-bound loaders are cut. Each is a function of its arguments only
// (object number / entry), chosen arbitrarily per object number before the lookup.
var vLoadErr [4]bool
var vLoadCalls int
var vStmObj *core.Stream
var vStmErr bool

func vStubUncompressed(r *Reader, objNum int, entry *core.XRefEntry) (core.Object, error) {
	if objNum == 9 { // the object stream itself (loaded by the real getObjectStream)
		if vStmErr {
			return nil, errors.New("stub: object stream unreadable")
		}
		return vStmObj, nil
	}
	vLoadCalls++
	if objNum < 0 || objNum > 3 || vLoadErr[objNum] {
		return nil, errors.New("stub: load failed")
	}
	return core.Int(100 + objNum), nil
}

// H_C04_lookup_step: one lookup from an arbitrary consistent reader state. Because the state is arbitrary
// (any xref table, any cache subset consistent with the loaders), the result of a lookup does not depend on
// what was looked up before; after the call the state is consistent again, so this holds for every history.
//
//symgo:harness prop=C04 kernel=K4-lookup-step noreplay=1
//symgo:redirect (*github.com/tsawler/tabula/reader.Reader).getUncompressedObject vStubUncompressed
//symgo:desc object numbers 0..2; per number: entry present (sym), type in {free,uncompressed,compressed} (enum), in-use (sym), offset/index (compressed: stream 9 or 8, index 0..2 enum), cached (sym, value = loader value: the invariant); the file-bound loader getUncompressedObject is cut (a function of the object number; failure symbolic) and also supplies object stream 9, which the real getObjectStream/NewObjectStream/GetObjectByIndex then unpack; stream 9 holds objects (1,2) at indexes (0,1); an arbitrary subset of {object stream 9 already cached} is symbolic; query q in [-1,3]; counterexamples are re-executed in the engine only (no native adapter for a Reader without a file)
func H_C04_lookup_step() {
	r := &Reader{objCache: map[int]core.Object{}, objStmCache: map[int]*core.ObjectStream{}}
	r.xrefTable = core.NewXRefTable()
	vStmObj = &core.Stream{Dict: core.Dict{"Type": core.Name("ObjStm"), "N": core.Int(2), "First": core.Int(8)}, Data: []byte("1 0 2 3 51 52 ")}
	vStmErr = vAnyBool()
	r.xrefTable.Set(9, &core.XRefEntry{Type: core.XRefEntryUncompressed, InUse: true, Offset: 900})
	if !vStmErr && vAnyBool() { // the object stream may already be in the stream cache
		os, _ := core.NewObjectStream(vStmObj)
		r.objStmCache[9] = os
	}
	vLoadCalls = 0
	type stt struct {
		present, inUse, cached bool
		typ                    int
		stm, idx               int
	}
	var s [3]stt
	want := func(n int) (core.Object, bool) { // value the newest entry for n denotes, if any
		e := s[n]
		if !e.present || !e.inUse {
			return nil, false
		}
		switch e.typ {
		case 1:
			if vLoadErr[n] {
				return nil, false
			}
			return core.Int(100 + n), true
		case 2:
			if vStmErr || e.stm != 9 || e.idx > 1 {
				return nil, false
			}
			// index 0 holds object 1 (value 51), index 1 holds object 2 (value 52); the number must match
			if e.idx == 0 && n == 1 {
				return core.Int(51), true
			}
			if e.idx == 1 && n == 2 {
				return core.Int(52), true
			}
			return nil, false
		}
		return nil, false
	}
	for n := 0; n < 3; n++ {
		vLoadErr[n] = vAnyBool()
		s[n].present = vAnyBool()
		if s[n].present {
			s[n].typ = vAnyIntIn(0, 2)
			s[n].inUse = vAnyBool()
			e := &core.XRefEntry{Type: core.XRefEntryType(s[n].typ), InUse: s[n].inUse, Offset: int64(vAnyInt())}
			if s[n].typ == 2 {
				s[n].stm = 8 + vAnyIntIn(0, 1)
				s[n].idx = vAnyIntIn(0, 2)
				e.Offset, e.Generation = int64(s[n].stm), s[n].idx
			}
			r.xrefTable.Set(n, e)
		}
		// cache invariant: a cached object is the value its entry denotes
		if v, ok := want(n); ok && vAnyBool() {
			s[n].cached = true
			r.objCache[n] = v
		}
	}
	q := vAnyIntIn(-1, 3)
	obj, err := r.GetObject(q)
	if q < 0 || q > 2 {
		vAssert("unknown-number-is-error", err != nil)
	} else {
		w, ok := want(q)
		if ok {
			vAssert("defined-object-is-returned", err == nil && obj == w)
			c, in := r.objCache[q]
			vAssert("cache-consistent-after", in && c == w)
		} else {
			vAssert("free-or-missing-or-unloadable-is-error", err != nil)
			_, in := r.objCache[q]
			vAssert("nothing-cached-on-error", !in)
		}
		if s[q].cached {
			vAssert("cache-hit-does-not-reload", vLoadCalls == 0)
		}
	}
	for n := 0; n < 3; n++ {
		if n != q {
			_, in := r.objCache[n]
			vAssert("other-cache-entries-untouched", in == s[n].cached)
		}
		e, ok := r.xrefTable.Get(n)
		vAssert("xref-table-unchanged", ok == s[n].present && (!ok || (int(e.Type) == s[n].typ && e.InUse == s[n].inUse)))
	}
	vReach("end")
}

// H_C04_clear_cache: after ClearCache every lookup goes back to the table, so the answers are those of a fresh reader.
//
//symgo:harness prop=C04 kernel=K4-clear-cache noreplay=1
//symgo:redirect (*github.com/tsawler/tabula/reader.Reader).getUncompressedObject vStubUncompressed
//symgo:desc two uncompressed objects 0..1 with symbolic loader failures; sequence: lookup a, ClearCache, lookup b, lookup a (a, b symbolic in 0..1): results equal the per-number loader values and the cache is empty right after ClearCache
func H_C04_clear_cache() {
	r := &Reader{objCache: map[int]core.Object{}, objStmCache: map[int]*core.ObjectStream{}}
	r.xrefTable = core.NewXRefTable()
	for n := 0; n < 2; n++ {
		vLoadErr[n] = vAnyBool()
		r.xrefTable.Set(n, &core.XRefEntry{Type: core.XRefEntryUncompressed, InUse: true, Offset: int64(10 * n)})
	}
	a, b := vAnyIntIn(0, 1), vAnyIntIn(0, 1)
	check := func(n int) {
		obj, err := r.GetObject(n)
		if vLoadErr[n] {
			vAssert("load-failure-is-error", err != nil)
		} else {
			vAssert("value", err == nil && obj == core.Int(100+n))
		}
	}
	check(a)
	r.ClearCache()
	vAssert("cache-empty-after-clear", r.CacheSize() == 0)
	check(b)
	check(a)
	vReach("end")
}
