//go:build verif_harness

package epubdoc

import (
	"archive/zip"
	"path"
)

// refPercentDecode: RFC 3986 percent-decoding of a path (a '+' is a literal plus sign); ok=false for a malformed escape.
func refPercentDecode(s string) (string, bool) {
	hex := func(c byte) (byte, bool) {
		switch {
		case c >= '0' && c <= '9':
			return c - '0', true
		case c >= 'a' && c <= 'f':
			return c - 'a' + 10, true
		case c >= 'A' && c <= 'F':
			return c - 'A' + 10, true
		}
		return 0, false
	}
	var out []byte
	for i := 0; i < len(s); i++ {
		if s[i] != '%' {
			out = append(out, s[i])
			continue
		}
		if i+2 >= len(s)+0 && i+2 > len(s)-1 {
			return "", false
		}
		h, ok1 := hex(s[i+1])
		l, ok2 := hex(s[i+2])
		if !ok1 || !ok2 {
			return "", false
		}
		out = append(out, h<<4|l)
		i += 2
	}
	return string(out), true
}

// H_C18_epub_href_resolution: hrefs are percent-decoded and resolved relative to the package file.
//
//symgo:harness prop=C18 kernel=K1-epub-href
//symgo:desc href = 1..3 quick / 1..4 thorough symbolic bytes over {a, /, ., %, 4, 1, +, space}; package directory "" or "OEBPS" (enumerated): result = path.Join(dir, percent-decode(href)) for a well-formed href, where '+' stays a plus sign; a malformed escape leaves the href undecoded
func H_C18_epub_href_resolution() {
	n := vAnyIntIn(1, 3+vTier())
	href := vAnyStringOf(n, "a/.%41+ ")
	r := &Reader{}
	if vAnyIntIn(0, 1) == 1 {
		r.baseDir = "OEBPS"
	}
	got := r.resolveHref(href)
	dec, ok := refPercentDecode(href)
	if !ok {
		dec = href
	}
	want := path.Join(r.baseDir, dec) // also for a package file in the archive root: "./a" and "b/../a" name "a"
	vAssert("percent-decoded-and-joined", got == want)
	vReach("end")
}

var vFiles map[string]bool

func vStubReadFile(r *Reader, zr *zip.Reader, name string) ([]byte, error) {
	if vFiles[name] {
		return []byte("<html><body>" + name + "</body></html>"), nil
	}
	return nil, ErrMissingContent
}
func vStubChapterTitle(r *Reader, content []byte, index int) string { return "t" }

// H_C18_epub_spine_order: chapters come in spine order (not manifest, archive or file-name order); their number is the
// number of declared, readable parts; each chapter holds its own part's content.
//
//symgo:harness prop=C18 kernel=K1-epub-spine noreplay=1
//symgo:redirect (*github.com/tsawler/tabula/epubdoc.Reader).readFile vStubReadFile
//symgo:redirect (*github.com/tsawler/tabula/epubdoc.Reader).extractChapterTitle vStubChapterTitle
//symgo:desc manifest of 3 items (ids c,a,b with hrefs z.xhtml, a.xhtml, m.xhtml); spine = an enumerated permutation / sub-sequence of 1..3 of them plus optionally one idref missing from the manifest; each part file present or absent (symbolic): chapters = the readable spine items in spine order, each with its own href and content; zip access is cut
func H_C18_epub_spine_order() {
	ids := []string{"c", "a", "b"}
	hrefs := map[string]string{"c": "z.xhtml", "a": "a.xhtml", "b": "m.xhtml"}
	pkg := &Package{Manifest: map[string]ManifestItem{}}
	vFiles = map[string]bool{}
	for _, id := range ids {
		pkg.Manifest[id] = ManifestItem{ID: id, Href: hrefs[id]}
		vFiles["OEBPS/"+hrefs[id]] = vAnyBool()
	}
	// spine: permutation prefix
	order := append([]string{}, ids...)
	for i := 0; i < len(order)-1; i++ {
		j := vAnyIntIn(i, len(order)-1)
		order[i], order[j] = order[j], order[i]
	}
	k := vAnyIntIn(1, 3)
	order = order[:k]
	if vAnyIntIn(0, 1) == 1 {
		order = append([]string{"ghost"}, order...)
	}
	for _, id := range order {
		pkg.Spine = append(pkg.Spine, SpineItem{IDRef: id, Linear: true})
	}
	r := &Reader{pkg: pkg, baseDir: "OEBPS"}
	err := r.loadChapters(&zip.Reader{})
	var want []string
	for _, id := range order {
		if h, ok := hrefs[id]; ok && vFiles["OEBPS/"+h] {
			want = append(want, id)
		}
	}
	if len(want) == 0 {
		vAssert("no-readable-part-is-an-error", err != nil)
	} else {
		vAssert("no-error", err == nil)
		vAssert("chapter-count-is-readable-declared-parts", len(r.chapters) == len(want))
		for i, id := range want {
			ch := r.chapters[i]
			vAssert("spine-order", ch.ID == id && ch.Href == "OEBPS/"+hrefs[id])
			vAssert("own-content", string(ch.Content) == "<html><body>OEBPS/"+hrefs[id]+"</body></html>")
		}
	}
	vReach("end")
}
