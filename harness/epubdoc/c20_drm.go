//go:build verif_harness

package epubdoc

import (
	"archive/zip"
	"io"
)

var vEnc encryptionXML

func vStubUnmarshalEnc(data []byte, v interface{}) error {
	if p, ok := v.(*encryptionXML); ok {
		*p = vEnc
	}
	return nil
}

type vEmptyRC struct{}

func (vEmptyRC) Read(p []byte) (int, error) { return 0, io.EOF }
func (vEmptyRC) Close() error               { return nil }

func vStubOpenMember(f *zip.File) (io.ReadCloser, error) { return vEmptyRC{}, nil }

func vMixCase(s string) string {
	out := make([]byte, len(s))
	for i := 0; i < len(s); i++ {
		c := s[i]
		if c >= 'a' && c <= 'z' {
			c = vAnyByteOf(string([]byte{c, c - 32}))
		}
		out[i] = c
	}
	return string(out)
}

// H_C20_drm_decision: an EPUB with a rights file, or with encryption metadata covering a content document with anything
// other than font obfuscation, is refused; an EPUB whose only encryption entries are obfuscated fonts opens.
//
//symgo:harness prop=C20 kernel=K5-drm noreplay=1
//symgo:redirect encoding/xml.Unmarshal vStubUnmarshalEnc
//symgo:redirect (*archive/zip.File).Open vStubOpenMember
//symgo:desc members: optional META-INF/rights.xml stored before or after the other members (enumerated), optional META-INF/encryption.xml with 1..2 EncryptedData entries; algorithm in {IDPF font obfuscation, Adobe font obfuscation, AES-128-CBC, AES-256-CBC, unknown URI}; resource in {chapter .xhtml, .html, font .otf, image .jpg} at directory depth 0..1 with per-letter symbolic case of the file extension; xml.Unmarshal and zip member access are cut (harness-built encryptionXML)
func H_C20_drm_decision() {
	algos := []string{
		"http://www.idpf.org/2008/embedding",
		"http://ns.adobe.com/pdf/enc#RC",
		"http://www.w3.org/2001/04/xmlenc#aes128-cbc",
		"http://www.w3.org/2001/04/xmlenc#aes256-cbc",
		"urn:example:unknown-cipher",
	}
	stems := []string{"ch1", "index", "font1", "cover"}
	exts := []string{".xhtml", ".html", ".otf", ".jpg"}
	rights := vAnyIntIn(0, 1) == 1
	rightsLast := vAnyIntIn(0, 1) == 1 // archive order of the two markers is not significant
	var members []*zip.File
	if rights && !rightsLast {
		members = append(members, &zip.File{FileHeader: zip.FileHeader{Name: "META-INF/rights.xml"}})
	}
	n := vAnyIntIn(0, 2)
	mustRefuse := rights
	onlyFontObfuscation := true
	vEnc = encryptionXML{}
	for i := 0; i < n; i++ {
		a := vAnyIntIn(0, len(algos)-1)
		r := vAnyIntIn(0, len(exts)-1)
		uri := stems[r] + vMixCase(exts[r])
		if vAnyIntIn(0, 1) == 1 {
			uri = "OEBPS/" + uri
		}
		vEnc.EncryptedData = append(vEnc.EncryptedData, encryptedData{
			EncryptionMethod: encryptionMethod{Algorithm: algos[a]},
			CipherData:       cipherData{CipherReference: cipherReference{URI: uri}},
		})
		contentDoc := r <= 1
		obfuscation := a <= 1
		if contentDoc && !obfuscation {
			mustRefuse = true
		}
		if !(obfuscation && r == 2) {
			onlyFontObfuscation = false
		}
	}
	if n > 0 {
		members = append(members, &zip.File{FileHeader: zip.FileHeader{Name: "META-INF/encryption.xml"}})
	}
	members = append(members, &zip.File{FileHeader: zip.FileHeader{Name: "OEBPS/ch1.xhtml"}})
	if rights && rightsLast {
		members = append(members, &zip.File{FileHeader: zip.FileHeader{Name: "META-INF/rights.xml"}})
	}
	err := checkForDRM(&zip.Reader{File: members})
	if mustRefuse {
		vAssert("drm-protected-is-refused", err == ErrDRMProtected)
	}
	if !rights && onlyFontObfuscation {
		vAssert("font-obfuscation-only-opens", err == nil)
	}
	vReach("end")
}
