//go:build verif_harness

package epubdoc

import "strings"

func vMarkersIn(txt string, markers []string) []string {
	type hit struct {
		pos int
		m   string
	}
	var hits []hit
	for _, m := range markers {
		if k := strings.Index(txt, m); k >= 0 {
			hits = append(hits, hit{k, m})
		}
	}
	for i := 1; i < len(hits); i++ {
		for j := i; j > 0 && hits[j].pos < hits[j-1].pos; j-- {
			hits[j], hits[j-1] = hits[j-1], hits[j]
		}
	}
	var out []string
	for _, h := range hits {
		out = append(out, h.m)
	}
	return out
}

func vSubseq(a, b []string) bool {
	k := 0
	for _, x := range b {
		if k < len(a) && a[k] == x {
			k++
		}
	}
	return k == len(a)
}

// H_C19_epub_entry_modes: through the EPUB entry point the navigation-exclusion modes behave as for HTML: mode None
// returns everything, each stricter mode a subsequence of the next weaker one, and content outside the excluded
// subtrees is always kept.
//
//symgo:harness prop=C19 kernel=K5-epub-entry-modes
//symgo:desc Reader with 1..2 harness-built chapters (XHTML source, parsed by the real HTML parser); a chapter holds a heading and body paragraph plus enumerated extras: a <nav> with links, an <aside>, a <div class="sidebar">, a <div role="navigation">; Text and Markdown through TextWithOptions / MarkdownWithOptions for NavigationExclusion 0..3: mode 0 contains every marker once; the marker sequence of mode k+1 is a subsequence of that of mode k; heading and body markers are present in every mode; in the strictest mode none of the nav/aside/sidebar markers remains
func H_C19_epub_entry_modes() {
	extras := []struct{ html, marker string }{
		{`<nav><ul><li><a href="a.xhtml">NavLinkText</a></li><li><a href="b.xhtml">more</a></li></ul></nav>`, "NavLinkText"},
		{`<aside><p>AsideNote</p></aside>`, "AsideNote"},
		{`<div class="sidebar"><p>SidebarTeaser</p></div>`, "SidebarTeaser"},
		{`<div role="navigation"><p>RoleNavText</p></div>`, "RoleNavText"},
	}
	nch := vAnyIntIn(1, 2)
	r := &Reader{}
	markers := []string{}
	var content []string
	var navMarkers []string
	for c := 0; c < nch; c++ {
		tag := string(rune('A' + c))
		k := vAnyIntIn(0, len(extras)-1)
		before := vAnyIntIn(0, 1) == 1
		body := `<h1>Heading` + tag + `</h1><p>Body text ` + tag + `.</p>`
		ms := []string{"Heading" + tag, "Body text " + tag}
		if before {
			body = extras[k].html + body
			ms = append([]string{extras[k].marker}, ms...)
		} else {
			body = body + extras[k].html
			ms = append(ms, extras[k].marker)
		}
		navMarkers = append(navMarkers, extras[k].marker)
		markers = append(markers, ms...)
		content = append(content, "Heading"+tag, "Body text "+tag)
		r.chapters = append(r.chapters, &Chapter{ID: "c" + tag, Index: c, Href: "c" + tag + ".xhtml",
			Content: []byte(`<?xml version="1.0" encoding="UTF-8"?><html xmlns="http://www.w3.org/1999/xhtml"><head><title>T</title></head><body>` + body + `</body></html>`)})
	}
	if nch == 2 {
		vAssume(navMarkers[0] != navMarkers[1])
	}
	md := vAnyIntIn(0, 1) == 1
	var prev []string
	for mode := 0; mode <= 3; mode++ {
		var txt string
		var err error
		if md {
			txt, err = r.MarkdownWithOptions(ExtractOptions{NavigationExclusion: mode})
		} else {
			txt, err = r.TextWithOptions(ExtractOptions{NavigationExclusion: mode})
		}
		vAssert("no-error", err == nil)
		seq := vMarkersIn(txt, markers)
		if mode == 0 {
			vAssert("mode-none-returns-everything", len(seq) == len(markers))
		} else {
			vAssert("stricter-mode-is-a-subsequence", vSubseq(seq, prev))
		}
		vAssert("content-outside-excluded-subtrees-kept", vSubseq(content, seq))
		if mode == 3 {
			for _, nm := range navMarkers {
				vAssert("strictest-mode-drops-navigation-blocks", !strings.Contains(txt, nm))
			}
		}
		prev = seq
	}
	vReach("end")
}

// H_C15_epub_heading_options: EPUB Markdown shifts and caps heading levels like every other format.
//
//symgo:harness prop=C15 kernel=K3c-epub-heading-options
//symgo:desc one chapter with a heading h1..h4 (enumerated) and a paragraph; MarkdownWithHeadingOptions with offset in {-1, 0, 2, 5} and maximum in {0 (none), 2, 6} (enumerated): exactly one ATX heading line, "#" x clamp(level + offset, 1, min(max or 6, 6)) + text
func H_C15_epub_heading_options() {
	lvl := vAnyIntIn(1, 4)
	off := []int{-1, 0, 2, 5}[vAnyIntIn(0, 3)]
	max := []int{0, 2, 6}[vAnyIntIn(0, 2)]
	h := string(rune('0' + lvl))
	r := &Reader{chapters: []*Chapter{{ID: "c1", Content: []byte(`<html><head><title>T</title></head><body><h` + h + `>HeadX</h` + h + `><p>Body text.</p></body></html>`)}}}
	md, err := r.MarkdownWithHeadingOptions(ExtractOptions{}, off, max)
	vAssert("markdown-no-error", err == nil)
	want := lvl + off
	if max > 0 && want > max {
		want = max
	}
	if want < 1 {
		want = 1
	}
	if want > 6 {
		want = 6
	}
	n := 0
	for _, ln := range strings.Split(md, "\n") {
		if strings.HasPrefix(ln, "#") {
			n++
			vAssert("heading-level-is-shifted-and-capped", ln == strings.Repeat("#", want)+" HeadX")
		}
	}
	vAssert("exactly-one-heading-line", n == 1)
	vReach("end")
}
