//go:build verif_harness

package epubdoc

import (
	"archive/zip"
	"strings"
)

func vMember(zr *zip.Reader, name, content string) {
	zr.File = append(zr.File, &zip.File{FileHeader: zip.FileHeader{Name: name}})
	vZipContent(name, content)
}

// H_C18_epub_package_from_xml: from the text of container.xml, the package document and the chapter files to the chapter
// list: spine order (not manifest, archive or file-name order), hrefs resolved relative to the package file and
// percent-decoded, one chapter per declared readable part, each with its own text.
//
//symgo:harness prop=C18 kernel=K1-epub-package-from-xml noreplay=1
//symgo:desc archive members given as texts (zip decompression cut: member content model); mimetype, META-INF/container.xml pointing to OEBPS/content.opf or to content.opf at the root (enumerated); manifest of three XHTML chapters (one with a percent-encoded space, one with a percent-encoded '#' in its href, one in a sub-directory; hrefs plain or with "./" and "dir/../dir/" dot segments, enumerated), a nav document, an NCX and a stylesheet, listed in an order different from the spine; spine = enumerated permutation of the three chapters, optionally preceded by an idref that is not in the manifest; archive order reversed or not (enumerated); an unreferenced decoy XHTML member: Reader.init (DRM check, container, OPF, chapters; real tokeniser, modelled reflection walk, real HTML parser) yields 3 chapters in spine order, each with its own href and body text; the decoy's text appears in no chapter; EPUB 2 (version 2.0, NCX only) or EPUB 3 (enumerated); chapter heads with a text title or with self-closing <title/> and <script/> (enumerated); Text() holds every chapter's body text exactly once
func H_C18_epub_package_from_xml() {
	dir := "OEBPS/"
	if vAnyIntIn(0, 1) == 1 {
		dir = ""
	}
	v3 := vAnyIntIn(0, 1) == 1
	ids := []string{"ch-z", "ch-a", "ch-m"}
	hrefs := []string{"z%20one.xhtml", "a%231.xhtml", "text/m.xhtml"} // as written in the manifest
	if vAnyIntIn(0, 1) == 1 {
		// the same parts named by relative references with dot segments
		hrefs = []string{"./z%20one.xhtml", "a%231.xhtml", "text/../text/m.xhtml"}
	}
	files := []string{"z one.xhtml", "a#1.xhtml", "text/m.xhtml"}     // as stored in the archive (relative to the package)
	order := []int{0, 1, 2}
	for i := 0; i < 2; i++ {
		j := vAnyIntIn(i, 2)
		order[i], order[j] = order[j], order[i]
	}
	ghost := vAnyIntIn(0, 1) == 1
	version := "2.0"
	if v3 {
		version = "3.0"
	}
	opf := `<?xml version="1.0" encoding="UTF-8"?><package xmlns="http://www.idpf.org/2007/opf" version="` + version + `" unique-identifier="uid"><metadata xmlns:dc="http://purl.org/dc/elements/1.1/"><dc:title>Book</dc:title><dc:identifier id="uid">urn:uuid:1</dc:identifier><dc:language>en</dc:language></metadata><manifest>`
	opf += `<item id="css" href="style.css" media-type="text/css"/>`
	if v3 {
		opf += `<item id="nav" href="nav.xhtml" media-type="application/xhtml+xml" properties="nav"/>`
	}
	opf += `<item id="ncx" href="toc.ncx" media-type="application/x-dtbncx+xml"/>`
	for _, k := range []int{1, 2, 0} { // manifest order differs from every spine order's file-name order
		opf += `<item id="` + ids[k] + `" href="` + hrefs[k] + `" media-type="application/xhtml+xml"/>`
	}
	opf += `</manifest><spine toc="ncx">`
	if ghost {
		opf += `<itemref idref="not-in-manifest"/>`
	}
	for _, k := range order {
		opf += `<itemref idref="` + ids[k] + `"/>`
	}
	opf += `</spine></package>`
	// the head as XHTML writers produce it: a title with text, or - legal XML, not HTML - an empty title and a script
	// element written as self-closing tags
	selfClosing := vAnyIntIn(0, 1) == 1
	chapter := func(marker string) string {
		head := `<title>T ` + marker + `</title>`
		if selfClosing {
			head = `<title/><script type="text/javascript" src="a.js"/>`
		}
		return `<?xml version="1.0" encoding="UTF-8"?><html xmlns="http://www.w3.org/1999/xhtml"><head>` + head + `</head><body><h1>Heading ` + marker + `</h1><p>Text of ` + marker + `.</p></body></html>`
	}
	type mem struct{ name, content string }
	members := []mem{
		{"mimetype", "application/epub+zip"},
		{"META-INF/container.xml", `<?xml version="1.0"?><container version="1.0" xmlns="urn:oasis:names:tc:opendocument:xmlns:container"><rootfiles><rootfile full-path="` + dir + `content.opf" media-type="application/oebps-package+xml"/></rootfiles></container>`},
		{dir + "content.opf", opf},
		{dir + "decoy.xhtml", chapter("DECOY")},
		{dir + "style.css", "p{}"},
		{dir + "toc.ncx", `<?xml version="1.0"?><ncx xmlns="http://www.daisy.org/z3986/2005/ncx/" version="2005-1"><navMap><navPoint id="n1" playOrder="1"><navLabel><text>One</text></navLabel><content src="a.xhtml"/></navPoint></navMap></ncx>`},
	}
	for k := 0; k < 3; k++ {
		members = append(members, mem{dir + files[k], chapter("part" + string(rune('A'+k)))})
	}
	if v3 {
		members = append(members, mem{dir + "nav.xhtml", `<html xmlns="http://www.w3.org/1999/xhtml" xmlns:epub="http://www.idpf.org/2007/ops"><body><nav epub:type="toc"><ol><li><a href="a.xhtml">One</a></li></ol></nav></body></html>`})
	}
	if vAnyIntIn(0, 1) == 1 {
		for i, j := 1, len(members)-1; i < j; i, j = i+1, j-1 { // mimetype stays first
			members[i], members[j] = members[j], members[i]
		}
	}
	zr := &zip.Reader{}
	for _, m := range members {
		vMember(zr, m.name, m.content)
	}
	r := &Reader{}
	err := r.init(zr)
	vAssert("opens", err == nil)
	vAssert("chapter-count-is-declared-readable-parts", len(r.chapters) == 3)
	for i, k := range order {
		ch := r.chapters[i]
		vAssert("spine-order-and-resolved-href", ch.ID == ids[k] && ch.Href == dir+files[k])
		own := "part" + string(rune('A'+k))
		vAssert("own-text", strings.Contains(string(ch.Content), "Text of "+own+"."))
		vAssert("no-decoy-text", !strings.Contains(string(ch.Content), "DECOY"))
		vAssert("title-from-own-part", strings.Contains(ch.Title, own))
	}
	txt, terr := r.TextWithOptions(ExtractOptions{})
	vAssert("text-no-error", terr == nil)
	for k := 0; k < 3; k++ {
		vAssert("chapter-text-is-extracted", strings.Count(txt, "Text of part"+string(rune('A'+k))+".") == 1)
	}
	vReach("end")
}

// H_C20_drm_from_xml: the DRM decision taken from the text of META-INF/encryption.xml as real packagers write it
// (namespace prefixes, nested CipherData), not from a pre-parsed structure.
//
//symgo:harness prop=C20 kernel=K5-drm-from-xml noreplay=1
//symgo:desc archive members given as texts (zip member content model); META-INF/encryption.xml absent, or with one or two EncryptedData entries out of {IDPF font obfuscation of a font, Adobe font obfuscation of a font, IDPF obfuscation of a style sheet, AES-256 of a chapter whose URI is spelled in upper case / with the .xht extension / as an SVG content document / with a percent-encoded dot / with trailing white space, AES-128 of an image}, or empty, or truncated mid-element (enumerated); element names with or without the enc: prefix (enumerated); optional META-INF/rights.xml: checkForDRM (real tokeniser, modelled reflection walk) refuses exactly when rights.xml is present, a chapter is encrypted, or encryption.xml cannot be parsed
func H_C20_drm_from_xml() {
	pfx := ""
	xmlns := `xmlns="urn:oasis:names:tc:opendocument:xmlns:container" xmlns:enc="http://www.w3.org/2001/04/xmlenc#"`
	encNS := ` xmlns="http://www.w3.org/2001/04/xmlenc#"`
	if vAnyIntIn(0, 1) == 1 {
		pfx, encNS = "enc:", ""
	}
	entry := func(algo, uri string) string {
		return `<` + pfx + `EncryptedData` + encNS + `><` + pfx + `EncryptionMethod Algorithm="` + algo + `"/><` + pfx + `CipherData><` + pfx + `CipherReference URI="` + uri + `"/></` + pfx + `CipherData></` + pfx + `EncryptedData>`
	}
	font := entry("http://www.idpf.org/2008/embedding", "OEBPS/fonts/f.otf")
	// the encrypted chapter's URI as packagers spell it: different case, the .xht extension, an SVG content document,
	// a percent-encoded character, trailing white space
	chapURI := []string{"OEBPS/Text/ch1.XHTML", "OEBPS/Text/ch1.xht", "OEBPS/Text/page1.svg", "OEBPS/Text/ch1%2Exhtml", "OEBPS/Text/ch1.xhtml "}[vAnyIntIn(0, 4)]
	chap := entry("http://www.w3.org/2001/04/xmlenc#aes256-cbc", chapURI)
	// the two standard obfuscation algorithms, applied (as they are meant to be) to a font; and - obfuscation only, so
	// not DRM - applied by a sloppy packager to a style sheet
	font2 := entry("http://ns.adobe.com/pdf/enc#RC", "OEBPS/fonts/g.ttf")
	obfCSS := entry("http://www.idpf.org/2008/embedding", "OEBPS/Styles/main.css")
	img := entry("http://www.w3.org/2001/04/xmlenc#aes128-cbc", "OEBPS/img/cover.jpg")
	head := `<?xml version="1.0" encoding="UTF-8"?><encryption ` + xmlns + `>`
	var enc string
	has, drm := true, false
	switch vAnyIntIn(0, 8) {
	case 7:
		enc = head + font + font2 + `</encryption>`
	case 8:
		enc = head + obfCSS + font2 + `</encryption>`
	case 0:
		has = false
	case 1:
		enc = head + font + `</encryption>`
	case 2:
		enc, drm = head+font+chap+`</encryption>`, true
	case 3:
		enc = head + img + font + `</encryption>`
	case 4:
		enc = head + `</encryption>`
	case 5:
		enc, drm = head+font+`<`+pfx+`EncryptedData><`+pfx+`Encrypt`, true
	default:
		enc, drm = head+chap+`</encryption>`, true
	}
	rights := vAnyIntIn(0, 1) == 1
	zr := &zip.Reader{}
	vMember(zr, "mimetype", "application/epub+zip")
	if has {
		vMember(zr, "META-INF/encryption.xml", enc)
	}
	vMember(zr, "OEBPS/Text/ch1.xhtml", "<html/>")
	if rights {
		vMember(zr, "META-INF/rights.xml", `<adept:rights xmlns:adept="http://ns.adobe.com/adept"/>`)
	}
	err := checkForDRM(zr)
	if drm || rights {
		vAssert("drm-protected-is-refused", err == ErrDRMProtected)
	} else {
		vAssert("unprotected-is-admitted", err == nil)
	}
	vReach("end")
}
