//go:build verif_harness

package htmldoc

import (
	"strings"

	"golang.org/x/net/html"
)

func vEl(tag string, attrs map[string]string, kids ...*html.Node) *html.Node {
	n := &html.Node{Type: html.ElementNode, Data: tag}
	for k, v := range attrs {
		n.Attr = append(n.Attr, html.Attribute{Key: k, Val: v})
	}
	for _, k := range kids {
		n.AppendChild(k)
	}
	return n
}

func vTxt(s string) *html.Node { return &html.Node{Type: html.TextNode, Data: s} }

// vAllText collects every text carried by the extracted elements, in order.
func vAllText(els []parsedElement) string {
	var b strings.Builder
	for _, e := range els {
		b.WriteString(e.Text)
		b.WriteString("\n")
		for _, it := range e.Items {
			b.WriteString(it.Text)
			b.WriteString("\n")
		}
		if e.Table != nil {
			for _, r := range e.Table.Rows {
				for _, c := range r {
					b.WriteString(c.Text)
					b.WriteString("\n")
				}
			}
		}
	}
	return b.String()
}

// vMarkersIn returns which of the markers occur in text, in order of occurrence, failing on duplicates.
func vMarkerSeq(text string, markers []string) ([]string, bool) {
	type hit struct {
		pos int
		m   string
	}
	var hits []hit
	for _, m := range markers {
		c := strings.Count(text, m)
		if c > 1 {
			return nil, false
		}
		if c == 1 {
			hits = append(hits, hit{strings.Index(text, m), m})
		}
	}
	for i := 1; i < len(hits); i++ {
		for j := i; j > 0 && hits[j].pos < hits[j-1].pos; j-- {
			hits[j], hits[j-1] = hits[j-1], hits[j]
		}
	}
	out := make([]string, len(hits))
	for i, h := range hits {
		out[i] = h.m
	}
	return out, true
}

func vIsSubseq(a, b []string) bool { // a is a subsequence of b
	k := 0
	for _, x := range b {
		if k < len(a) && a[k] == x {
			k++
		}
	}
	return k == len(a)
}

// H_C19_navigation_modes_monotone: each stricter exclusion mode returns a subsequence of the next weaker one, mode None
// returns every content marker once and in document order, and the per-mode cache returns the same elements again.
//
//symgo:harness prop=C19 kernel=K1K2-mode-lattice noreplay=1
//symgo:desc DOM of 3 blocks under <body> or under a single wrapper <div> (enumerated); each block's container tag enumerated over {p, div, nav, header, ul/li} (thorough: + aside, footer, section, blockquote, pre); role attribute enumerated over {none, navigation, banner, main}; class enumerated over {none, "navbar", "content", "nav-like-canvas"}; one block optionally holds 4 links (link-dense); marker texts concrete: None = all markers once in document order; Explicit, Standard, Aggressive each a subsequence of the previous; second call per mode identical. (Enumerated structure: the solver is not involved in this harness)
func H_C19_navigation_modes_monotone() {
	tags := []string{"p", "div", "nav", "header", "ul", "aside", "footer", "section", "blockquote", "pre"}
	ntags := 5 // quick: p, div, nav, header, ul
	if vTier() > 0 {
		ntags = len(tags)
	}
	roles := []string{"", "navigation", "banner", "main"}
	classes := []string{"", "navbar", "content", "canvas-nav-like"}
	markers := []string{"MkA", "MkB", "MkC"}
	var blocks []*html.Node
	for i := 0; i < 3; i++ {
		tag := tags[vAnyIntIn(0, ntags-1)]
		attrs := map[string]string{}
		if i == 0 {
			if r := roles[vAnyIntIn(0, len(roles)-1)]; r != "" {
				attrs["role"] = r
			}
		}
		if i == 1 {
			if c := classes[vAnyIntIn(0, len(classes)-1)]; c != "" {
				attrs["class"] = c
			}
		}
		var inner *html.Node
		switch {
		case tag == "ul":
			inner = vEl("li", nil, vTxt(markers[i]+" item"))
		case i == 2 && vAnyIntIn(0, 1) == 1:
			inner = vEl("p", nil, vEl("a", map[string]string{"href": "#"}, vTxt(markers[i])), vEl("a", map[string]string{"href": "#"}, vTxt("l2")),
				vEl("a", map[string]string{"href": "#"}, vTxt("l3")), vEl("a", map[string]string{"href": "#"}, vTxt("l4")))
		case tag == "p" || tag == "pre" || tag == "blockquote":
			inner = vTxt(markers[i] + " text")
		default:
			inner = vEl("p", nil, vTxt(markers[i]+" text"))
		}
		blocks = append(blocks, vEl(tag, attrs, inner))
	}
	var body *html.Node
	if vAnyIntIn(0, 1) == 1 {
		body = vEl("body", nil, vEl("div", map[string]string{"id": "wrap"}, blocks...))
	} else {
		body = vEl("body", nil, blocks...)
	}
	doc := &html.Node{Type: html.DocumentNode}
	doc.AppendChild(vEl("html", nil, vEl("head", nil), body))
	r := &Reader{doc: doc, filteredCache: map[NavigationExclusionMode][]parsedElement{}}
	r.extractBody(doc)
	var seqs [][]string
	for mode := NavigationExclusionNone; mode <= NavigationExclusionAggressive; mode++ {
		els := r.getElements(mode)
		seq, ok := vMarkerSeq(vAllText(els), markers)
		vAssert("no-content-duplicated", ok)
		seqs = append(seqs, seq)
		again, ok2 := vMarkerSeq(vAllText(r.getElements(mode)), markers)
		vAssert("cached-result-identical", ok2 && vIsSubseq(again, seq) && len(again) == len(seq))
	}
	vAssert("mode-none-returns-everything-in-order", len(seqs[0]) == 3 && seqs[0][0] == "MkA" && seqs[0][1] == "MkB" && seqs[0][2] == "MkC")
	vAssert("explicit-narrows-none", vIsSubseq(seqs[1], seqs[0]))
	vAssert("standard-narrows-explicit", vIsSubseq(seqs[2], seqs[1]))
	vAssert("aggressive-narrows-standard", vIsSubseq(seqs[3], seqs[2]))
	vReach("end")
}

// H_C19_table_cells_once: every table cell's text is returned once, row by row in source order, with the authored spans,
// wherever the row lives (thead, tbody, tfoot or directly under table).
//
//symgo:harness prop=C19 kernel=K3-tables
//symgo:desc table with 2..3 rows; each row placed in thead / tbody / tfoot / directly under <table> (enumerated per row, source order kept); 1..2 cells per row (td or th); one cell carries rowspan and colspan attributes whose values are symbolic decimal digits 1..3: cells come back once each, row by row, with RowSpan/ColSpan equal to the digits
func H_C19_table_cells_once() {
	nrows := vAnyIntIn(2, 3)
	table := vEl("table", nil)
	var want [][]string
	var rs, cs byte
	for i := 0; i < nrows; i++ {
		var cells []*html.Node
		var texts []string
		for j, nc := 0, vAnyIntIn(1, 2); j < nc; j++ {
			tx := "c" + string(rune('0'+i)) + string(rune('0'+j))
			tag := "td"
			if vAnyIntIn(0, 1) == 1 {
				tag = "th"
			}
			attrs := map[string]string{}
			if i == 0 && j == 0 {
				rs, cs = vAnyByteOf("123"), vAnyByteOf("123")
				attrs["rowspan"] = string([]byte{rs})
				attrs["colspan"] = string([]byte{cs})
			}
			cells = append(cells, vEl(tag, attrs, vTxt(" "+tx+" ")))
			texts = append(texts, tx)
		}
		tr := vEl("tr", nil, cells...)
		switch vAnyIntIn(0, 3) {
		case 0:
			table.AppendChild(vEl("thead", nil, tr))
		case 1:
			table.AppendChild(vEl("tbody", nil, tr))
		case 2:
			table.AppendChild(vEl("tfoot", nil, tr))
		default:
			table.AppendChild(tr)
		}
		want = append(want, texts)
	}
	pt := (&Reader{}).parseTable(table)
	vAssert("row-count", pt != nil && len(pt.Rows) == nrows)
	for i := range want {
		vAssert("cell-count", len(pt.Rows[i]) == len(want[i]))
		for j := range want[i] {
			vAssert("cell-text-once-in-source-order", pt.Rows[i][j].Text == want[i][j])
		}
	}
	vAssert("authored-spans", pt.Rows[0][0].RowSpan == int(rs-'0') && pt.Rows[0][0].ColSpan == int(cs-'0'))
	vReach("end")
}

// H_C19_nested_lists: list items at any depth are returned once, in document order, however the inner list is attached.
//
//symgo:harness prop=C19 kernel=K2-nested-lists noreplay=1
//symgo:desc outer <ul> or <ol> with 2..3 items; optionally an inner list placed inside one <li> or directly inside the outer list between two items (as browsers and the HTML parser accept), with 1..2 items of its own (all enumerated): every item marker occurs exactly once in the extracted text of every mode, in document order. (Enumerated structure)
func H_C19_nested_lists() {
	tag := []string{"ul", "ol"}[vAnyIntIn(0, 1)]
	n := vAnyIntIn(2, 3)
	inner := vAnyIntIn(0, 2) // 0 none, 1 inside an li, 2 directly inside the outer list
	at := vAnyIntIn(0, n-2)  // after which outer item
	var markers []string
	outer := vEl(tag, nil)
	mkInner := func() *html.Node {
		l := vEl("ul", nil)
		for j, m := 0, vAnyIntIn(1, 2); j < m; j++ {
			mk := "In" + string(rune('A'+j))
			markers = append(markers, mk)
			l.AppendChild(vEl("li", nil, vTxt(mk)))
		}
		return l
	}
	for i := 0; i < n; i++ {
		mk := "Out" + string(rune('A'+i))
		markers = append(markers, mk)
		li := vEl("li", nil, vTxt(mk))
		if inner == 1 && i == at {
			li.AppendChild(mkInner())
		}
		outer.AppendChild(li)
		if inner == 2 && i == at {
			outer.AppendChild(mkInner())
		}
	}
	doc := &html.Node{Type: html.DocumentNode}
	doc.AppendChild(vEl("html", nil, vEl("head", nil), vEl("body", nil, vEl("p", nil, vTxt("Intro")), outer)))
	r := &Reader{doc: doc, filteredCache: map[NavigationExclusionMode][]parsedElement{}}
	r.extractBody(doc)
	for mode := NavigationExclusionNone; mode <= NavigationExclusionAggressive; mode++ {
		txt := vAllText(r.getElements(mode))
		seq, ok := vMarkerSeq(txt, markers)
		vAssert("no-item-duplicated", ok)
		vAssert("every-item-once-in-document-order", len(seq) == len(markers) && vIsSubseq(markers, seq))
	}
	vReach("end")
}

// H_C19_exclusion_inside_list: excluding an element that sits inside a list removes that element's subtree only; the
// list's other items - before and after it - are kept in every mode.
//
//symgo:harness prop=C19 kernel=K3-exclusion-inside-list noreplay=1
//symgo:desc <ul> (or <ol>) with three items OutA, OutB, OutC; enumerated: a nested <ul class="sub-menu"> with two link items inside OutB's <li>, or an extra <li role="navigation"> between two items, or an extra <li class="sidebar"> at the end, placed after item 1 or 2 (enumerated); a paragraph follows the list: in every mode OutA, OutB, OutC and the paragraph each occur exactly once and in document order; in mode None the inserted element's text is present too. (Enumerated structure)
func H_C19_exclusion_inside_list() {
	tag := []string{"ul", "ol"}[vAnyIntIn(0, 1)]
	kind := vAnyIntIn(0, 2)
	at := vAnyIntIn(0, 1)
	outer := vEl(tag, nil)
	for i := 0; i < 3; i++ {
		li := vEl("li", nil, vTxt("Out"+string(rune('A'+i))))
		if kind == 0 && i == at {
			li.AppendChild(vEl("ul", map[string]string{"class": "sub-menu"},
				vEl("li", nil, vEl("a", map[string]string{"href": "#1"}, vTxt("SubOne"))),
				vEl("li", nil, vEl("a", map[string]string{"href": "#2"}, vTxt("SubTwo")))))
		}
		outer.AppendChild(li)
		if kind == 1 && i == at {
			outer.AppendChild(vEl("li", map[string]string{"role": "navigation"}, vTxt("SubOne")))
		}
		if kind == 2 && i == at {
			outer.AppendChild(vEl("li", map[string]string{"class": "sidebar"}, vTxt("SubOne")))
		}
	}
	doc := &html.Node{Type: html.DocumentNode}
	doc.AppendChild(vEl("html", nil, vEl("head", nil), vEl("body", nil, vEl("p", nil, vTxt("Intro")), outer, vEl("p", nil, vTxt("Closing")))))
	r := &Reader{doc: doc, filteredCache: map[NavigationExclusionMode][]parsedElement{}}
	r.extractBody(doc)
	keep := []string{"Intro", "OutA", "OutB", "OutC", "Closing"}
	for mode := NavigationExclusionNone; mode <= NavigationExclusionAggressive; mode++ {
		txt := vAllText(r.getElements(mode))
		seq, ok := vMarkerSeq(txt, keep)
		vAssert("nothing-duplicated", ok)
		vAssert("content-outside-the-excluded-subtree-is-kept-in-order", len(seq) == len(keep) && vIsSubseq(keep, seq))
		if mode == NavigationExclusionNone {
			vAssert("mode-none-keeps-everything", strings.Count(txt, "SubOne") == 1)
		}
	}
	vReach("end")
}
