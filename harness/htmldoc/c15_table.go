//go:build verif_harness

package htmldoc

// ---- reference reader for GitHub-flavoured-Markdown pipe tables (GFM spec 4.10), used as the oracle.

// vGFMSplitRow splits one table line into trimmed cell texts; "\|" is a literal pipe.
func vGFMSplitRow(line string) []string {
	// trim spaces
	for len(line) > 0 && (line[0] == ' ' || line[0] == '\t') {
		line = line[1:]
	}
	for len(line) > 0 && (line[len(line)-1] == ' ' || line[len(line)-1] == '\t') {
		line = line[:len(line)-1]
	}
	if len(line) > 0 && line[0] == '|' {
		line = line[1:]
	}
	// a trailing unescaped pipe closes the last cell
	if n := len(line); n > 0 && line[n-1] == '|' && (n < 2 || line[n-2] != '\\') {
		line = line[:n-1]
	}
	var cells []string
	var cur []byte
	for i := 0; i < len(line); i++ {
		c := line[i]
		if c == '\\' && i+1 < len(line) && line[i+1] == '|' {
			cur = append(cur, '|')
			i++
			continue
		}
		if c == '|' {
			cells = append(cells, vGFMTrim(string(cur)))
			cur = nil
			continue
		}
		cur = append(cur, c)
	}
	return append(cells, vGFMTrim(string(cur)))
}

func vGFMTrim(s string) string {
	for len(s) > 0 && (s[0] == ' ' || s[0] == '\t') {
		s = s[1:]
	}
	for len(s) > 0 && (s[len(s)-1] == ' ' || s[len(s)-1] == '\t') {
		s = s[:len(s)-1]
	}
	return s
}

func vGFMIsDelimiterCell(s string) bool {
	if len(s) > 0 && s[0] == ':' {
		s = s[1:]
	}
	if len(s) > 0 && s[len(s)-1] == ':' {
		s = s[:len(s)-1]
	}
	if len(s) == 0 {
		return false
	}
	for i := 0; i < len(s); i++ {
		if s[i] != '-' {
			return false
		}
	}
	return true
}

// vGFMParse reads md as exactly one pipe table and returns its rows (header first); ok=false if md is not one table.
func vGFMParse(md string) ([][]string, bool) {
	var lines []string
	start := 0
	for i := 0; i <= len(md); i++ {
		if i == len(md) || md[i] == '\n' {
			if i > start || i < len(md) {
				lines = append(lines, md[start:i])
			}
			start = i + 1
		}
	}
	for len(lines) > 0 && lines[len(lines)-1] == "" {
		lines = lines[:len(lines)-1]
	}
	if len(lines) < 2 {
		return nil, false
	}
	header := vGFMSplitRow(lines[0])
	delim := vGFMSplitRow(lines[1])
	if len(delim) != len(header) {
		return nil, false
	}
	for _, d := range delim {
		if !vGFMIsDelimiterCell(d) {
			return nil, false
		}
	}
	rows := [][]string{header}
	for _, ln := range lines[2:] {
		if ln == "" {
			return nil, false // a blank line would end the table: the output is more than one block
		}
		cells := vGFMSplitRow(ln)
		for len(cells) < len(header) {
			cells = append(cells, "")
		}
		rows = append(rows, cells[:len(header)])
	}
	return rows, true
}

// vSymCells bounds how many cells of a table are symbolic (the others hold a concrete text).
var vSymCells int

// vCellText: 0..2 symbolic bytes over the alphabet that matters for pipe tables.
func vCellText() string {
	if vSymCells <= 0 {
		return "é|y" // a non-ASCII character and a pipe
	}
	vSymCells--
	n := vAnyIntIn(0, 2)
	b := make([]byte, n)
	for i := range b {
		b[i] = vAnyByteOf("|\n a-")
	}
	return string(b)
}

// vNormCell: what a Markdown reader may legitimately see for a cell: newlines become spaces, outer blanks are trimmed.
func vNormCell(s string) string {
	b := []byte(s)
	for i := range b {
		if b[i] == '\n' {
			b[i] = ' '
		}
	}
	return vGFMTrim(string(b))
}

// H_C15_html_table_markdown: a GFM reader reads the pipe table back as the same rows x columns of cell texts.
//
//symgo:harness prop=C15 kernel=K1-html-table
//symgo:desc shapes 1..2 x 1..2 (enumerated); up to 2 quick / 4 thorough cells hold 0..2 symbolic bytes over {pipe, newline, space, a, -}, the others the concrete text "é|y" (a non-ASCII character next to a pipe) (backslash excluded: GFM cannot represent a literal backslash before a pipe); oracle: a reference GFM pipe-table reader in the harness (header row, delimiter row of equal cell count, \\| unescaping, cell trimming)
func H_C15_html_table_markdown() {
	vSymCells = 2 + 2*vTier()
	rows, cols := vAnyIntIn(1, 2), vAnyIntIn(1, 2)
	texts := make([][]string, rows)
	for i := range texts {
		texts[i] = make([]string, cols)
		for j := range texts[i] {
			texts[i][j] = vCellText()
		}
	}
	t := &ParsedTable{HasHeader: vAnyIntIn(0, 1) == 1}
	for i := 0; i < rows; i++ {
		var r []TableCell
		for j := 0; j < cols; j++ {
			r = append(r, TableCell{Text: texts[i][j], RowSpan: 1, ColSpan: 1})
		}
		t.Rows = append(t.Rows, r)
	}
	md := t.ToMarkdown()
	got, ok := vGFMParse(md)
	vAssert("is-one-pipe-table", ok)
	vAssert("row-count", len(got) == rows)
	for i := 0; i < rows; i++ {
		vAssert("column-count", len(got[i]) == cols)
		for j := 0; j < cols; j++ {
			vAssert("cell-text", got[i][j] == vNormCell(texts[i][j]))
		}
	}
	vReach("end")
}
