//go:build verif_harness

package htmldoc

import "strings"

// vSnippets: HTML fragments (as a browser-tolerant author might write them) with the content markers they carry, in order.
var vSnippets = []struct {
	html    string
	markers []string
}{
	{`<h2>HeadA &amp; more</h2>`, []string{"HeadA & more"}},
	{`<p>ParaB with <b>bold</b> and <a href="x">link</a><br>second line`, []string{"ParaB with", "bold", "link", "second line"}}, // unclosed <p>
	{`<ul><li>ItemC1<li>ItemC2<ul><li>DeepC3</li></ul></ul>`, []string{"ItemC1", "ItemC2", "DeepC3"}},                              // unclosed <li>
	{`<table><thead><tr><th>HdD1</th><th>HdD2</th></tr></thead><tbody><tr><td rowspan="2">CellD3</td><td>CellD4</td></tr><tr><td>CellD5</td></tr></tbody><tfoot><tr><td colspan="2">FootD6</td></tr></tfoot></table>`, []string{"HdD1", "HdD2", "CellD3", "CellD4", "CellD5", "FootD6"}},
	{`<pre><code>codeE(1 &lt; 2)
  indented</code></pre>`, []string{"codeE(1 < 2)", "indented"}},
	{`<blockquote><p>QuoteF</p></blockquote><script>var ScriptG = 1;</script><style>.StyleG{}</style>`, []string{"QuoteF"}},
	{`<div><section><article><p>NestedH</p></article></section></div>`, []string{"NestedH"}},
	{`<ol><li><p>StepI1</p></li><li>StepI2 &#8212; dash</li></ol>`, []string{"StepI1", "StepI2 — dash"}},
}

// H_C19_text_from_html: from HTML source text through the real parser to the extracted text: every piece of content
// text once, in document order, entities decoded, script and style content gone - in mode None, through Text,
// Markdown and the element list; stricter modes return subsequences.
//
//symgo:harness prop=C19 kernel=K4-text-from-html-source
//symgo:desc HTML source = doctype + head (title, style) + body of 2 quick / 2..3 thorough fragments chosen from a catalogue of 8 (heading with entity; unclosed paragraph with inline elements and <br>; list with unclosed items and a nested list; table with thead/tbody/tfoot and row/column spans; pre/code with entities; blockquote followed by script and style; deeply nested section/article; ordered list with paragraph items and a numeric entity), distinct, in enumerated order; parsed by the real golang.org/x/net/html parser (interpreted): in mode None the element list, Text() and Markdown() each contain every marker of the chosen fragments exactly once and in document order, no script/style text and no markup; each stricter mode's marker sequence is a subsequence of the previous one
func H_C19_text_from_html() {
	n := vAnyIntIn(2, 2+vTier())
	var picked []int
	src := `<!DOCTYPE html><html><head><title>Doc Title</title><style>body{color:red} .HeadStyle{}</style></head><body>`
	var markers []string
	for i := 0; i < n; i++ {
		k := vAnyIntIn(0, len(vSnippets)-1)
		for _, p := range picked {
			vAssume(p != k)
		}
		picked = append(picked, k)
		src += vSnippets[k].html + "\n"
		markers = append(markers, vSnippets[k].markers...)
	}
	src += `</body></html>`
	r, err := OpenReader(strings.NewReader(src))
	vAssert("parses", err == nil && r != nil)
	check := func(label, txt string) {
		seq, ok := vMarkerSeq(txt, markers)
		vAssert(label+"-nothing-duplicated", ok)
		vAssert(label+"-every-marker-once-in-order", len(seq) == len(markers) && vIsSubseq(markers, seq))
		vAssert(label+"-no-script-or-style-text", !strings.Contains(txt, "ScriptG") && !strings.Contains(txt, "StyleG") && !strings.Contains(txt, "HeadStyle"))
		vAssert(label+"-no-markup", !strings.Contains(txt, "<li") && !strings.Contains(txt, "<td") && !strings.Contains(txt, "&amp;") && !strings.Contains(txt, "&lt;"))
	}
	check("elements", vAllText(r.getElements(NavigationExclusionNone)))
	txt, terr := r.Text()
	vAssert("text-no-error", terr == nil)
	check("text", txt)
	md, merr := r.Markdown()
	vAssert("markdown-no-error", merr == nil)
	check("markdown", md)
	prev := markers
	for mode := NavigationExclusionNone; mode <= NavigationExclusionAggressive; mode++ {
		seq, ok := vMarkerSeq(vAllText(r.getElements(mode)), markers)
		vAssert("mode-nothing-duplicated", ok)
		vAssert("stricter-mode-is-subsequence", vIsSubseq(seq, prev))
		prev = seq
	}
	vReach("end")
}
