//go:build verif_harness

package htmldoc

import (
	"strings"

	"github.com/tsawler/tabula/rag"
)

// vSnippets: HTML fragments (as a browser-tolerant author might write them) with the content markers they carry, in order.
var vSnippets = []struct {
	html    string
	markers []string
}{
	{`<h2>HeadA &amp; more</h2>`, []string{"HeadA & more"}},
	{`<p>ParaB with <b>bold</b> and <a href="x">link</a><br>second line`, []string{"ParaB with", "bold", "link", "second line"}}, // unclosed <p>
	{`<ul><li>ItemC1<li>ItemC2<ul><li>DeepC3</li></ul></ul>`, []string{"ItemC1", "ItemC2", "DeepC3"}},                              // unclosed <li>
	{`<table><thead><tr><th>HdD1</th><th>HdD2</th></tr></thead><tbody><tr><td rowspan="2">CellD3</td><td>CellD4</td></tr><tr><td>CellD5</td></tr></tbody><tfoot><tr><td colspan="2">FootD6</td></tr></tfoot></table>`, []string{"HdD1", "HdD2", "CellD3", "CellD4", "CellD5", "FootD6"}},
	{`<pre><code>codeE(1 &lt; 2)
  indented</code></pre>`, []string{"codeE(1 < 2)", "indented"}},
	{`<blockquote><p>QuoteF</p></blockquote><script>var ScriptG = 1;</script><style>.StyleG{}</style>`, []string{"QuoteF"}},
	{`<div><section><article><p>NestedH</p></article></section></div>`, []string{"NestedH"}},
	{`<ol><li><p>StepI1</p></li><li>StepI2 &#8212; dash</li></ol>`, []string{"StepI1", "StepI2 — dash"}},
	{`<ul><li>ItemJ1</li><p>MidJ</p><li>ItemJ2</li></ul>`, []string{"ItemJ1", "MidJ", "ItemJ2"}},
	{`<ul><li>ItemK1</li><p class="nav">NavMidK</p><li>ItemK2</li></ul>`, []string{"ItemK1", "NavMidK", "ItemK2"}},
	{`<ul><li>ItemL<table><tr><td>CellL</td></tr></table></li></ul>`, []string{"ItemL", "CellL"}},
	{`<table><tr><th colspan="2">TitleM</th></tr><tr><td>LeftM</td><td>RightM</td></tr></table>`, []string{"TitleM", "LeftM", "RightM"}},
	{`<table><tr><td>ZürichN | main<br>street</td><td>5&nbsp;&euro; ÖreN</td></tr></table>`, []string{"ZürichN", "ÖreN"}},
}

// H_C19_text_from_html: from HTML source text through the real parser to the extracted text: every piece of content
// text once, in document order, entities decoded, script and style content gone - in mode None, through Text,
// Markdown and the element list; stricter modes return subsequences.
//
//symgo:harness prop=C19 kernel=K4-text-from-html-source
//symgo:desc HTML source = doctype + head (title, style) + body of 2 quick / 2..3 thorough fragments chosen from a catalogue of 13 (a table cell holding non-ASCII letters next to a pipe and a line break; a list with a paragraph interleaved between its items, the same with the paragraph in a navigation class, a table inside a list item, a table whose first row is a single spanning cell; heading with entity; unclosed paragraph with inline elements and <br>; list with unclosed items and a nested list; table with thead/tbody/tfoot and row/column spans; pre/code with entities; blockquote followed by script and style; deeply nested section/article; ordered list with paragraph items and a numeric entity), distinct, in enumerated order; parsed by the real golang.org/x/net/html parser (interpreted): in mode None the element list, Text(), Markdown() and the document model's text each contain every marker of the chosen fragments exactly once and in document order, no script/style text and no markup; each stricter mode's marker sequence is a subsequence of the previous one
func H_C19_text_from_html() {
	n := vAnyIntIn(2, 2+vTier())
	var picked []int
	src := `<!DOCTYPE html><html><head><title>Doc Title</title><style>body{color:red} .HeadStyle{}</style></head><body>`
	var markers []string
	for i := 0; i < n; i++ {
		k := vAnyIntIn(0, len(vSnippets)-1)
		for _, p := range picked {
			vAssume(p != k)
		}
		picked = append(picked, k)
		src += vSnippets[k].html + "\n"
		markers = append(markers, vSnippets[k].markers...)
	}
	src += `</body></html>`
	r, err := OpenReader(strings.NewReader(src))
	vAssert("parses", err == nil && r != nil)
	check := func(label, txt string) {
		seq, ok := vMarkerSeq(txt, markers)
		vAssert(label+"-nothing-duplicated", ok)
		vAssert(label+"-every-marker-once-in-order", len(seq) == len(markers) && vIsSubseq(markers, seq))
		vAssert(label+"-no-script-or-style-text", !strings.Contains(txt, "ScriptG") && !strings.Contains(txt, "StyleG") && !strings.Contains(txt, "HeadStyle"))
		vAssert(label+"-no-markup", !strings.Contains(txt, "<li") && !strings.Contains(txt, "<td") && !strings.Contains(txt, "&amp;") && !strings.Contains(txt, "&lt;"))
	}
	check("elements", vAllText(r.getElements(NavigationExclusionNone)))
	txt, terr := r.TextWithOptions(ExtractOptions{NavigationExclusion: NavigationExclusionNone})
	vAssert("text-no-error", terr == nil)
	check("text", txt)
	md, merr := r.MarkdownWithOptions(ExtractOptions{NavigationExclusion: NavigationExclusionNone})
	vAssert("markdown-no-error", merr == nil)
	check("markdown", md)
	doc, derr := r.DocumentWithOptions(ExtractOptions{NavigationExclusion: NavigationExclusionNone})
	vAssert("document-no-error", derr == nil && doc != nil)
	check("document", doc.ExtractText())
	prev := markers
	for mode := NavigationExclusionNone; mode <= NavigationExclusionAggressive; mode++ {
		seq, ok := vMarkerSeq(vAllText(r.getElements(mode)), markers)
		vAssert("mode-nothing-duplicated", ok)
		vAssert("stricter-mode-is-subsequence", vIsSubseq(seq, prev))
		prev = seq
	}
	vReach("end")
}

// H_C15_html_markdown_structure: from HTML source to Markdown: headings keep their level, list items their order,
// nesting depth and ordered/unordered kind (also when an ordered list holds an unordered one or vice versa), tables
// come out as pipe tables.
//
//symgo:harness prop=C15 kernel=K3-html-markdown-from-source
//symgo:desc HTML source with an <h2>/<h4> heading (enumerated), an outer list <ol> or <ul> (enumerated) of two items whose first item holds a nested <ol> or <ul> (enumerated independently) of one item, and a 2x2 table with a pipe next to a non-ASCII letter in a cell; parsed by the real HTML parser; Markdown with NavigationExclusionNone: the heading is '#' x level + text; list lines, in order: outer item, nested item indented by two spaces, outer item - each with "<number>. " if its own list is ordered and "- " if it is unordered; the table is one pipe table read back by the reference GFM reader
func H_C15_html_markdown_structure() {
	hl := []int{2, 4}[vAnyIntIn(0, 1)]
	outer := []string{"ol", "ul"}[vAnyIntIn(0, 1)]
	inner := []string{"ol", "ul"}[vAnyIntIn(0, 1)]
	h := string(rune('0' + hl))
	src := `<!DOCTYPE html><html><head><title>T</title></head><body><h` + h + `>HeadX</h` + h + `>` +
		`<` + outer + `><li>ItemA<` + inner + `><li>ItemB</li></` + inner + `></li><li>ItemC</li></` + outer + `>` +
		`<table><tr><th>c1</th><th>c2</th></tr><tr><td>é|y</td><td>d</td></tr></table></body></html>`
	r, err := OpenReader(strings.NewReader(src))
	vAssert("parses", err == nil && r != nil)
	md, merr := r.MarkdownWithOptions(ExtractOptions{NavigationExclusion: NavigationExclusionNone})
	vAssert("markdown-no-error", merr == nil)
	lines := strings.Split(md, "\n")
	has := func(s string) int {
		for i, ln := range lines {
			if ln == s {
				return i
			}
		}
		return -1
	}
	vAssert("heading-level-kept", has(strings.Repeat("#", hl)+" HeadX") >= 0)
	item := func(kind string, indent string, text string) int {
		for i, ln := range lines {
			if !strings.HasPrefix(ln, indent) || strings.HasPrefix(ln, indent+" ") {
				continue
			}
			rest := ln[len(indent):]
			if kind == "ul" {
				if rest == "- "+text {
					return i
				}
				continue
			}
			d := 0
			for d < len(rest) && rest[d] >= '0' && rest[d] <= '9' {
				d++
			}
			if d > 0 && rest[d:] == ". "+text {
				return i
			}
		}
		return -1
	}
	a, b, c := item(outer, "", "ItemA"), item(inner, "  ", "ItemB"), item(outer, "", "ItemC")
	vAssert("outer-items-keep-their-kind", a >= 0 && c >= 0)
	vAssert("nested-item-keeps-depth-and-its-own-kind", b >= 0)
	vAssert("list-order", a < b && b < c)
	k := -1
	for i, ln := range lines {
		if strings.HasPrefix(ln, "|") {
			k = i
			break
		}
	}
	vAssert("table-present", k >= 0)
	e := k
	for e < len(lines) && strings.HasPrefix(lines[e], "|") {
		e++
	}
	got, ok := vMarkdownTable(lines[k:e])
	vAssert("table-is-a-2x2-pipe-table", ok && len(got) == 2 && len(got[0]) == 2 && len(got[1]) == 2)
	vAssert("table-cell-texts", got[0][0] == "c1" && got[0][1] == "c2" && got[1][0] == "é|y" && got[1][1] == "d")
	vReach("end")
}

// vMarkdownTable: header row, delimiter row, body rows of a pipe table ("\|" is a literal pipe).
func vMarkdownTable(lines []string) ([][]string, bool) {
	split := func(line string) []string {
		line = strings.TrimSpace(line)
		line = strings.TrimPrefix(line, "|")
		if strings.HasSuffix(line, "|") && !strings.HasSuffix(line, "\\|") {
			line = line[:len(line)-1]
		}
		var cells []string
		cur := ""
		for i := 0; i < len(line); i++ {
			if line[i] == '\\' && i+1 < len(line) && line[i+1] == '|' {
				cur += "|"
				i++
				continue
			}
			if line[i] == '|' {
				cells = append(cells, strings.TrimSpace(cur))
				cur = ""
				continue
			}
			cur += line[i : i+1]
		}
		return append(cells, strings.TrimSpace(cur))
	}
	if len(lines) < 2 {
		return nil, false
	}
	header := split(lines[0])
	delim := split(lines[1])
	if len(delim) != len(header) {
		return nil, false
	}
	for _, d := range delim {
		if len(strings.Trim(d, "-:")) != 0 || !strings.Contains(d, "-") {
			return nil, false
		}
	}
	rows := [][]string{header}
	for _, ln := range lines[2:] {
		c := split(ln)
		for len(c) < len(header) {
			c = append(c, "")
		}
		rows = append(rows, c[:len(header)])
	}
	return rows, true
}

// H_C19_nested_header_footer_is_content: <header> and <footer> are page furniture only directly under <body> or under
// the page's single wrapper element; inside one of several top-level blocks (a card, an article) they are content and
// are returned in every mode.
//
//symgo:harness prop=C19 kernel=K6-nested-header-footer
//symgo:desc HTML source: <body> holds two top-level <div>s (or a <div> and a <main>, enumerated), optionally with a <script> between them; the first holds <header> with a heading, a paragraph and <footer> with a paragraph, the second a paragraph; no navigation roles, classes or links anywhere; modes None, Explicit, Standard, Aggressive through TextWithOptions: every mode returns all four texts, in order
func H_C19_nested_header_footer_is_content() {
	second := []string{"div", "main"}[vAnyIntIn(0, 1)]
	script := ""
	if vAnyIntIn(0, 1) == 1 {
		script = `<script>var x = 1;</script>`
	}
	src := `<!DOCTYPE html><html><head><title>T</title></head><body><div><header><h3>CardHeading</h3></header><p>CardBody text</p><footer><p>CardClosing remark</p></footer></div>` + script + `<` + second + `><p>SecondBlock</p></` + second + `></body></html>`
	r, err := OpenReader(strings.NewReader(src))
	vAssert("parses", err == nil && r != nil)
	want := []string{"CardHeading", "CardBody", "CardClosing", "SecondBlock"}
	for mode := NavigationExclusionNone; mode <= NavigationExclusionAggressive; mode++ {
		txt, terr := r.TextWithOptions(ExtractOptions{NavigationExclusion: mode})
		vAssert("no-error", terr == nil)
		seq, ok := vMarkerSeq(txt, want)
		vAssert("nothing-duplicated", ok)
		vAssert("nested-header-and-footer-are-content-in-every-mode", len(seq) == len(want) && vIsSubseq(want, seq))
	}
	vReach("end")
}

// H_C15_html_heading_options: the Markdown heading level is the source level shifted by the configured offset and
// capped at the configured maximum, never below 1 or above 6.
//
//symgo:harness prop=C15 kernel=K3b-html-heading-options
//symgo:desc HTML source with one heading h1..h6 (enumerated), optionally with a <br> inside it (enumerated), and a paragraph; MarkdownWithRAGOptions with HeadingLevelOffset in -2..7 and MaxHeadingLevel in 1..6 (both enumerated): the output has exactly one ATX heading line, "#" x clamp(level + offset, 1, min(max, 6)) followed by the heading text
func H_C15_html_heading_options() {
	lvl := vAnyIntIn(1, 6)
	off := vAnyIntIn(-2, 7)
	max := vAnyIntIn(1, 6)
	h := string(rune('0' + lvl))
	headHTML, headText := "HeadX", "HeadX"
	if vAnyIntIn(0, 1) == 1 {
		headHTML, headText = "Head<br>X", "Head X" // a line break inside the heading: still one ATX line
	}
	r, err := OpenReader(strings.NewReader(`<!DOCTYPE html><html><head><title>T</title></head><body><h` + h + `>` + headHTML + `</h` + h + `><p>Body text.</p></body></html>`))
	vAssert("parses", err == nil && r != nil)
	opts := rag.DefaultMarkdownOptions()
	opts.IncludeMetadata, opts.IncludeTableOfContents = false, false
	opts.HeadingLevelOffset, opts.MaxHeadingLevel = off, max
	md, merr := r.MarkdownWithRAGOptions(ExtractOptions{NavigationExclusion: NavigationExclusionNone}, opts)
	vAssert("markdown-no-error", merr == nil)
	want := lvl + off
	if want < 1 {
		want = 1
	}
	if want > max {
		want = max
	}
	if want > 6 {
		want = 6
	}
	n := 0
	for _, ln := range strings.Split(md, "\n") {
		if strings.HasPrefix(ln, "#") {
			n++
			vAssert("heading-level-is-shifted-and-capped", ln == strings.Repeat("#", want)+" "+headText)
		}
	}
	vAssert("exactly-one-heading-line", n == 1)
	vAssert("heading-text-stays-in-the-heading", !strings.Contains(md, "\nX"))
	vReach("end")
}
