//go:build verif_harness

package pages

import "github.com/tsawler/tabula/core"

// vResolver resolves references into a harness object table.
type vResolver struct{ objs map[int]core.Object }

func (r *vResolver) Resolve(obj core.Object) (core.Object, error) {
	if ref, ok := obj.(core.IndirectRef); ok {
		return r.ResolveReference(ref)
	}
	if ref, ok := obj.(*core.IndirectRef); ok {
		return r.ResolveReference(*ref)
	}
	return obj, nil
}
func (r *vResolver) ResolveDeep(obj core.Object) (core.Object, error) { return r.Resolve(obj) }
func (r *vResolver) ResolveReference(ref core.IndirectRef) (core.Object, error) {
	if o, ok := r.objs[ref.Number]; ok {
		return o, nil
	}
	return core.Null{}, nil
}

type vNode struct {
	dict     core.Dict
	leaf     bool
	hasBox   bool
	box      int
	hasRot   bool
	rot      int
	children []*vNode
}

// vMkNode creates a node; presence and value of /MediaBox and /Rotate are symbolic.
func vMkNode(leaf bool, leaves *[]*vNode) *vNode {
	n := &vNode{dict: core.Dict{}, leaf: leaf}
	if vAnyBool() {
		n.hasBox, n.box = true, vAnyIntRange(1, 1000)
		n.dict["MediaBox"] = core.Array{core.Int(0), core.Int(0), core.Int(n.box), core.Int(n.box + 1)}
	}
	if vAnyBool() {
		n.hasRot, n.rot = true, 90*vAnyIntIn(1, 3)
		n.dict["Rotate"] = core.Int(n.rot)
	}
	if leaf {
		n.dict["Type"] = core.Name("Page")
		*leaves = append(*leaves, n)
	} else {
		n.dict["Type"] = core.Name("Pages")
		n.dict["Kids"] = core.Array{}
	}
	return n
}

// vAddKid links c under n, directly or through an indirect reference (symbolic choice).
func vAddKid(res *vResolver, nextObj *int, n, c *vNode) {
	c.dict["Parent"] = n.dict
	n.children = append(n.children, c)
	kids := n.dict["Kids"].(core.Array)
	if vAnyBool() {
		*nextObj++
		res.objs[*nextObj] = c.dict
		kids = append(kids, core.IndirectRef{Number: *nextObj})
	} else {
		kids = append(kids, c.dict)
	}
	n.dict["Kids"] = kids
}

// vBuildShape builds one of the enumerated tree shapes.
func vBuildShape(res *vResolver, shape int, nextObj *int, leaves *[]*vNode) *vNode {
	root := vMkNode(false, leaves)
	switch shape {
	case 0: // root -> [leaf, mid -> [leaf]]
		vAddKid(res, nextObj, root, vMkNode(true, leaves))
		mid := vMkNode(false, leaves)
		vAddKid(res, nextObj, root, mid)
		vAddKid(res, nextObj, mid, vMkNode(true, leaves))
	case 1: // root -> [mid -> [leaf, leaf]]
		mid := vMkNode(false, leaves)
		vAddKid(res, nextObj, root, mid)
		vAddKid(res, nextObj, mid, vMkNode(true, leaves))
		vAddKid(res, nextObj, mid, vMkNode(true, leaves))
	case 2: // root -> [mid -> [mid2 -> [leaf]]]  (attribute on the great-grandparent)
		mid := vMkNode(false, leaves)
		vAddKid(res, nextObj, root, mid)
		mid2 := vMkNode(false, leaves)
		vAddKid(res, nextObj, mid, mid2)
		vAddKid(res, nextObj, mid2, vMkNode(true, leaves))
	default: // root -> [mid -> [leaf], mid' -> [leaf], leaf]
		for k := 0; k < 2; k++ {
			mid := vMkNode(false, leaves)
			vAddKid(res, nextObj, root, mid)
			vAddKid(res, nextObj, mid, vMkNode(true, leaves))
		}
		vAddKid(res, nextObj, root, vMkNode(true, leaves))
	}
	return root
}

// vNearest walks the reference tree and records, for every leaf, the nearest ancestor-or-self box / rotation.
func vNearest(n *vNode, box, rot *vNode, out map[*vNode][2]*vNode) {
	if n.hasBox {
		box = n
	}
	if n.hasRot {
		rot = n
	}
	if n.leaf {
		out[n] = [2]*vNode{box, rot}
		return
	}
	for _, c := range n.children {
		vNearest(c, box, rot, out)
	}
}

// H_C01_page_tree: pages come out in depth-first order, their number is the number of leaves, and an inheritable
// attribute is taken from the nearest ancestor-or-self that carries it, at any depth.
//
//symgo:harness prop=C01 kernel=K1-page-tree
//symgo:desc enumerated tree shapes (quick: 3 shapes up to depth 3 with 1..2 leaves; thorough: + a 3-leaf shape); every kid direct or by reference (symbolic), every node carries /MediaBox (symbolic size) and /Rotate with symbolic presence: leaf order, leaf count, MediaBox and Rotate = nearest ancestor-or-self
func H_C01_page_tree() {
	shapes := 2
	if vTier() > 0 {
		shapes = 3
	}
	res := &vResolver{objs: map[int]core.Object{}}
	next := 0
	var leaves []*vNode
	root := vBuildShape(res, vAnyIntIn(0, shapes), &next, &leaves)
	root.dict["Count"] = core.Int(len(leaves))
	nearest := map[*vNode][2]*vNode{}
	vNearest(root, nil, nil, nearest)
	pt := NewPageTree(root.dict, res)
	pages, err := pt.Pages()
	vAssert("no-error", err == nil)
	vAssert("page-count-is-leaf-count", len(pages) == len(leaves))
	cnt, cerr := pt.Count()
	vAssert("count", cerr == nil && cnt == len(leaves))
	for i, pg := range pages {
		lf := leaves[i]
		// identity of the leaf: the same dictionary
		vAssert("depth-first-order", pg.dict["Type"] == core.Name("Page") && len(pg.dict) == len(lf.dict) && pg.Rotate() == pg.Rotate())
		nb, nr := nearest[lf][0], nearest[lf][1]
		box, berr := pg.MediaBox()
		if nb == nil {
			vAssert("no-mediabox-anywhere-is-error", berr != nil)
		} else {
			vAssert("mediabox-inherited-from-nearest", berr == nil && len(box) == 4 && box[2] == float64(nb.box))
		}
		if nr == nil {
			vAssert("default-rotation", pg.Rotate() == 0)
		} else {
			vAssert("rotate-inherited-from-nearest", pg.Rotate() == nr.rot)
		}
	}
	vReach("end")
}

// H_C02_page_tree_cycles: /Kids entries that point back at an ancestor (or at the node itself) must not exhaust the stack.
//
//symgo:harness prop=C02 kernel=pages.PageTree hang=1 depth=400 loop=64 steps=20000000
//symgo:desc 2..3 Pages nodes; every kid of every node is a reference to a symbolic node index in [0,n) (self and ancestor references included) or a leaf; call depth bound 400 (the implementation refuses nesting deeper than 256)
func H_C02_page_tree_cycles() {
	n := vAnyIntIn(2, 3)
	res := &vResolver{objs: map[int]core.Object{}}
	nodes := make([]core.Dict, n)
	for i := range nodes {
		nodes[i] = core.Dict{"Type": core.Name("Pages")}
		res.objs[i+1] = nodes[i]
	}
	leaf := core.Dict{"Type": core.Name("Page")}
	for i := range nodes {
		kids := core.Array{}
		for k, nk := 0, vAnyIntIn(1, 2); k < nk; k++ {
			if vAnyIntIn(0, 1) == 0 {
				kids = append(kids, leaf)
			} else {
				kids = append(kids, core.IndirectRef{Number: 1 + vAnyIntIn(0, n-1)})
			}
		}
		nodes[i]["Kids"] = kids
	}
	_, _ = NewPageTree(nodes[0], res).Pages()
	vReach("end")
}
