#!/bin/bash
# usage: collect7.sh Cxx  -- collects a round-7 agent worktree (/tmp/s7_Cxx) into /verif/seeded/Cxx_f and /verif/hunt/Cxx
set -u
id=$1; wt=/tmp/s7_$id; out=/verif/seeded/${id}_f
[ -f $wt/SEED.json ] || { echo "no SEED.json in $wt"; exit 1; }
mkdir -p $out /verif/hunt/$id
git -C $wt diff > $out/patch.diff
pkg=$(python3 -c "import json;print(json.load(open('$wt/SEED.json'))['pkg_dir'])")
epkg=$(python3 -c "import json;print(json.load(open('$wt/SEED.json')).get('existing_pkg_dir',''))")
sed 's/func TestDemo/func TestSeedDemo/' $wt/$pkg/zz_demo_test.go > $out/demo_test.go
python3 - <<PY
import json
d=json.load(open('$wt/SEED.json'))
m={"property":d["property"],"pkg_dir":d["pkg_dir"],"what":d.get("what",""),"needs":d.get("needs",""),"files":d.get("files",[])}
json.dump(m,open('$out/meta.json','w'),indent=1)
PY
[ -f $wt/EXISTING.md ] && cp $wt/EXISTING.md /verif/hunt/$id/EXISTING.md
[ -n "$epkg" ] && [ -f $wt/$epkg/zz_existing_test.go ] && cp $wt/$epkg/zz_existing_test.go /verif/hunt/$id/existing_test.go.txt && echo "$epkg" > /verif/hunt/$id/pkg_dir
wc -l $out/patch.diff
