#!/usr/bin/env python3
"""Collects tools/seedcheck.sh result lines (out/seed_round*.txt and any file given on the command line) into
seeded/<id>/meta.json (confirmed + check history) and seeded/RESULTS.md."""
import json, os, re, sys, glob
V = "/verif"
files = sorted(glob.glob(f"{V}/out/seed_round*.txt")) + sys.argv[1:]
hist = {}
for f in files:
    rnd = os.path.basename(f).replace(".txt", "")
    for line in open(f):
        m = re.match(r"seed=(?:seed_)?(\S+) prop=(\S+) clean_demo=(\S*) mutant_demo=(\S*) suite=(\S*) check_exit=(\S*) caught_by=(.*)", line.strip())
        if not m:
            continue
        sid, prop, cd, md, su, ex, cb = m.groups()
        cb = cb.split(" only=")[0].split(" mode=")[0]
        hist.setdefault(sid, []).append({"round": rnd, "clean_demo": cd, "mutant_demo": md, "suite": su, "exit": ex,
                                         "caught_by": sorted(set(x for x in cb.split(",") if x))})
rows = []
for sid in sorted(os.listdir(f"{V}/seeded")):
    mp = f"{V}/seeded/{sid}/meta.json"
    if not os.path.exists(mp):
        continue
    meta = json.load(open(mp))
    h = hist.get(sid, [])
    if h:
        last = next((x for x in reversed(h) if not x["clean_demo"].startswith("(")), h[-1])
        meta["confirmed"] = {"how": "tools/seedcheck.sh: scratch worktree of /repo; demo test on clean tree, demo test with patch, full go test ./... with patch",
                             "clean_demo": last["clean_demo"], "mutant_demo": last["mutant_demo"], "existing_suite_with_patch": last["suite"]}
        meta["quick_check_history"] = [{"round": x["round"], "exit": x["exit"], "caught_by": x["caught_by"]} for x in h]
        for k in list(meta):
            if re.match(r"round\d_quick_check", k):
                del meta[k]
        json.dump(meta, open(mp, "w"), indent=1)
    first = next((x["round"] for x in h if x["exit"] == "1"), None)
    last = h[-1] if h else None
    rows.append((sid, meta.get("property"), meta.get("pkg_dir", ""), last, first, meta))
with open(f"{V}/seeded/RESULTS.md", "w") as o:
    o.write("# Seeded changes: which quick check catches which change\n\n")
    o.write("Every change compiles and passes the repository's whole test suite (confirmed by `tools/seedcheck.sh` in a scratch\n"
            "worktree, together with the agent's demonstration failing on the change and passing on the clean tree). "
            "`first caught` is the seedcheck round whose checks first reported it (round 1/2 = checks as they were when the "
            "seed arrived; later rounds = after strengthening).\n\n")
    o.write("| seed | package | caught now | first caught | reporting harness : assertion |\n|---|---|---|---|---|\n")
    for sid, prop, pkg, last, first, meta in rows:
        if meta.get("neutralised"):
            o.write(f"| {sid} | {pkg or '(root)'} | n/a (neutralised by a fix) | - | exposed a genuine defect, see meta.json |\n")
            continue
        if not last:
            o.write(f"| {sid} | {pkg} | not run | | |\n")
            continue
        caught = "yes" if last["exit"] == "1" else "**no**"
        cb = "; ".join(last["caught_by"][:3]) + (" …" if len(last["caught_by"]) > 3 else "")
        o.write(f"| {sid} | {pkg or '(root)'} | {caught} | {first or '-'} | {cb} |\n")
    n = sum(1 for r in rows if r[3] and r[3]["exit"] == "1" and not r[5].get("neutralised"))
    o.write(f"\nCaught: {n} of {len(rows)}.\n\n## What each change is\n\n")
    for sid, prop, pkg, last, first, meta in rows:
        o.write(f"- **{sid}** ({prop}): {meta.get('what','').strip()}\n  *Needs:* {meta.get('needs','').strip()}\n")
print("wrote RESULTS.md for", len(rows), "seeds")
