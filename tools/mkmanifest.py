#!/usr/bin/env python3
"""Regenerates /verif/MANIFEST.json from tools/claims.json (one entry per property)."""
import json, os
V = "/verif"
claims = json.load(open(f"{V}/tools/claims.json"))
props = [json.loads(l) for l in open(f"{V}/properties.jsonl")]
checks, na = [], []
for p in props:
    pid = p["id"]
    c = claims.get(pid)
    if not c or c.get("not_applicable"):
        na.append({"property_id": pid, "reason": (c or {}).get("not_applicable", "no check registered yet for this property in this session (engine present, harness not yet written)")})
        continue
    checks.append({
        "property_id": pid,
        "quick_cmd": f"/verif/bin/symgo check -p {pid} -tier quick",
        "thorough_cmd": f"/verif/bin/symgo check -p {pid} -tier thorough",
        "evidence_file": f"/verif/evidence/{pid}.json",
        "replay_cmd_template": "/verif/bin/symgo replay {path}",
        "engine": "symgo",
        "level_claimed": {"category": "model_checking", "text": c["text"], "design_ref": c.get("design_ref", "DESIGN.md section 7 / 11")},
        "level_note": c["note"],
        "technique": c.get("technique", "bounded symbolic execution of the real go/ssa with SMT (z3/cvc5) verification conditions; counterexamples replayed natively"),
    })
m = {
    "version": 1,
    "setup_cmd": "cd /verif/engine && GOFLAGS=-mod=mod GOPROXY=off GOSUMDB=off GOTOOLCHAIN=local go build -o /verif/bin/symgo .",
    "hooks": {
        "guard": "verif_harness",
        "enable": "harness files are injected as overlays (go/packages Overlay, go test -overlay) with -tags verif_harness; nothing is written to /repo and the repository contains no hook code",
        "baseline_off_cmd": "cd /repo && GOFLAGS=-mod=mod go test -vet=off -count=1 -timeout 25m ./...",
        "source_commits": [],
        "add_only": True,
    },
    "engines": [{"name": "symgo", "path": "/verif/engine", "serves_properties": [c["property_id"] for c in checks],
                 "kind_free_text": "symbolic executor for go/ssa (built from /repo on every run) emitting SMT-LIB2 to z3 4.8.12 with cvc5 / z3 5.1 portfolio; harnesses in /verif/harness are in-package overlay files"}],
    "checks": checks,
    "notes": "All checks are bounded symbolic model checking of the implementation's own SSA; bounds per harness are in each evidence file under coverage.harnesses[].bounds. Known findings: /verif/known_findings.jsonl.",
    "not_applicable": na,
}
json.dump(m, open(f"{V}/MANIFEST.json", "w"), indent=1)
print("checks:", [c["property_id"] for c in checks], "not_applicable:", [n["property_id"] for n in na])
