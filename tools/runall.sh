#!/bin/bash
# Runs every claimed check at the given tier (default quick), writing evidence files.
tier=${1:-quick}
cd /verif
for p in $(python3 -c "import json; print(' '.join(c['property_id'] for c in json.load(open('/verif/MANIFEST.json'))['checks']))"); do
  echo "=== $p"
  /verif/bin/symgo check -p $p -tier $tier > /verif/out/run_${p}_${tier}.log 2>&1
  echo "exit=$? $(tail -1 /verif/out/run_${p}_${tier}.log)"
  grep -E "^(VIOLATION|KNOWN-FINDING|UNCONFIRMED|ENGINE-MISMATCH|STALE)" /verif/out/run_${p}_${tier}.log
done
