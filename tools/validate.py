#!/opt/veriftools/pyvenv/bin/python3
import json, jsonschema, sys, glob
jsonschema.validate(json.load(open('/verif/MANIFEST.json')), json.load(open('/root/.vp/MANIFEST.schema.json')))
print('manifest ok')
sch = json.load(open('/root/.vp/EVIDENCE.schema.json'))
for f in sorted(glob.glob('/verif/evidence/*.json')):
    try:
        jsonschema.validate(json.load(open(f)), sch); print(f, 'ok')
    except Exception as e:
        print(f, 'INVALID', str(e)[:300])
