#!/bin/bash
# Regression over the stored seeds: applies each patch to /repo, runs only the harnesses that reported the seed in an
# earlier round (from out/seed_round*.txt; the whole quick check if none is recorded), restores /repo.
# usage: seedregress.sh <out-file> [seed ...]
set -u
out=$1; shift
export GOFLAGS=-mod=mod GOPROXY=off GOSUMDB=off GOTOOLCHAIN=local
seeds=${@:-$(ls /verif/seeded | grep -E '^C[0-9]+_[a-z]$')}
for s in $seeds; do
  d=/verif/seeded/$s
  if python3 -c "import json,sys;sys.exit(0 if json.load(open('$d/meta.json')).get('neutralised') else 1)"; then continue; fi
  prop=$(python3 -c "import json;print(json.load(open('$d/meta.json'))['property'])")
  only=$(grep -h "seed=\(seed_\)\?$s " /verif/out/seed_round*.txt 2>/dev/null | grep -o 'caught_by=[^ ]*' | sed 's/caught_by=//' | tr ',' '\n' | sed 's/:.*//' | grep . | sort -u | tr '\n' ',' | sed 's/,$//')
  if [ "${SEED_IN_WORKTREE:-0}" = 1 ]; then
    # /repo is busy: run against a patched scratch worktree (SYMGO_REPO) instead of touching /repo
    wt=/tmp/wtr_$$
    git -C /repo worktree add -q --detach $wt HEAD || continue
    if git -C $wt apply $d/patch.diff 2>/dev/null; then
      if [ -n "$only" ]; then
        SYMGO_REPO=$wt /verif/bin/symgo check -p $prop -tier quick -no-evidence -workers ${SEED_WORKERS:-6} -only "$only" > /tmp/seedreg_$$.log 2>&1
      else
        SYMGO_REPO=$wt /verif/bin/symgo check -p $prop -tier quick -no-evidence -workers ${SEED_WORKERS:-6} > /tmp/seedreg_$$.log 2>&1
      fi
      code=$?
      echo "seed=$s prop=$prop clean_demo=(confirmed-earlier) mutant_demo=(confirmed-earlier) suite=(confirmed-earlier) check_exit=$code caught_by=$(grep -A1 '^VIOLATION' /tmp/seedreg_$$.log | grep harness= | sed 's/.*harness=\([^ ]*\) label=\([^ ]*\).*/\1:\2/' | sort -u | tr '\n' ',') only=$only mode=worktree" >> $out
      cp /tmp/seedreg_$$.log /verif/out/seedcheck_${s}_quick.log; rm -f /tmp/seedreg_$$.log
    else
      echo "seed=$s prop=$prop clean_demo=(confirmed-earlier) mutant_demo=(confirmed-earlier) suite=(confirmed-earlier) repo_apply=FAILED" >> $out
    fi
    git -C /repo worktree remove --force $wt
    continue
  fi
  if ! git -C /repo apply --check $d/patch.diff 2>/dev/null; then
    echo "seed=$s prop=$prop clean_demo=(confirmed-earlier) mutant_demo=(confirmed-earlier) suite=(confirmed-earlier) repo_apply=FAILED" >> $out; continue
  fi
  git -C /repo apply $d/patch.diff
  if [ -n "$only" ]; then
    /verif/bin/symgo check -p $prop -tier quick -no-evidence -only "$only" > /tmp/seedreg_$$.log 2>&1
  else
    /verif/bin/symgo check -p $prop -tier quick -no-evidence > /tmp/seedreg_$$.log 2>&1
  fi
  code=$?
  git -C /repo checkout -- .
  echo "seed=$s prop=$prop clean_demo=(confirmed-earlier) mutant_demo=(confirmed-earlier) suite=(confirmed-earlier) check_exit=$code caught_by=$(grep -A1 '^VIOLATION' /tmp/seedreg_$$.log | grep harness= | sed 's/.*harness=\([^ ]*\) label=\([^ ]*\).*/\1:\2/' | sort -u | tr '\n' ',') only=$only" >> $out
  cp /tmp/seedreg_$$.log /verif/out/seedcheck_${s}_quick.log; rm -f /tmp/seedreg_$$.log
done
