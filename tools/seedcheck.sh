#!/bin/bash
# usage: seedcheck.sh <seed-dir> [tier]   -- confirms a seeded change and runs the property's check against it
set -u
seed=$1; tier=${2:-quick}
export GOFLAGS=-mod=mod GOPROXY=off GOSUMDB=off GOTOOLCHAIN=local
prop=$(python3 -c "import json;print(json.load(open('$seed/meta.json'))['property'])")
pkg=$(python3 -c "import json;print(json.load(open('$seed/meta.json'))['pkg_dir'])")
res="seed=$(basename $seed) prop=$prop"
if [ "${SEED_CHECK_ONLY:-0}" = 1 ]; then
  # regression mode: the seed was confirmed in an earlier round (clean/mutant demo, full suite); only re-run the check
  res="$res clean_demo=(confirmed-earlier) mutant_demo=(confirmed-earlier) suite=(confirmed-earlier)"
else
wt=/tmp/wtv_$$
git -C /repo worktree add -q $wt HEAD || exit 2
cp $seed/demo_test.go $wt/$pkg/zz_seed_demo_test.go
( cd $wt && go test -count=1 -run TestSeedDemo ./$pkg/ >/tmp/seed_clean_$$.log 2>&1 ) && res="$res clean_demo=PASS" || res="$res clean_demo=FAIL"
if git -C $wt apply $seed/patch.diff 2>/tmp/seed_apply_$$.log; then
  ( cd $wt && go test -count=1 -run TestSeedDemo ./$pkg/ >/tmp/seed_mut_$$.log 2>&1 ) && res="$res mutant_demo=PASS(!)" || res="$res mutant_demo=FAIL"
  rm -f $wt/$pkg/zz_seed_demo_test.go
  ( cd $wt && go build ./... && go test -count=1 ./... >/tmp/seed_suite_$$.log 2>&1 ) && res="$res suite=PASS" || res="$res suite=FAIL"
else
  res="$res apply=FAILED"
fi
if [ "${SEED_IN_WORKTREE:-0}" = 1 ]; then
  # /repo is busy (a long check is reading it): run the property's check against the patched scratch worktree
  # instead (SYMGO_REPO); the seed is re-run against /repo itself by tools/seedregress.sh afterwards
  SYMGO_REPO=$wt /verif/bin/symgo check -p $prop -tier $tier -no-evidence > /tmp/seed_check_$$.log 2>&1
  code=$?
  res="$res check_exit=$code caught_by=$(grep -A1 '^VIOLATION' /tmp/seed_check_$$.log | grep harness= | sed 's/.*harness=\([^ ]*\) label=\([^ ]*\).*/\1:\2/' | sort -u | tr '\n' ',')"
  cp /tmp/seed_check_$$.log /verif/out/seedcheck_$(basename $seed)_$tier.log
  git -C /repo worktree remove --force $wt
  echo "$res"; rm -f /tmp/seed_*_$$.log; exit 0
fi
git -C /repo worktree remove --force $wt
fi
# run the check against the mutant in /repo
if git -C /repo apply $seed/patch.diff; then
  /verif/bin/symgo check -p $prop -tier $tier -no-evidence > /tmp/seed_check_$$.log 2>&1
  code=$?
  git -C /repo checkout -- .
  res="$res check_exit=$code caught_by=$(grep -A1 '^VIOLATION' /tmp/seed_check_$$.log | grep harness= | sed 's/.*harness=\([^ ]*\) label=\([^ ]*\).*/\1:\2/' | sort -u | tr '\n' ',')"
  cp /tmp/seed_check_$$.log /verif/out/seedcheck_$(basename $seed)_$tier.log
else
  res="$res repo_apply=FAILED"
fi
echo "$res"
rm -f /tmp/seed_*_$$.log
