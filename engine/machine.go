package main

import (
	"fmt"
	"time"
	"go/token"
	"go/types"
	"math/big"
	"sort"
	"strings"

	"golang.org/x/tools/go/ssa"
)

type decision struct {
	kind  byte   // 'b' branch, 'c' concretisation, 'e' enumeration
	taken bool   // branch side / "equals v"
	v     uint64 // value (c, e)
}

type pendingItem struct {
	prefix []decision
	model  *model
}

type inputRec struct {
	Name string `json:"name"`
	Kind string `json:"kind"` // byte int bool float enum
	W    int    `json:"w"`
	Sg   bool   `json:"signed"`
	// filled from the model when reporting
	U uint64  `json:"u,omitempty"`
	F string  `json:"f,omitempty"` // rational text for floats
	B bool    `json:"b,omitempty"`
	fl float64
}

type violation struct {
	Harness string     `json:"harness"`
	Label   string     `json:"label"`
	Site    string     `json:"site"` // innermost repo function
	Pos     string     `json:"pos"`
	Inputs  []inputRec `json:"inputs"`
	Stack   []string   `json:"stack,omitempty"`
	Note    string     `json:"note,omitempty"`
}

func (v *violation) key() string { return v.Label + "@" + v.Site }

type undoRec struct {
	p    *value
	old  value
	mp   *amap
	k, v []value
}

type machine struct {
	eng  *engine
	h    *harness
	prog *ssa.Program
	tt   *termTable
	z    *solver

	// per-path
	prefix  []decision
	trace   []decision
	pc      []*T
	model   *model
	modelOK bool
	inputs  []inputRec
	nAux    int
	steps   int
	depth   int
	stack   []*ssa.Function
	undo    []undoRec
	newPend []pendingItem
	reached []string
	observed []string
	observeT []obsRec
	observeS []obsStr
	sumGuard []*T
	inFold   int
	dom      map[string]*dom8
	entangled map[string]bool
	allEntangled bool
	scratch  *model
	domDecided int
	zipHandles map[*value]bool // zip handle model: archives registered by vZipHandle (open ones are also in openFiles)
	openFiles map[*value]bool // file-handle model: handles returned by os.Open and not yet closed
	zipContents map[string]value // zip content model: member name -> content registered by the harness
	fileContents map[string]value // file content model: file name -> content registered by the harness
	fileState map[*value]*fileState

	// per-machine
	globals   map[*ssa.Global]*value
	inInit    bool
	initDone  map[*ssa.Package]bool
	logging   bool
	preexist  map[*value]bool
	preMaps   map[*amap]bool
	inSummary int
	sumCache  map[*ssa.Function]bool
	sumDefs   map[*ssa.Function]*sumDef
	foldCache map[*ssa.BasicBlock]*foldRegion
	xmlInfo   map[types.Type]*xmlTypeInfo

	// statistics
	st stats
}

type stats struct {
	raced            int
	paths, completed int
	domDecided       int
	aborted          map[string]int
	fnSeen           map[string]bool
	folds, summaries int
	inconclusive     int
	unsupported      map[string]int
	viol             map[string]*violation
	violCount        map[string]int
	endModels        []endSample
	vcs              int // verification conditions discharged (assert / implicit)
	vcUnsat          int
}

type endSample struct {
	Inputs   []inputRec `json:"inputs"`
	Reached  []string   `json:"reached"`
	Observed []string   `json:"observed"`
}

func newStats() stats {
	return stats{aborted: map[string]int{}, fnSeen: map[string]bool{}, unsupported: map[string]int{},
		viol: map[string]*violation{}, violCount: map[string]int{}}
}

// ---- symbolic inputs

func (m *machine) freshVar(tag string, w int) *T {
	name := fmt.Sprintf("%s_%d", tag, len(m.inputs))
	m.z.declareVar(name, w)
	return m.tt.v(name, w)
}

func (m *machine) freshInt(kind string, w int, sg bool) iv {
	tag := fmt.Sprintf("b%d", w)
	t := m.freshVar(tag, w)
	m.inputs = append(m.inputs, inputRec{Name: t.name, Kind: kind, W: w, Sg: sg})
	m.modelOK = m.modelOK && m.extendModel(t)
	return iv{w: w, sg: sg, t: t}
}

func (m *machine) freshBool() bv {
	t := m.freshVar("p", 0)
	m.inputs = append(m.inputs, inputRec{Name: t.name, Kind: "bool"})
	m.modelOK = m.modelOK && m.extendModel(t)
	return bv{t: t}
}

func (m *machine) freshReal() fv {
	t := m.freshVar("r", sortReal)
	m.inputs = append(m.inputs, inputRec{Name: t.name, Kind: "float", W: sortReal})
	m.modelOK = m.modelOK && m.extendModel(t)
	return fv{t: t}
}

// auxiliary (non-input) variable, e.g. sqrt results
func (m *machine) auxVar(tag string, w int) *T {
	name := fmt.Sprintf("aux%s_%d", tag, m.nAux)
	m.nAux++
	m.z.declareVar(name, w)
	m.inputs = append(m.inputs, inputRec{Name: name, Kind: "aux", W: w})
	t := m.tt.v(name, w)
	if !m.modelHas(t) {
		m.modelOK = false
	}
	return t
}

func (m *machine) modelHas(t *T) bool {
	if m.model == nil {
		return false
	}
	switch {
	case t.w > 0:
		_, ok := m.model.bv[t.name]
		return ok
	case t.w == 0:
		_, ok := m.model.bl[t.name]
		return ok
	}
	_, ok := m.model.real[t.name]
	return ok
}

// extendModel gives a fresh unconstrained variable a default value in the current model.
func (m *machine) extendModel(t *T) bool {
	if m.model == nil {
		return false
	}
	if m.modelHas(t) {
		return true
	}
	switch {
	case t.w > 0:
		m.model.bv[t.name] = 0
	case t.w == 0:
		m.model.bl[t.name] = false
	default:
		m.model.real[t.name] = new(big.Rat)
	}
	return true
}

func (m *machine) wantAll() []wantVar {
	out := make([]wantVar, 0, len(m.inputs))
	for _, in := range m.inputs {
		if in.Kind == "enum" {
			continue
		}
		w := in.W
		if in.Kind == "bool" {
			w = 0
		}
		out = append(out, wantVar{in.Name, w})
	}
	return out
}

// ---- path condition, model

func (m *machine) emit(l string) { m.z.decl(l) }

func (m *machine) smt(t *T) string { return m.tt.smt(t, m.emit) }

func (m *machine) assume(t *T) {
	if t.op == "true" {
		return
	}
	m.pc = append(m.pc, t)
	m.z.assert(m.smt(t))
	m.noteAssume(t)
}

// assumeChecked adds t and keeps the model flag honest.
func (m *machine) assumeChecked(t *T) {
	if t.op == "true" {
		return
	}
	if t.op == "false" {
		panic(abortPath{"assume-false"})
	}
	if v, ok := m.evalBool(t); !(ok && v) {
		m.modelOK = false
	}
	m.assume(t)
}

// evalBool evaluates c under the current model; ok=false if no usable model.
func (m *machine) evalBool(c *T) (val, ok bool) {
	if !m.modelOK || m.model == nil {
		return false, false
	}
	m.tt.beginEval()
	r := m.tt.eval(c, m.model)
	return r.b, r.ok
}

// ensureModel makes the model valid for the current path condition.
func (m *machine) ensureModel() bool {
	if m.modelOK && m.model != nil {
		return true
	}
	r, mod := m.z.check(nil, m.wantAllOrDummy())
	switch r {
	case resSat:
		m.model, m.modelOK = mod, mod != nil
		return m.modelOK
	case resUnsat:
		panic(abortPath{"infeasible"})
	}
	m.st.inconclusive++
	panic(abortPath{"inconclusive:path-condition"})
}

func (m *machine) wantAllOrDummy() []wantVar {
	w := m.wantAll()
	if len(w) == 0 {
		m.z.declareVar("dummy_p", 0)
		return []wantVar{{"dummy_p", 0}}
	}
	return w
}

// sat: is pc ∧ t satisfiable (model returned when sat)
func (m *machine) sat(t *T) (satResult, *model) {
	return m.z.check([]string{m.smt(t)}, m.wantAllOrDummy())
}

// decide a symbolic boolean; forks by recording the alternative.
func (m *machine) decide(c bv) bool {
	if !c.sym() {
		return c.c
	}
	if c.t.isConst() {
		return c.t.op == "true"
	}
	if m.inSummary > 0 {
		return m.sumDecide(c)
	}
	if m.inFold > 0 {
		panic(abortPath{"fold-abort"})
	}
	pos := len(m.trace)
	if pos < len(m.prefix) {
		d := m.prefix[pos]
		m.trace = append(m.trace, d)
		if d.taken {
			m.assume(c.t)
		} else {
			m.assume(m.tt.not(c.t))
		}
		// the pending item's model satisfies the whole prefix, hence every part of it
		return d.taken
	}
	if m.inSummary == 0 && m.h.maxForks > 0 && len(m.trace) >= m.h.maxForks {
		panic(abortPath{"bound:maxforks"})
	}
	if v, ok := m.pinnedEval(c.t); ok {
		m.st.domDecided++
		return m.takeSide(c.t, v)
	}
	if st, ok := m.unary(c.t); ok {
		switch {
		case !st.canTrue && !st.canFalse:
			panic(abortPath{"infeasible"})
		case !st.canFalse:
			m.st.domDecided++
			return m.takeSide(c.t, true)
		case !st.canTrue:
			m.st.domDecided++
			return m.takeSide(c.t, false)
		case m.isFree(st.v):
			m.st.domDecided++
			side := true
			if cur, okc := m.evalBool(c.t); okc {
				side = cur
			}
			var alt *model
			if m.modelOK && m.model != nil {
				alt = copyModel(m.model)
				if side {
					alt.bv[st.v.name] = st.witFalse
				} else {
					alt.bv[st.v.name] = st.witTrue
				}
				// make sure the followed side is witnessed by the current model
				if cur, okc := m.evalBool(c.t); !okc || cur != side {
					if side {
						m.setModelVar(st.v, st.witTrue)
					} else {
						m.setModelVar(st.v, st.witFalse)
					}
				}
			}
			altTrace := append(append([]decision{}, m.trace...), decision{kind: 'b', taken: !side})
			m.newPend = append(m.newPend, pendingItem{altTrace, alt})
			return m.takeSide(c.t, side)
		}
	}
	m.ensureModel()
	mv, ok := m.evalBool(c.t)
	if !ok {
		// cannot evaluate: ask the solver for the true side first
		r, mod := m.sat(c.t)
		switch r {
		case resSat:
			m.model, m.modelOK, mv = mod, mod != nil, true
		case resUnsat:
			mv = false
			m.modelOK = false
			m.trace = append(m.trace, decision{kind: 'b', taken: false})
			m.assume(m.tt.not(c.t))
			return false
		default:
			m.st.inconclusive++
			panic(abortPath{"inconclusive:branch"})
		}
	}
	other := c.t
	if mv {
		other = m.tt.not(c.t)
	}
	r, mod := m.sat(other)
	switch r {
	case resSat:
		alt := append(append([]decision{}, m.trace...), decision{kind: 'b', taken: !mv})
		m.newPend = append(m.newPend, pendingItem{alt, mod})
	case resUnknown:
		m.st.inconclusive++
		m.noteInconclusive("branch side not decided")
	}
	m.trace = append(m.trace, decision{kind: 'b', taken: mv})
	if mv {
		m.assume(c.t)
	} else {
		m.assume(m.tt.not(c.t))
	}
	return mv
}

// takeSide records a branch decision that needed no solver call.
func (m *machine) takeSide(c *T, side bool) bool {
	m.trace = append(m.trace, decision{kind: 'b', taken: side})
	t := c
	if !side {
		t = m.tt.not(c)
	}
	if m.modelOK {
		if v, ok := m.evalBool(t); !(ok && v) {
			// a forced side is implied by the path condition, so a valid model satisfies it;
			// evaluation can only fail for lack of a value
			m.modelOK = ok && v
		}
	}
	m.assume(t)
	return side
}

func (m *machine) noteInconclusive(what string) {
	m.st.aborted["inconclusive:"+what]++
}

// concretize a symbolic integer by forking over its feasible values.
func (m *machine) concretize(x iv) iv {
	if !x.sym() {
		return x
	}
	if x.t.op == "bvconst" {
		return mk(x.w, x.sg, x.t.k)
	}
	if m.inSummary > 0 {
		panic(abortPath{"summary-abort"})
	}
	if m.inFold > 0 {
		panic(abortPath{"fold-abort"})
	}
	for n := 0; ; n++ {
		if n > m.h.concCap {
			panic(abortPath{"bound:concretize-cap"})
		}
		pos := len(m.trace)
		if pos < len(m.prefix) {
			d := m.prefix[pos]
			m.trace = append(m.trace, d)
			eq := m.tt.eq(x.t, m.tt.bvc(x.w, d.v))
			if d.taken {
				m.assume(eq)
				return mk(x.w, x.sg, d.v)
			}
			m.assume(m.tt.not(eq))
			continue
		}
		m.ensureModel()
		m.tt.beginEval()
		ev := m.tt.eval(x.t, m.model)
		if !ev.ok {
			// ask solver for a value through an auxiliary definition
			aux := m.auxVar("cz", x.w)
			m.assume(m.tt.eq(aux, x.t))
			m.ensureModel()
			m.tt.beginEval()
			ev = m.tt.eval(x.t, m.model)
			if !ev.ok {
				panic(abortPath{"unsupported:cannot evaluate term for concretisation"})
			}
		}
		v := ev.u
		eq := m.tt.eq(x.t, m.tt.bvc(x.w, v))
		r, mod := m.sat(m.tt.not(eq))
		switch r {
		case resSat:
			alt := append(append([]decision{}, m.trace...), decision{kind: 'c', v: v, taken: false})
			m.newPend = append(m.newPend, pendingItem{alt, mod})
		case resUnknown:
			m.st.inconclusive++
			m.noteInconclusive("concretize alternatives not decided")
		}
		m.trace = append(m.trace, decision{kind: 'c', v: v, taken: true})
		m.assume(eq)
		return mk(x.w, x.sg, v)
	}
}

// enumerate: fork over lo..hi without the solver.
func (m *machine) enumerate(lo, hi int64) int64 {
	if m.inSummary > 0 || m.inFold > 0 {
		panic(abortPath{"fold-abort"})
	}
	pos := len(m.trace)
	if pos < len(m.prefix) {
		d := m.prefix[pos]
		m.trace = append(m.trace, d)
		return int64(d.v)
	}
	if hi < lo {
		panic(abortPath{"assume-false"})
	}
	for v := hi; v > lo; v-- {
		alt := append(append([]decision{}, m.trace...), decision{kind: 'e', v: uint64(v), taken: true})
		var mod *model
		if m.modelOK && m.model != nil {
			mod = m.model // enumeration adds no constraint: same model stays valid
		}
		m.newPend = append(m.newPend, pendingItem{alt, mod})
	}
	m.trace = append(m.trace, decision{kind: 'e', v: uint64(lo), taken: true})
	return lo
}

// ---- violations

func (m *machine) site() (string, string) {
	// innermost repo (non-harness) function on the stack
	for i := len(m.stack) - 1; i >= 0; i-- {
		f := m.stack[i]
		if f.Pkg != nil && strings.HasPrefix(f.Pkg.Pkg.Path(), m.eng.modPath) && !m.eng.isHarnessFn(f) {
			return f.String(), ""
		}
	}
	if len(m.stack) > 0 {
		return m.stack[len(m.stack)-1].String(), ""
	}
	return "?", ""
}

func (m *machine) fillInputs(mod *model) []inputRec {
	out := make([]inputRec, 0, len(m.inputs))
	for _, in := range m.inputs {
		r := in
		switch {
		case in.Kind == "bool":
			r.B = mod.bl[in.Name]
		case in.Kind == "enum":
			// value already in U
		case in.W > 0:
			r.U = mod.bv[in.Name]
		case in.W == sortReal:
			if q, ok := mod.real[in.Name]; ok {
				r.F = q.RatString()
			} else {
				r.F = "0"
			}
		}
		out = append(out, r)
	}
	return out
}

func (m *machine) stackNames() []string {
	var out []string
	for i := len(m.stack) - 1; i >= 0 && len(out) < 8; i-- {
		out = append(out, m.stack[i].String())
	}
	return out
}

// report records a violation witnessed by model mod.
func (m *machine) report(label string, mod *model, pos token.Pos) {
	site, _ := m.site()
	v := &violation{Harness: m.h.name, Label: label, Site: site, Pos: m.prog.Fset.Position(pos).String(), Stack: m.stackNames()}
	if mod != nil {
		v.Inputs = m.fillInputs(mod)
	}
	k := v.key()
	m.st.violCount[k]++
	if _, seen := m.st.viol[k]; !seen {
		m.st.viol[k] = v
	}
}

// fail: unconditional violation on this path (concrete condition failed).
func (m *machine) fail(label string, pos token.Pos) {
	if m.inSummary > 0 {
		panic(abortPath{"summary-abort"})
	}
	if m.inFold > 0 {
		panic(abortPath{"fold-abort"})
	}
	if m.inInit {
		panic(abortPath{"init-abort:" + label})
	}
	m.st.vcs++
	m.ensureModel()
	m.report(label, m.model, pos)
	panic(abortPath{"violation:" + label})
}

// require: cond must hold, else violation `label`. For implicit (panic) conditions the
// path continues on the good side; an asserted condition is never assumed.
func (m *machine) require(label string, c bv, pos token.Pos, isAssert bool) {
	if !c.sym() || c.t.isConst() {
		ok := c.c
		if c.sym() {
			ok = c.t.op == "true"
		}
		if !ok {
			m.fail(label, pos)
		}
		if isAssert {
			m.st.vcs++
			m.st.vcUnsat++
		}
		return
	}
	if m.inSummary > 0 {
		panic(abortPath{"summary-abort"})
	}
	if m.inFold > 0 {
		panic(abortPath{"fold-abort"})
	}
	m.st.vcs++
	bad := m.tt.not(c.t)
	if v, ok := m.pinnedEval(c.t); ok && v {
		m.st.vcUnsat++
		m.st.domDecided++
		return
	}
	if st, ok := m.unary(c.t); ok {
		if !st.canFalse {
			m.st.vcUnsat++
			m.st.domDecided++
			return
		}
		if !st.canTrue && !isAssert {
			// every remaining value violates: report through the solver path below
		}
	}
	m.ensureModel()
	if mv, ok := m.evalBool(c.t); ok && !mv {
		// current model already violates
		m.report(label, m.model, pos)
		if isAssert {
			panic(abortPath{"violation:" + label})
		}
		r, mod := m.sat(c.t)
		if r != resSat {
			if r == resUnknown {
				m.st.inconclusive++
			}
			panic(abortPath{"violation:" + label})
		}
		m.model, m.modelOK = mod, mod != nil
		m.assume(c.t)
		return
	}
	r, mod := m.satVC(bad)
	switch r {
	case resSat:
		m.report(label, mod, pos)
		if isAssert {
			panic(abortPath{"violation:" + label})
		}
		m.assume(c.t) // model (which satisfies c) stays valid
	case resUnsat:
		m.st.vcUnsat++
		if isAssert && m.h.lemmas {
			m.assume(c.t) // proven on this path: keep it as a lemma for later conditions
		}
	default:
		m.st.inconclusive++
		m.noteInconclusive("vc " + label)
		if !isAssert {
			m.assume(c.t)
		}
	}
}

// satVC discharges a verification condition: a short try on the worker's incremental
// solver, then a race of fresh solver processes (z3, cvc5 with bit-vectors as integers,
// cvc5, z3 5.x) on the standalone script; the first conclusive answer wins.
func (m *machine) satVC(t *T) (satResult, *model) {
	tsmt := m.smt(t)
	if !m.h.vcFresh {
		quick := 3000
		if m.h.timeoutMs < quick {
			quick = m.h.timeoutMs
		}
		r, mod := m.z.checkT([]string{tsmt}, m.wantAllOrDummy(), quick)
		if r != resUnknown {
			return r, mod
		}
	}
	return m.raceCheck(tsmt)
}

type raceRes struct {
	r   satResult
	out string
	who string
}

func (m *machine) raceCheck(tsmt string) (satResult, *model) {
	m.z.queries++
	m.st.raced++
	t0 := time.Now()
	defer func() {
		d := time.Since(t0)
		m.z.dur += d
		if d > m.z.maxq {
			m.z.maxq = d
		}
	}()
	budget := m.eng.portfolioBudget
	want := m.wantAllOrDummy()
	var sb strings.Builder
	sb.WriteString("(set-option :produce-models true)\n")
	sb.WriteString(m.z.fullText([]string{tsmt}))
	sb.WriteString("(get-value (")
	for _, w := range want {
		sb.WriteString(w.name + " ")
	}
	sb.WriteString("))\n")
	script := sb.String()
	secs := fmt.Sprintf("%d", int(budget.Seconds())+1)
	ms := fmt.Sprintf("%d", budget.Milliseconds())
	cands := [][]string{
		{"z3", "-in", "-T:" + secs},
		{"cvc5", "--lang=smt2", "--solve-bv-as-int=sum", "--tlimit=" + ms},
		{"cvc5", "--lang=smt2", "--tlimit=" + ms},
		{"z3-new", "-in", "-T:" + secs},
	}
	if m.h.real {
		cands = [][]string{{"z3", "-in", "-T:" + secs}, {"cvc5", "--lang=smt2", "--tlimit=" + ms}, {"z3-new", "-in", "-T:" + secs}}
	}
	ch := make(chan raceRes, len(cands))
	stop := make(chan struct{})
	for _, c := range cands {
		c := c
		go func() {
			sc := script
			if c[0] == "cvc5" {
				sc = "(set-logic ALL)\n" + script
			}
			r, out := oneShotCancel(c[0], c[1:], sc, budget+3*time.Second, stop)
			ch <- raceRes{r, out, c[0]}
		}()
	}
	var res raceRes
	res.r = resUnknown
	for i := 0; i < len(cands); i++ {
		rr := <-ch
		if rr.r != resUnknown && res.r == resUnknown {
			res = rr
			close(stop)
		}
	}
	if res.r != resSat {
		return res.r, nil
	}
	i := strings.Index(res.out, "sat")
	sx, _ := parseSexp(res.out[i+3:])
	if sx == nil {
		return resUnknown, nil
	}
	mod := newModel()
	for k, pair := range sx.list {
		if k >= len(want) || len(pair.list) != 2 {
			continue
		}
		wv := want[k]
		val := pair.list[1]
		switch {
		case wv.w > 0:
			if u, ok := sexpBV(val); ok {
				mod.bv[wv.name] = u
			}
		case wv.w == 0:
			mod.bl[wv.name] = val.atom == "true"
		default:
			if q, ok := sexpRat(val); ok {
				mod.real[wv.name] = q
			}
		}
	}
	return resSat, mod
}

// ---- heap writes with undo log

func (m *machine) store(addr *value, v value) {
	if lhs, ok := (*addr).(agg); ok {
		if rhs, ok2 := v.(agg); ok2 && len(rhs) == len(lhs) {
			for i := range lhs {
				m.store(&lhs[i], rhs[i])
			}
			return
		}
	}
	if m.logging {
		m.undo = append(m.undo, undoRec{p: addr, old: *addr})
	}
	*addr = copyVal(v)
}

func (m *machine) setElem(p *value, v value) {
	if m.logging {
		m.undo = append(m.undo, undoRec{p: p, old: *p})
	}
	*p = v
}

func (m *machine) mapTouch(mp *amap) {
	if m.logging {
		m.undo = append(m.undo, undoRec{mp: mp, k: mp.keys, v: mp.vals})
		mp.keys = append([]value{}, mp.keys...)
		mp.vals = append([]value{}, mp.vals...)
	}
}

func (m *machine) rollback() {
	for i := len(m.undo) - 1; i >= 0; i-- {
		u := m.undo[i]
		if u.mp != nil {
			u.mp.keys, u.mp.vals = u.k, u.v
		} else {
			*u.p = u.old
		}
	}
	m.undo = m.undo[:0]
}

// ---- misc

func (m *machine) errorType() types.Type { return m.eng.errT }

func sortedKeys(mm map[string]int) []string {
	var ks []string
	for k := range mm {
		ks = append(ks, k)
	}
	sort.Strings(ks)
	return ks
}
