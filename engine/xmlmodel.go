package main

// Model of encoding/xml's reflection-driven unmarshalling (read.go: (*Decoder).unmarshal, unmarshalPath,
// unmarshalAttr, copyValue; typeinfo.go: getTypeInfo/structFieldInfo). The tokeniser - (*Decoder).Token,
// Skip, namespace translation, entity and charset handling - is NOT modelled: it is the real
// encoding/xml code, interpreted from SSA. Only the part that walks Go types by reflection is replaced
// by a walk over go/types, assigning into interpreter values. Supported: structs (XMLName, ",attr",
// ",chardata", ",cdata", ",innerxml" not supported, ",comment", ",any", element names with "a>b" parent
// paths and an optional namespace), embedded structs, pointers, slices, strings, []byte, booleans,
// integers, floats, and types with an UnmarshalXML method (called, interpreted). Anything else aborts
// the path as unsupported. The model is validated like every other model: sampled end-of-path inputs
// are replayed natively (real xml.Unmarshal) and the observations must agree.

import (
	"go/token"
	"go/types"
	"reflect"
	"strings"

	"golang.org/x/tools/go/ssa"
)

const (
	xfElement = iota
	xfAttr
	xfCharData
	xfComment
	xfAny
	xfAnyAttr
	xfInnerXML
)

type xmlField struct {
	path    []int
	typ     types.Type
	name    string
	xmlns   string
	parents []string
	mode    int
}

type xmlTypeInfo struct {
	xmlname *xmlField
	fields  []xmlField
}

func (m *machine) xmlTypeInfo(t types.Type) *xmlTypeInfo {
	if m.xmlInfo == nil {
		m.xmlInfo = map[types.Type]*xmlTypeInfo{}
	}
	if ti, ok := m.xmlInfo[t]; ok {
		return ti
	}
	st := t.Underlying().(*types.Struct)
	ti := &xmlTypeInfo{}
	m.xmlInfo[t] = ti
	m.xmlCollect(ti, st, nil)
	return ti
}

func (m *machine) xmlCollect(ti *xmlTypeInfo, st *types.Struct, prefix []int) {
	for i := 0; i < st.NumFields(); i++ {
		f := st.Field(i)
		tag := reflect.StructTag(st.Tag(i)).Get("xml")
		if (!f.Exported() && !f.Embedded()) || tag == "-" {
			continue
		}
		path := append(append([]int{}, prefix...), i)
		if f.Embedded() {
			ft := f.Type()
			if p, ok := ft.Underlying().(*types.Pointer); ok {
				ft = p.Elem()
			}
			if est, ok := ft.Underlying().(*types.Struct); ok && tag == "" {
				if _, isPtr := f.Type().Underlying().(*types.Pointer); isPtr {
					panic(abortPath{"unsupported:xml: embedded pointer struct"})
				}
				m.xmlCollect(ti, est, path)
				continue
			}
		}
		fi := xmlField{path: path, typ: f.Type()}
		if k := strings.Index(tag, " "); k >= 0 {
			fi.xmlns, tag = tag[:k], tag[k+1:]
		}
		tokens := strings.Split(tag, ",")
		fi.mode = xfElement
		modeSet := false
		for _, fl := range tokens[1:] {
			switch fl {
			case "attr":
				if modeSet && fi.mode == xfAny {
					fi.mode = xfAnyAttr
				} else {
					fi.mode = xfAttr
				}
				modeSet = true
			case "chardata", "cdata":
				fi.mode, modeSet = xfCharData, true
			case "comment":
				fi.mode, modeSet = xfComment, true
			case "any":
				if modeSet && fi.mode == xfAttr {
					fi.mode = xfAnyAttr
				} else {
					fi.mode = xfAny
				}
				modeSet = true
			case "innerxml":
				fi.mode, modeSet = xfInnerXML, true
			case "omitempty":
			}
		}
		if f.Name() == "XMLName" {
			fi.name = tokens[0]
			ti.xmlname = &fi
			continue
		}
		if tokens[0] == "" {
			fi.name = f.Name()
			// default element name from the field type's own XMLName
			if fi.mode == xfElement {
				ft := f.Type()
				for {
					switch u := ft.Underlying().(type) {
					case *types.Pointer:
						ft = u.Elem()
						continue
					case *types.Slice:
						ft = u.Elem()
						continue
					}
					break
				}
				if est, ok := ft.Underlying().(*types.Struct); ok {
					for j := 0; j < est.NumFields(); j++ {
						if est.Field(j).Name() == "XMLName" {
							xt := reflect.StructTag(est.Tag(j)).Get("xml")
							if k := strings.Index(xt, " "); k >= 0 {
								xt = xt[k+1:]
							}
							if n := strings.Split(xt, ",")[0]; n != "" {
								fi.name = n
							}
						}
					}
				}
			}
		} else {
			parents := strings.Split(tokens[0], ">")
			fi.name = parents[len(parents)-1]
			fi.parents = parents[:len(parents)-1]
		}
		ti.fields = append(ti.fields, fi)
	}
}

// xmlFieldAddr returns the address of a (possibly promoted) field.
func xmlFieldAddr(dst *value, path []int) *value {
	p := dst
	for _, i := range path {
		p = &(*p).(agg)[i]
	}
	return p
}

type xmlCtx struct {
	m       *machine
	dec     value // *Decoder (interpreter pointer)
	tokenFn *ssa.Function
	skipFn  *ssa.Function
	pos     token.Pos
}

func (m *machine) xmlDecodeElement(fn *ssa.Function, args []value, pos token.Pos) value {
	recvT := fn.Signature.Recv().Type()
	cx := &xmlCtx{m: m, dec: args[0], pos: pos,
		tokenFn: m.lookupMethodByName(recvT, "Token"), skipFn: m.lookupMethodByName(recvT, "Skip")}
	target := args[1].(iface)
	pt, ok := target.t.Underlying().(*types.Pointer)
	if !ok {
		return m.mkError("non-pointer passed to Unmarshal")
	}
	p, _ := target.v.(*value)
	if p == nil {
		return m.mkError("nil pointer passed to Unmarshal")
	}
	var start value
	if sp, _ := args[2].(*value); sp != nil {
		start = *sp
	}
	m.st.fnSeen["model:encoding/xml unmarshal (type walk by go/types; tokeniser is the real interpreted code)"] = true
	return cx.unmarshal(p, pt.Elem(), start, 0)
}

func (cx *xmlCtx) token() (iface, value) {
	r := cx.m.call(cx.tokenFn, []value{cx.dec}, nil, cx.pos).(tup)
	tok, _ := r[0].(iface)
	if e, ok := r[1].(iface); ok && e.t != nil {
		return tok, e
	}
	return tok, nil
}

func (cx *xmlCtx) skip() value {
	r := cx.m.call(cx.skipFn, []value{cx.dec}, nil, cx.pos)
	if e, ok := r.(iface); ok && e.t != nil {
		return e
	}
	return nil
}

func tokKind(t iface) string {
	if t.t == nil {
		return ""
	}
	s := t.t.String()
	return s[strings.LastIndex(s, ".")+1:]
}

func xmlNameOf(start value) (space, local value) {
	n := start.(agg)[0].(agg)
	return n[0], n[1]
}

func concreteStr(v value) (string, bool) {
	s, ok := v.(string)
	return s, ok
}

func (cx *xmlCtx) unmarshal(dst *value, t types.Type, start value, depth int) value {
	m := cx.m
	if depth > 10000 {
		return m.mkError("exceeded max depth")
	}
	if start == nil {
		for {
			tok, err := cx.token()
			if err != nil {
				return err
			}
			if tokKind(tok) == "StartElement" {
				start = tok.v
				break
			}
		}
	}
	// pointers: allocate
	if pt, ok := t.Underlying().(*types.Pointer); ok {
		p, _ := (*dst).(*value)
		if p == nil {
			p = new(value)
			*p = zero(pt.Elem())
			m.store(dst, p)
		}
		return cx.unmarshal(p, pt.Elem(), start, depth)
	}
	// Unmarshaler
	if _, named := t.(*types.Named); named {
		ms := m.prog.MethodSets.MethodSet(types.NewPointer(t))
		for i := 0; i < ms.Len(); i++ {
			switch ms.At(i).Obj().Name() {
			case "UnmarshalXML":
				f := m.prog.MethodValue(ms.At(i))
				r := m.call(f, []value{dst, cx.dec, copyVal(start)}, nil, cx.pos)
				if e, ok := r.(iface); ok && e.t != nil {
					return e
				}
				return iface{}
			case "UnmarshalText":
				panic(abortPath{"unsupported:xml: TextUnmarshaler " + t.String()})
			}
		}
	}
	var ti *xmlTypeInfo
	var saveData, saveComment, saveAny *value
	var saveDataT, saveAnyT types.Type
	switch u := t.Underlying().(type) {
	case *types.Interface:
		if e := cx.skip(); e != nil {
			return e
		}
		return iface{}
	case *types.Slice:
		if b, ok := u.Elem().Underlying().(*types.Basic); ok && b.Kind() == types.Uint8 {
			saveData, saveDataT = dst, t
			break
		}
		old, _ := (*dst).(slc)
		arr := make([]value, old.ln+1)
		for i := 0; i < old.ln; i++ {
			arr[i] = (*old.arr)[old.off+i]
		}
		arr[old.ln] = zero(u.Elem())
		ns := slc{arr: &arr, ln: old.ln + 1, cp: old.ln + 1}
		if e := cx.unmarshal(&arr[old.ln], u.Elem(), start, depth+1); isErr(e) {
			return e
		}
		m.store(dst, ns)
		return iface{}
	case *types.Basic:
		saveData, saveDataT = dst, t
	case *types.Struct:
		if t.String() == "encoding/xml.Name" {
			m.store(dst, copyVal(start.(agg)[0]))
			break
		}
		ti = m.xmlTypeInfo(t)
		space, local := xmlNameOf(start)
		if ti.xmlname != nil {
			fi := ti.xmlname
			if fi.name != "" {
				ls, ok := concreteStr(local)
				if !ok {
					panic(abortPath{"unsupported:xml: symbolic element name"})
				}
				if fi.name != ls {
					return m.mkError("expected element type <" + fi.name + "> but have <" + ls + ">")
				}
			}
			if fi.xmlns != "" {
				if ss, _ := concreteStr(space); ss != fi.xmlns {
					return m.mkError("expected element <" + fi.name + "> in name space " + fi.xmlns)
				}
			}
			if fi.typ.String() == "encoding/xml.Name" {
				m.store(xmlFieldAddr(dst, fi.path), copyVal(start.(agg)[0]))
			}
		}
		// attributes
		attrs, _ := start.(agg)[1].(slc)
		for ai := 0; ai < attrs.ln; ai++ {
			a := (*attrs.arr)[attrs.off+ai].(agg)
			an := a[0].(agg)
			aSpace, _ := concreteStr(an[0])
			aLocal, ok := concreteStr(an[1])
			if !ok {
				panic(abortPath{"unsupported:xml: symbolic attribute name"})
			}
			handled := false
			anyIdx := -1
			for i := range ti.fields {
				fi := &ti.fields[i]
				switch fi.mode {
				case xfAttr:
					if aLocal == fi.name && (fi.xmlns == "" || fi.xmlns == aSpace) {
						if e := cx.unmarshalAttr(xmlFieldAddr(dst, fi.path), fi.typ, a); isErr(e) {
							return e
						}
						handled = true
					}
				case xfAnyAttr:
					if anyIdx == -1 {
						anyIdx = i
					}
				}
			}
			if !handled && anyIdx >= 0 {
				fi := &ti.fields[anyIdx]
				if e := cx.unmarshalAttr(xmlFieldAddr(dst, fi.path), fi.typ, a); isErr(e) {
					return e
				}
			}
		}
		for i := range ti.fields {
			fi := &ti.fields[i]
			switch fi.mode {
			case xfCharData:
				if saveData == nil {
					saveData, saveDataT = xmlFieldAddr(dst, fi.path), fi.typ
				}
			case xfComment:
				if saveComment == nil {
					saveComment = xmlFieldAddr(dst, fi.path)
				}
			case xfAny:
				if saveAny == nil {
					saveAny, saveAnyT = xmlFieldAddr(dst, fi.path), fi.typ
				}
			case xfInnerXML:
				panic(abortPath{"unsupported:xml: innerxml field"})
			}
		}
	default:
		return m.mkError("unknown type " + t.String())
	}

	var data, comment []iv
	for {
		tok, err := cx.token()
		if err != nil {
			return err
		}
		switch tokKind(tok) {
		case "StartElement":
			consumed := false
			if ti != nil {
				c, e := cx.unmarshalPath(ti, dst, nil, tok.v, depth)
				if isErr(e) {
					return e
				}
				consumed = c
				if !consumed && saveAny != nil {
					consumed = true
					if e := cx.unmarshal(saveAny, saveAnyT, tok.v, depth+1); isErr(e) {
						return e
					}
				}
			}
			if !consumed {
				if e := cx.skip(); e != nil {
					return e
				}
			}
		case "EndElement":
			if saveData != nil {
				if e := cx.copyValue(saveData, saveDataT, data); isErr(e) {
					return e
				}
			}
			if saveComment != nil {
				m.store(saveComment, mkStr(comment))
			}
			return iface{}
		case "CharData":
			if saveData != nil {
				data = append(data, sliceBytes(tok.v.(slc))...)
			}
		case "Comment":
			if saveComment != nil {
				comment = append(comment, sliceBytes(tok.v.(slc))...)
			}
		}
	}
}

func isErr(e value) bool {
	i, ok := e.(iface)
	return ok && i.t != nil
}

func (cx *xmlCtx) unmarshalPath(ti *xmlTypeInfo, dst *value, parents []string, start value, depth int) (bool, value) {
	_, local := xmlNameOf(start)
	space, _ := xmlNameOf(start)
	ls, ok := concreteStr(local)
	if !ok {
		panic(abortPath{"unsupported:xml: symbolic element name"})
	}
	ss, _ := concreteStr(space)
	recurse := false
Loop:
	for i := range ti.fields {
		fi := &ti.fields[i]
		if fi.mode != xfElement || len(fi.parents) < len(parents) || fi.xmlns != "" && fi.xmlns != ss {
			continue
		}
		for j := range parents {
			if parents[j] != fi.parents[j] {
				continue Loop
			}
		}
		if len(fi.parents) == len(parents) && fi.name == ls {
			return true, cx.unmarshal(xmlFieldAddr(dst, fi.path), fi.typ, start, depth+1)
		}
		if len(fi.parents) > len(parents) && fi.parents[len(parents)] == ls {
			recurse = true
			parents = fi.parents[:len(parents)+1]
			break
		}
	}
	if !recurse {
		return false, nil
	}
	for {
		tok, err := cx.token()
		if err != nil {
			return true, err
		}
		switch tokKind(tok) {
		case "StartElement":
			c2, e := cx.unmarshalPath(ti, dst, parents, tok.v, depth)
			if isErr(e) {
				return true, e
			}
			if !c2 {
				if e := cx.skip(); e != nil {
					return true, e
				}
			}
		case "EndElement":
			return true, nil
		}
	}
}

func (cx *xmlCtx) unmarshalAttr(dst *value, t types.Type, attr agg) value {
	m := cx.m
	if pt, ok := t.Underlying().(*types.Pointer); ok {
		p, _ := (*dst).(*value)
		if p == nil {
			p = new(value)
			*p = zero(pt.Elem())
			m.store(dst, p)
		}
		return cx.unmarshalAttr(p, pt.Elem(), attr)
	}
	if _, named := t.(*types.Named); named {
		ms := m.prog.MethodSets.MethodSet(types.NewPointer(t))
		for i := 0; i < ms.Len(); i++ {
			if n := ms.At(i).Obj().Name(); n == "UnmarshalXMLAttr" || n == "UnmarshalText" {
				panic(abortPath{"unsupported:xml: attribute unmarshaler " + t.String()})
			}
		}
	}
	if sl, ok := t.Underlying().(*types.Slice); ok {
		if b, isB := sl.Elem().Underlying().(*types.Basic); !isB || b.Kind() != types.Uint8 {
			old, _ := (*dst).(slc)
			arr := make([]value, old.ln+1)
			for i := 0; i < old.ln; i++ {
				arr[i] = (*old.arr)[old.off+i]
			}
			arr[old.ln] = zero(sl.Elem())
			if e := cx.unmarshalAttr(&arr[old.ln], sl.Elem(), attr); isErr(e) {
				return e
			}
			m.store(dst, slc{arr: &arr, ln: old.ln + 1, cp: old.ln + 1})
			return iface{}
		}
	}
	if t.String() == "encoding/xml.Attr" {
		m.store(dst, copyVal(attr))
		return iface{}
	}
	return cx.copyValue(dst, t, strBytes(attr[1]))
}

// copyValue: encoding/xml's conversion of character data into a scalar, through the real strconv /
// strings code (interpreted), so symbolic text is handled by those functions' own branches.
func (cx *xmlCtx) copyValue(dst *value, t types.Type, src []iv) value {
	m := cx.m
	if pt, ok := t.Underlying().(*types.Pointer); ok {
		p, _ := (*dst).(*value)
		if p == nil {
			p = new(value)
			*p = zero(pt.Elem())
			m.store(dst, p)
		}
		dst, t = p, pt.Elem()
	}
	trimmed := func() value {
		return m.call(m.eng.lookupFunc("strings", "TrimSpace"), []value{mkStr(src)}, nil, cx.pos)
	}
	switch u := t.Underlying().(type) {
	case *types.Basic:
		info := u.Info()
		switch {
		case info&types.IsString != 0:
			m.store(dst, mkStr(src))
			return iface{}
		case info&types.IsBoolean != 0:
			if len(src) == 0 {
				m.store(dst, bv{})
				return iface{}
			}
			r := m.call(m.eng.lookupFunc("strconv", "ParseBool"), []value{trimmed()}, nil, cx.pos).(tup)
			if isErr(r[1]) {
				return r[1]
			}
			m.store(dst, r[0])
			return iface{}
		case info&types.IsInteger != 0:
			w, sg, _ := intInfo(t)
			if len(src) == 0 {
				m.store(dst, mk(w, sg, 0))
				return iface{}
			}
			fn := "ParseUint"
			if sg {
				fn = "ParseInt"
			}
			r := m.call(m.eng.lookupFunc("strconv", fn), []value{trimmed(), mkInt(10), mkInt(int64(w))}, nil, cx.pos).(tup)
			if isErr(r[1]) {
				return r[1]
			}
			m.store(dst, m.convInt(r[0].(iv), w, sg))
			return iface{}
		case info&types.IsFloat != 0:
			if len(src) == 0 {
				m.store(dst, fv{})
				return iface{}
			}
			r := m.call(m.eng.lookupFunc("strconv", "ParseFloat"), []value{trimmed(), mkInt(64)}, nil, cx.pos).(tup)
			if isErr(r[1]) {
				return r[1]
			}
			m.store(dst, r[0])
			return iface{}
		}
	case *types.Slice:
		if b, ok := u.Elem().Underlying().(*types.Basic); ok && b.Kind() == types.Uint8 {
			m.store(dst, bytesToSlice(src))
			return iface{}
		}
	}
	return m.mkError("cannot unmarshal into " + t.String())
}
