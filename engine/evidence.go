package main

import (
	"encoding/json"
	"fmt"
	"os"
	"os/exec"
	"path/filepath"
	"sort"
	"strings"
	"time"
)

func toolVersion(bin string, args ...string) string {
	out, err := exec.Command(bin, args...).Output()
	if err != nil {
		return "unavailable"
	}
	return firstLines(string(out), 1)
}

func writeEvidence(e *engine, results []*harnessResult, known []knownFinding, wall time.Duration, validated int, notes []string, counts ...int) {
	nViol, nKnown := 0, 0
	if len(counts) > 0 {
		nViol = counts[0]
	}
	if len(counts) > 1 {
		nKnown = counts[1]
	}
	states, transitions, obligations, discharged, inconclusive := 0, 0, 0, 0, 0
	fnSet := map[string]bool{}
	var samples []interface{}
	var harnessInfo []interface{}
	var solverTotal, solverMax float64
	unsupported := map[string]int{}
	exhaustive := len(results) > 0
	redirs := map[string]bool{}
	for _, r := range results {
		states += r.st.completed
		// decisions taken along explored paths: one per path (its enumerated/branch prefix), solver-decided
		// branch queries, domain-decided branches and verification conditions
		transitions += r.st.paths + r.queries + r.st.domDecided + r.st.vcs
		obligations += r.st.vcs
		discharged += r.st.vcUnsat
		inconclusive += r.st.inconclusive
		solverTotal += r.solverT.Seconds()
		if r.maxQ.Seconds() > solverMax {
			solverMax = r.maxQ.Seconds()
		}
		for f := range r.st.fnSeen {
			fnSet[f] = true
		}
		for k, v := range r.st.unsupported {
			unsupported[k] += v
		}
		incomplete := r.capped || r.deadline || r.st.inconclusive > 0
		for k := range r.st.aborted {
			if strings.HasPrefix(k, "bound:") || strings.HasPrefix(k, "unsupported") || strings.HasPrefix(k, "inconclusive") || strings.HasPrefix(k, "internal:") {
				incomplete = true
			}
		}
		if incomplete {
			exhaustive = false
		}
		for k, v := range r.h.redirects {
			redirs[k+" -> "+v.Name()] = true
		}
		hi := map[string]interface{}{
			"harness": r.h.name, "kernel": r.h.kernel, "bounds": r.h.desc, "package": "github.com/tsawler/tabula/" + r.h.pkgDir,
			"paths_started": r.st.paths, "paths_completed": r.st.completed, "aborted": r.st.aborted,
			"vcs": r.st.vcs, "vcs_unsat": r.st.vcUnsat, "folds": r.st.folds, "leaf_summaries": r.st.summaries,
			"solver_queries": r.queries, "solver_s": round3(r.solverT.Seconds()), "max_query_s": round3(r.maxQ.Seconds()),
			"unknown_answers": r.unknowns, "solver_restarts": r.restarts, "wall_s": round3(r.wall.Seconds()),
			"complete_within_bound": !incomplete, "float_mode": map[bool]string{true: "real (non-incremental)", false: "bit-vector (incremental)"}[r.h.real],
		}
		var vio []string
		for k, n := range r.st.violCount {
			vio = append(vio, fmt.Sprintf("%s x%d", k, n))
		}
		sort.Strings(vio)
		if len(vio) > 0 {
			hi["violating_path_classes"] = vio
		}
		harnessInfo = append(harnessInfo, hi)
		for i, s := range r.st.endModels {
			if i >= 2 {
				break
			}
			samples = append(samples, map[string]interface{}{"harness": r.h.name, "kind": "completed path, one model of its path condition",
				"inputs": renderInputs(s.Inputs), "reached": s.Reached, "observed": s.Observed})
		}
	}
	if len(samples) == 0 {
		for _, r := range results {
			samples = append(samples, map[string]interface{}{"harness": r.h.name, "note": "no completed path sample"})
		}
	}
	if len(samples) == 0 {
		samples = append(samples, "no harness ran")
	}
	var fns []string
	for f := range fnSet {
		fns = append(fns, f)
	}
	sort.Strings(fns)
	var repoFns, libFns, other, models []string
	for _, f := range fns {
		switch {
		case strings.HasPrefix(f, "model:"):
			models = append(models, strings.TrimPrefix(f, "model:"))
		case strings.HasPrefix(f, "note:") || strings.HasPrefix(f, "redirect:"):
			other = append(other, f)
		case strings.Contains(f, "github.com/tsawler/tabula"):
			repoFns = append(repoFns, f)
		default:
			libFns = append(libFns, f)
		}
	}
	var rd []string
	for k := range redirs {
		rd = append(rd, k)
	}
	sort.Strings(rd)
	var knownList []string
	for _, k := range known {
		if k.Property == e.prop {
			knownList = append(knownList, k.Status+": "+k.Harness+" "+k.Label+" "+k.Site+" — "+k.What)
		}
	}
	cov := map[string]interface{}{
		"states":                        states,
		"transitions":                   transitions,
		"transitions_meaning":           "decisions along explored paths: paths started + solver branch queries + domain-decided branches + verification conditions",
		"traces_validated_against_impl": validated,
		"samples":                       samples,
		"evaluations":                   states,
		"distinct_nontrivial":           states,
		"rule":                          "each evaluation is one feasible symbolic path of a harness explored to its end (a class of concrete inputs sharing one control-flow path through the real SSA); paths are distinct by construction (distinct decision vectors) and non-trivial when they reach the end of the harness with every assertion discharged by the solver",
		"obligations":                   obligations,
		"discharged":                    discharged,
		"inconclusive":                  inconclusive,
		"exhaustive":                    exhaustive,
		"explanation":                   "bounded symbolic execution of the repository's own go/ssa (rebuilt from /repo on this run) with SMT-LIB2 queries to z3; every assertion/implicit panic condition is a solver query over all inputs in the stated bound",
		"harnesses":                     harnessInfo,
		"functions_encoded":             repoFns,
		"stdlib_functions_interpreted":  libFns,
		"redirections":                  rd,
		"unsupported":                   unsupported,
		"stale":                         e.stale,
		"notes":                         append(notes, other...),
		"known_findings":                knownList,
		"known_findings_seen":           nKnown,
		"solver": map[string]interface{}{"z3": toolVersion("z3", "--version"), "portfolio": []string{"cvc5 " + toolVersion("cvc5", "--version"), "z3-new " + toolVersion("z3-new", "--version")},
			"total_s": round3(solverTotal), "max_query_s": round3(solverMax)},
		"load_and_ssa_build_s": round3(e.loadTime.Seconds()),
		"environment_models_used": append([]string{}, models...),
		"trusted_base": []string{"go/ssa construction (x/tools v0.29.0)", "symgo interpreter and term simplifier", "z3 4.8.12",
			"intrinsic models: internal/bytealg index/compare/count, strings.Builder.String, strings.ToLower/ToUpper (ASCII), unicode.Is* on ASCII symbolic runes, unicode.IsSpace, fmt.Sprintf/Errorf, errors.Is/Unwrap, sort.Slice (insertion sort), math.Sqrt/Abs/Min/Max/Floor/Ceil over reals, strconv.ParseFloat decimal grammar, UTF-8 range/convert",
			"host-native calls on concrete arguments: regexp, strconv.ParseFloat/FormatFloat, strings.*, unicode.*, math.*, html.(Un)EscapeString, sort.Strings/Ints/Float64s",
			"environment models where listed under coverage.environment_models_used: encoding/xml unmarshal type walk (tokeniser is the real code), zip member content, os.File content and handle accounting"},
	}
	ev := map[string]interface{}{
		"property_id": e.prop,
		"tier":        e.tierName,
		"seed":        int(e.seed),
		"level":       "model_checking",
		"coverage":    cov,
		"assumptions": []string{
			"inputs are bounded as stated per harness under coverage.harnesses[].bounds; nothing is claimed outside those bounds",
			"float64 arithmetic is modelled over the reals in 'real' harnesses (no rounding, NaN/Inf excluded)",
			"standard-library models and host-native calls listed under coverage.trusted_base behave like the compiled library",
			"append growth follows Go's doubling policy without size-class rounding",
		},
		"wall_s":     round3(wall.Seconds()),
		"violations": nViol,
	}
	data, _ := json.MarshalIndent(ev, "", " ")
	os.WriteFile(filepath.Join(verifDir, "evidence", e.prop+".json"), data, 0o644)
}

func round3(f float64) float64 { return float64(int64(f*1000+0.5)) / 1000 }
func max1(n int) int {
	if n < 1 {
		return 1
	}
	return n
}
func maxN(n, k int) int {
	if n < k {
		return k
	}
	return n
}
