package main

// Per-byte value domains: constant propagation for constraints over a single symbolic
// byte. A branch whose condition mentions one byte variable that is not tied to other
// variables by a non-unary constraint is decided exactly by enumerating the byte's
// remaining values; no solver call is needed. Everything else goes to the solver.

type dom8 [4]uint64

func (d *dom8) has(v uint64) bool { return d[v>>6]&(1<<(v&63)) != 0 }
func (d *dom8) clear(v uint64)    { d[v>>6] &^= 1 << (v & 63) }
func (d *dom8) count() int {
	n := 0
	for _, w := range d {
		for ; w != 0; w &= w - 1 {
			n++
		}
	}
	return n
}
func (d *dom8) first() (uint64, bool) {
	for v := uint64(0); v < 256; v++ {
		if d.has(v) {
			return v, true
		}
	}
	return 0, false
}

func (m *machine) domOf(v *T) *dom8 {
	if d, ok := m.dom[v.name]; ok {
		return d
	}
	d := &dom8{}
	n := uint64(1) << uint(v.w)
	for x := uint64(0); x < n; x++ {
		d[x>>6] |= 1 << (x & 63)
	}
	m.dom[v.name] = d
	return d
}

type unaryStatus struct {
	v                  *T
	canTrue, canFalse  bool
	witTrue, witFalse  uint64
}

// unary analyses a condition over exactly one variable of width <= 8.
func (m *machine) unary(c *T) (unaryStatus, bool) {
	if c.vmany || len(c.vset) != 1 || c.vset[0].w < 1 || c.vset[0].w > 8 {
		return unaryStatus{}, false
	}
	v := c.vset[0]
	d := m.domOf(v)
	st := unaryStatus{v: v}
	sm := m.scratch
	if sm == nil {
		sm = newModel()
		m.scratch = sm
	}
	n := uint64(1) << uint(v.w)
	for x := uint64(0); x < n; x++ {
		if !d.has(x) {
			continue
		}
		sm.bv[v.name] = x
		m.tt.beginEval()
		r := m.tt.eval(c, sm)
		if !r.ok {
			delete(sm.bv, v.name)
			return unaryStatus{}, false
		}
		if r.b {
			if !st.canTrue {
				st.canTrue, st.witTrue = true, x
			}
		} else if !st.canFalse {
			st.canFalse, st.witFalse = true, x
		}
		if st.canTrue && st.canFalse {
			// keep scanning only if the current model value should be preferred: not needed
			break
		}
	}
	delete(sm.bv, v.name)
	return st, true
}

// pinnedEval: if every variable of c is a byte with a singleton domain, evaluate c.
func (m *machine) pinnedEval(c *T) (bool, bool) {
	if c.vmany || len(c.vset) == 0 {
		return false, false
	}
	sm := m.scratch
	if sm == nil {
		sm = newModel()
		m.scratch = sm
	}
	for _, v := range c.vset {
		if v.w < 1 || v.w > 8 {
			return false, false
		}
		d, ok := m.dom[v.name]
		if !ok || d.count() != 1 {
			return false, false
		}
	}
	for _, v := range c.vset {
		x, _ := m.dom[v.name].first()
		sm.bv[v.name] = x
	}
	m.tt.beginEval()
	r := m.tt.eval(c, sm)
	for _, v := range c.vset {
		delete(sm.bv, v.name)
	}
	return r.b, r.ok
}

// noteAssume updates domains / entanglement for a constraint that joins the path condition.
func (m *machine) noteAssume(t *T) {
	if t.vmany {
		m.allEntangled = true
		return
	}
	if len(t.vset) == 1 {
		v := t.vset[0]
		if v.w < 1 || v.w > 8 {
			return
		}
		d := m.domOf(v)
		sm := m.scratch
		if sm == nil {
			sm = newModel()
			m.scratch = sm
		}
		n := uint64(1) << uint(v.w)
		for x := uint64(0); x < n; x++ {
			if !d.has(x) {
				continue
			}
			sm.bv[v.name] = x
			m.tt.beginEval()
			r := m.tt.eval(t, sm)
			if r.ok && !r.b {
				d.clear(x)
			}
		}
		delete(sm.bv, v.name)
		if d.count() == 0 {
			panic(abortPath{"infeasible"})
		}
		return
	}
	for _, v := range t.vset {
		if v.w >= 1 && v.w <= 8 {
			m.entangled[v.name] = true
		}
	}
}

func (m *machine) isFree(v *T) bool { return !m.allEntangled && !m.entangled[v.name] }

// setModelVar points the current model at value x for a free variable.
func (m *machine) setModelVar(v *T, x uint64) {
	if m.model != nil {
		m.model.bv[v.name] = x
	}
}

func copyModel(src *model) *model {
	if src == nil {
		return nil
	}
	d := newModel()
	for k, v := range src.bv {
		d.bv[k] = v
	}
	for k, v := range src.bl {
		d.bl[k] = v
	}
	for k, v := range src.real {
		d.real[k] = v
	}
	return d
}
