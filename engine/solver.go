package main

// One solver process per worker (z3 -in), incremental by default; "reset" mode for
// nonlinear-real harnesses re-sends declarations and the path condition on every query.
// A watchdog kills a process whose query overruns its wall-clock budget.

import (
	"bufio"
	"fmt"
	"io"
	"math/big"
	"os"
	"os/exec"
	"strings"
	"time"
)

type solver struct {
	bin       string
	args      []string
	cmd       *exec.Cmd
	in        io.WriteCloser
	out       *bufio.Reader
	decls     []string // declarations / definitions, replayed after reset or restart
	declared  map[string]bool
	pcStack   [][]string // mirror of the assertion stack (one frame per push)
	resetMode bool
	timeoutMs int
	queries   int
	dur       time.Duration
	maxq      time.Duration
	unknowns  int
	errors    int
	restarts  int
	dead      bool
	dumpDir   string
}

func newSolver(kind string, resetMode bool, timeoutMs int) *solver {
	s := &solver{bin: "z3", args: []string{"-in"}, declared: map[string]bool{}, resetMode: resetMode, timeoutMs: timeoutMs}
	switch kind {
	case "cvc5":
		s.bin = "cvc5"
		s.args = []string{"--incremental", "--lang=smt2", fmt.Sprintf("--tlimit-per=%d", timeoutMs)}
	case "cvc5int":
		s.bin = "cvc5"
		s.args = []string{"--incremental", "--lang=smt2", "--solve-bv-as-int=sum", fmt.Sprintf("--tlimit-per=%d", timeoutMs)}
	case "z3-new":
		s.bin = "z3-new"
	}
	if b := os.Getenv("SYMGO_Z3"); b != "" && s.bin == "z3" {
		s.bin = b
	}
	s.pcStack = [][]string{nil}
	s.start()
	return s
}

func (s *solver) start() {
	cmd := exec.Command(s.bin, s.args...)
	in, _ := cmd.StdinPipe()
	outp, _ := cmd.StdoutPipe()
	cmd.Stderr = nil
	if err := cmd.Start(); err != nil {
		panic("cannot start solver: " + err.Error())
	}
	s.cmd, s.in, s.out = cmd, in, bufio.NewReaderSize(outp, 1<<16)
	s.dead = false
	s.preamble()
	if !s.resetMode {
		for _, d := range s.decls {
			s.raw(d)
		}
		for i, fr := range s.pcStack {
			if i > 0 {
				s.raw("(push)")
			}
			for _, a := range fr {
				s.raw("(assert " + a + ")")
			}
		}
	}
}

func (s *solver) preamble() {
	if s.bin == "cvc5" {
		s.raw("(set-option :produce-models true)")
		s.raw("(set-option :global-declarations true)")
		s.raw("(set-logic ALL)")
		return
	}
	s.raw("(set-option :produce-models true)")
	s.raw("(set-option :global-declarations true)")
	s.raw(fmt.Sprintf("(set-option :timeout %d)", s.timeoutMs))
}

func (s *solver) raw(l string) {
	if s.dead {
		return
	}
	if _, err := io.WriteString(s.in, l+"\n"); err != nil {
		s.dead = true
	}
}

func (s *solver) close() {
	if s.cmd != nil {
		s.in.Close()
		done := make(chan struct{})
		go func() { s.cmd.Wait(); close(done) }()
		select {
		case <-done:
		case <-time.After(2 * time.Second):
			s.cmd.Process.Kill()
			<-done
		}
		s.cmd = nil
	}
}

func (s *solver) kill() {
	if s.cmd != nil {
		s.cmd.Process.Kill()
		s.cmd.Wait()
		s.cmd = nil
	}
	s.dead = true
}

func (s *solver) restart() {
	s.kill()
	s.restarts++
	s.start()
}

// decl registers a declaration/definition line.
func (s *solver) decl(l string) {
	s.decls = append(s.decls, l)
	if !s.resetMode {
		s.raw(l)
	}
}

func (s *solver) declareVar(name string, w int) {
	if s.declared[name] {
		return
	}
	s.declared[name] = true
	s.decl(fmt.Sprintf("(declare-const %s %s)", name, sortSMT(w)))
}

func (s *solver) push() {
	s.pcStack = append(s.pcStack, nil)
	if !s.resetMode {
		s.raw("(push)")
	}
}

func (s *solver) pop() {
	s.pcStack = s.pcStack[:len(s.pcStack)-1]
	if !s.resetMode {
		s.raw("(pop)")
	}
}

func (s *solver) assert(t string) {
	top := len(s.pcStack) - 1
	s.pcStack[top] = append(s.pcStack[top], t)
	if !s.resetMode {
		s.raw("(assert " + t + ")")
	}
}

// readLine with watchdog; ok=false when the solver had to be killed or died.
func (s *solver) readLine(budget time.Duration) (string, bool) {
	type res struct {
		l   string
		err error
	}
	ch := make(chan res, 1)
	go func() {
		l, err := s.out.ReadString('\n')
		ch <- res{l, err}
	}()
	select {
	case r := <-ch:
		if r.err != nil {
			s.dead = true
			return "", false
		}
		return strings.TrimSpace(r.l), true
	case <-time.After(budget):
		s.kill()
		<-ch
		return "", false
	}
}

// readSexp reads a balanced s-expression possibly spanning lines.
func (s *solver) readSexp(budget time.Duration) (string, bool) {
	var sb strings.Builder
	depth := 0
	started := false
	for {
		l, ok := s.readLine(budget)
		if !ok {
			return "", false
		}
		sb.WriteString(l)
		sb.WriteByte(' ')
		for _, c := range l {
			if c == '(' {
				depth++
				started = true
			} else if c == ')' {
				depth--
			}
		}
		if (started && depth <= 0) || (!started && l != "") {
			return sb.String(), true
		}
	}
}

type satResult int

const (
	resUnsat satResult = iota
	resSat
	resUnknown
)

func (r satResult) String() string { return [...]string{"unsat", "sat", "unknown"}[r] }

// fullText renders the current problem (declarations, path condition, extra) as a standalone script.
func (s *solver) fullText(extra []string) string {
	var sb strings.Builder
	for _, d := range s.decls {
		sb.WriteString(d)
		sb.WriteByte('\n')
	}
	for _, fr := range s.pcStack {
		for _, a := range fr {
			sb.WriteString("(assert " + a + ")\n")
		}
	}
	for _, a := range extra {
		sb.WriteString("(assert " + a + ")\n")
	}
	sb.WriteString("(check-sat)\n")
	return sb.String()
}

// check: is (path condition ∧ extra) satisfiable. If wantModel is non-empty and the
// answer is sat, values of those variables are returned.
// checkT is check with a temporary per-query timeout (z3 only).
func (s *solver) checkT(extra []string, want []wantVar, ms int) (satResult, *model) {
	if s.bin == "cvc5" || ms == s.timeoutMs {
		return s.check(extra, want)
	}
	saved := s.timeoutMs
	s.timeoutMs = ms
	s.raw(fmt.Sprintf("(set-option :timeout %d)", ms))
	r, m := s.check(extra, want)
	s.timeoutMs = saved
	s.raw(fmt.Sprintf("(set-option :timeout %d)", saved))
	return r, m
}

func (s *solver) check(extra []string, want []wantVar) (satResult, *model) {
	t0 := time.Now()
	s.queries++
	defer func() {
		d := time.Since(t0)
		s.dur += d
		if d > s.maxq {
			s.maxq = d
		}
	}()
	if s.dead {
		s.restarts++
		s.start()
	}
	budget := time.Duration(s.timeoutMs)*time.Millisecond*2 + 5*time.Second
	if s.resetMode {
		s.raw("(reset)")
		s.preamble()
		for _, d := range s.decls {
			s.raw(d)
		}
		for _, fr := range s.pcStack {
			for _, a := range fr {
				s.raw("(assert " + a + ")")
			}
		}
	} else {
		s.raw("(push)")
	}
	for _, t := range extra {
		s.raw("(assert " + t + ")")
	}
	s.raw("(check-sat)")
	r, ok := s.readLine(budget)
	for ok && (r == "" || strings.HasPrefix(r, "(warning") || strings.HasPrefix(r, "WARNING")) {
		r, ok = s.readLine(budget)
	}
	if !ok {
		s.unknowns++
		s.restarts++
		s.start()
		return resUnknown, nil
	}
	if strings.HasPrefix(r, "(error") {
		s.errors++
		if os.Getenv("SYMGO_DEBUG") != "" {
			fmt.Fprintln(os.Stderr, "solver error:", r)
			os.WriteFile("/verif/out/solver_error.smt2", []byte(s.fullText(extra)), 0o644)
		}
		// resynchronise by restarting
		s.restarts++
		s.kill()
		s.start()
		return resUnknown, nil
	}
	var res satResult
	switch r {
	case "sat":
		res = resSat
	case "unsat":
		res = resUnsat
	default:
		res = resUnknown
		s.unknowns++
		if os.Getenv("SYMGO_DEBUG") != "" {
			fmt.Fprintf(os.Stderr, "solver answered %q\n", r)
			os.WriteFile(fmt.Sprintf("/verif/out/unknown_%d.smt2", s.unknowns), []byte(s.fullText(extra)), 0o644)
		}
	}
	var m *model
	if res == resSat && len(want) > 0 {
		m = s.getModel(want, budget)
		if m == nil {
			if os.Getenv("SYMGO_DEBUG") != "" {
				fmt.Fprintln(os.Stderr, "getModel failed")
			}
			// solver died while producing the model
			s.restarts++
			s.kill()
			s.start()
			return resUnknown, nil
		}
	}
	if !s.resetMode {
		s.raw("(pop)")
	}
	return res, m
}

type wantVar struct {
	name string
	w    int
}

func (s *solver) getModel(want []wantVar, budget time.Duration) *model {
	m := newModel()
	// chunk to keep lines reasonable
	for i := 0; i < len(want); i += 200 {
		j := i + 200
		if j > len(want) {
			j = len(want)
		}
		var sb strings.Builder
		sb.WriteString("(get-value (")
		for _, w := range want[i:j] {
			sb.WriteString(w.name)
			sb.WriteByte(' ')
		}
		sb.WriteString("))")
		s.raw(sb.String())
		txt, ok := s.readSexp(budget)
		if !ok {
			return nil
		}
		if strings.HasPrefix(strings.TrimSpace(txt), "(error") {
			return nil
		}
		sx, _ := parseSexp(txt)
		if sx == nil {
			return nil
		}
		for k, pair := range sx.list {
			if k >= j-i || len(pair.list) != 2 {
				continue
			}
			wv := want[i+k]
			val := pair.list[1]
			switch {
			case wv.w > 0:
				if u, ok := sexpBV(val); ok {
					m.bv[wv.name] = u
				}
			case wv.w == 0:
				m.bl[wv.name] = val.atom == "true"
			default:
				if r, ok := sexpRat(val); ok {
					m.real[wv.name] = r
				}
			}
		}
	}
	return m
}

// ---- tiny s-expression reader

type sexp struct {
	atom string
	list []*sexp
	isL  bool
}

func parseSexp(s string) (*sexp, string) {
	s = strings.TrimLeft(s, " \t\r\n")
	if s == "" {
		return nil, ""
	}
	if s[0] == '(' {
		s = s[1:]
		out := &sexp{isL: true}
		for {
			s = strings.TrimLeft(s, " \t\r\n")
			if s == "" {
				return out, ""
			}
			if s[0] == ')' {
				return out, s[1:]
			}
			var e *sexp
			e, s = parseSexp(s)
			if e == nil {
				return out, s
			}
			out.list = append(out.list, e)
		}
	}
	i := 0
	for i < len(s) && !strings.ContainsRune(" \t\r\n()", rune(s[i])) {
		i++
	}
	return &sexp{atom: s[:i]}, s[i:]
}

func sexpBV(e *sexp) (uint64, bool) {
	if e.isL {
		// (_ bvN w)
		if len(e.list) == 3 && e.list[0].atom == "_" && strings.HasPrefix(e.list[1].atom, "bv") {
			var v uint64
			_, err := fmt.Sscanf(e.list[1].atom[2:], "%d", &v)
			return v, err == nil
		}
		return 0, false
	}
	a := e.atom
	var v uint64
	switch {
	case strings.HasPrefix(a, "#x"):
		_, err := fmt.Sscanf(a[2:], "%x", &v)
		return v, err == nil
	case strings.HasPrefix(a, "#b"):
		for _, c := range a[2:] {
			v = v<<1 | uint64(c-'0')
		}
		return v, true
	}
	return 0, false
}

func sexpRat(e *sexp) (*big.Rat, bool) {
	if !e.isL {
		r, ok := new(big.Rat).SetString(e.atom)
		return r, ok
	}
	if len(e.list) == 2 && e.list[0].atom == "-" {
		r, ok := sexpRat(e.list[1])
		if !ok {
			return nil, false
		}
		return new(big.Rat).Neg(r), true
	}
	if len(e.list) == 3 && e.list[0].atom == "/" {
		a, ok1 := sexpRat(e.list[1])
		b, ok2 := sexpRat(e.list[2])
		if !ok1 || !ok2 || b.Sign() == 0 {
			return nil, false
		}
		return new(big.Rat).Quo(a, b), true
	}
	return nil, false
}

// oneShot runs a standalone script on a fresh solver process (portfolio / second opinion).
func oneShot(bin string, args []string, script string, timeout time.Duration) (satResult, string) {
	return oneShotCancel(bin, args, script, timeout, nil)
}

func oneShotCancel(bin string, args []string, script string, timeout time.Duration, stop chan struct{}) (satResult, string) {
	cmd := exec.Command(bin, args...)
	cmd.Stdin = strings.NewReader(script)
	var out strings.Builder
	cmd.Stdout = &out
	if err := cmd.Start(); err != nil {
		return resUnknown, ""
	}
	done := make(chan struct{})
	go func() { cmd.Wait(); close(done) }()
	select {
	case <-done:
	case <-stop:
		cmd.Process.Kill()
		<-done
		return resUnknown, ""
	case <-time.After(timeout):
		cmd.Process.Kill()
		<-done
		return resUnknown, ""
	}
	o := out.String()
	first := ""
	for _, l := range strings.Split(o, "\n") {
		l = strings.TrimSpace(l)
		if l == "sat" || l == "unsat" || l == "unknown" || l == "timeout" {
			first = l
			break
		}
		if strings.HasPrefix(l, "(error") {
			return resUnknown, o
		}
	}
	switch first {
	case "sat":
		return resSat, o
	case "unsat":
		return resUnsat, o
	}
	return resUnknown, o
}
