package main

// Source of the harness runtime that is templated into every package under test:
// rtEngine (bodies never run: the engine intercepts the calls by name) and rtNative
// (bodies read the solver's model from a JSON vector so the same harness runs as a
// Go test against the real build).

const rtEngine = `//go:build verif_harness

package PKG

func vAnyByte() byte             { panic("symgo") }
func vAnyInt() int               { panic("symgo") }
func vAnyInt32() int32           { panic("symgo") }
func vAnyUint32() uint32         { panic("symgo") }
func vAnyUint16() uint16         { panic("symgo") }
func vAnyRune() rune             { panic("symgo") }
func vAnyBool() bool             { panic("symgo") }
func vAnyFloat() float64         { panic("symgo") }
func vAnyByteOf(set string) byte { panic("symgo") }
func vAnyIntIn(lo, hi int) int   { panic("symgo") }
func vAnyIntRange(lo, hi int) int { panic("symgo") }
func vAnyBytes(n int) []byte     { panic("symgo") }
func vAnyString(n int) string    { panic("symgo") }
func vAnyStringOf(n int, set string) string { panic("symgo") }
func vAssume(c bool)             { panic("symgo") }
func vAssert(label string, c bool) { panic("symgo") }
func vReach(label string)        { panic("symgo") }
func vTier() int                 { panic("symgo") }
func vConcretize(x int) int      { panic("symgo") }
func vObserveInt(label string, x int) { panic("symgo") }
func vObserveStr(label string, s string) { panic("symgo") }
func vIsSymbolic() bool          { panic("symgo") }
func vOpenFiles() int            { panic("symgo") }
func vZipContent(name, content string) { panic("symgo") }
func vFileContent(name, content string) { panic("symgo") }
func vZipHandle(rc any)          { panic("symgo") }
`

const rtNative = `//go:build verif_harness

package PKG

import (
	"encoding/json"
	"fmt"
	"math/big"
	"os"
)

type vInput struct {
	Name string ` + "`json:\"name\"`" + `
	Kind string ` + "`json:\"kind\"`" + `
	W    int    ` + "`json:\"w\"`" + `
	Sg   bool   ` + "`json:\"signed\"`" + `
	U    uint64 ` + "`json:\"u\"`" + `
	F    string ` + "`json:\"f\"`" + `
	B    bool   ` + "`json:\"b\"`" + `
}

type vCase struct {
	Harness string   ` + "`json:\"harness\"`" + `
	Tier    int      ` + "`json:\"tier\"`" + `
	Inputs  []vInput ` + "`json:\"inputs\"`" + `
}

var vCur vCase
var vPos int

type vAssumeFailed struct{}

func vNext(kind string) vInput {
	for vPos < len(vCur.Inputs) && vCur.Inputs[vPos].Kind == "aux" {
		vPos++
	}
	if vPos >= len(vCur.Inputs) {
		fmt.Println("SYMGO-DESYNC exhausted want", kind)
		return vInput{Kind: kind}
	}
	in := vCur.Inputs[vPos]
	vPos++
	if in.Kind != kind {
		fmt.Println("SYMGO-DESYNC want", kind, "got", in.Kind)
	}
	return in
}

func vAnyByte() byte     { return byte(vNext("byte").U) }
func vAnyInt() int       { return int(int64(vNext("int").U)) }
func vAnyInt32() int32   { return int32(uint32(vNext("int32").U)) }
func vAnyUint32() uint32 { return uint32(vNext("uint32").U) }
func vAnyUint16() uint16 { return uint16(vNext("uint16").U) }
func vAnyRune() rune     { return rune(int32(uint32(vNext("rune").U))) }
func vAnyBool() bool     { return vNext("bool").B }
func vAnyFloat() float64 {
	in := vNext("float")
	r, ok := new(big.Rat).SetString(in.F)
	if !ok {
		return 0
	}
	f, _ := r.Float64()
	return f
}
func vAnyByteOf(set string) byte { return byte(vNext("byte").U) }
func vAnyIntIn(lo, hi int) int   { return int(int64(vNext("enum").U)) }
func vAnyIntRange(lo, hi int) int { return int(int64(vNext("int").U)) }
func vAnyBytes(n int) []byte {
	out := make([]byte, n)
	for i := range out {
		out[i] = vAnyByte()
	}
	return out
}
func vAnyString(n int) string { return string(vAnyBytes(n)) }
func vAnyStringOf(n int, set string) string { return string(vAnyBytes(n)) }
func vAssume(c bool) {
	if !c {
		fmt.Println("SYMGO-ASSUME-FALSE")
		panic(vAssumeFailed{})
	}
}
func vAssert(label string, c bool) {
	if !c {
		fmt.Println("SYMGO-ASSERT-FAIL", label)
		panic(vAssumeFailed{})
	}
}
func vReach(label string)   { fmt.Println("SYMGO-REACH", label) }
func vTier() int            { return vCur.Tier }
func vConcretize(x int) int { return x }
func vObserveInt(label string, x int) { fmt.Printf("SYMGO-OBS %s=%d\n", label, x) }
func vObserveStr(label string, s string) { fmt.Printf("SYMGO-OBS %s=%q\n", label, s) }
func vIsSymbolic() bool     { return false }
func vOpenFiles() int       { return 0 }
func vZipContent(name, content string) {}
func vZipHandle(rc any)                  {}
// native: the file model becomes a real file, so os.Open(name) reads the same bytes
func vFileContent(name, content string) {
	if err := os.WriteFile(name, []byte(content), 0o600); err != nil {
		panic(err)
	}
	vTempFiles = append(vTempFiles, name)
}

var vTempFiles []string

func vReplayRun(table map[string]func()) {
	path := os.Getenv("SYMGO_CASE")
	data, err := os.ReadFile(path)
	if err != nil {
		fmt.Println("SYMGO-ERROR cannot read case:", err)
		return
	}
	if err := json.Unmarshal(data, &vCur); err != nil {
		fmt.Println("SYMGO-ERROR bad case:", err)
		return
	}
	f, ok := table[vCur.Harness]
	if !ok {
		fmt.Println("SYMGO-ERROR unknown harness", vCur.Harness)
		return
	}
	defer func() {
		for _, n := range vTempFiles { // files created for the file content model
			os.Remove(n)
		}
	}()
	defer func() {
		if r := recover(); r != nil {
			if _, isA := r.(vAssumeFailed); isA {
				fmt.Println("SYMGO-DONE")
				return
			}
			fmt.Printf("SYMGO-PANIC %v\n", r)
			fmt.Println("SYMGO-DONE")
		}
	}()
	f()
	fmt.Println("SYMGO-DONE")
}
`
