package main

import (
	"fmt"
	"go/token"
	"go/types"
	"math/big"
	"strconv"
	"strings"
)

func newRat(a, b int64) *big.Rat { return big.NewRat(a, b) }
func ratMul(a, b *big.Rat) *big.Rat { return new(big.Rat).Mul(a, b) }

// sprintf: fmt.Sprintf over interpreter values. Symbolic strings are spliced for %s/%v/%q-less
// verbs; symbolic integers are concretised (forking over feasible values).
// Returns the text and, if a %w verb was used, its operand.
func (m *machine) sprintf(format value, args slc) (value, value) {
	f, ok := format.(string)
	if !ok {
		panic(abortPath{"unsupported:symbolic format string"})
	}
	var out []iv
	var wrapped value
	argi := 0
	emit := func(s string) {
		for i := 0; i < len(s); i++ {
			out = append(out, iv{w: 8, c: uint64(s[i])})
		}
	}
	for i := 0; i < len(f); i++ {
		if f[i] != '%' {
			out = append(out, iv{w: 8, c: uint64(f[i])})
			continue
		}
		j := i + 1
		for j < len(f) && strings.ContainsRune("+-# 0123456789.*", rune(f[j])) {
			j++
		}
		if j >= len(f) {
			emit("%!(NOVERB)")
			break
		}
		verb := f[j]
		flags := f[i+1 : j]
		i = j
		if verb == '%' {
			emit("%")
			continue
		}
		if strings.Contains(flags, "*") {
			panic(abortPath{"unsupported:fmt * width"})
		}
		if argi >= args.ln {
			emit("%!" + string(verb) + "(MISSING)")
			continue
		}
		a := (*args.arr)[args.off+argi]
		argi++
		if verb == 'w' {
			wrapped = a
			verb = 'v'
		}
		out = append(out, strBytes(m.formatVerb(verb, flags, a))...)
	}
	if argi < args.ln {
		emit("%!(EXTRA)")
	}
	return mkStr(out), wrapped
}

// formatVerb formats one operand (an interface value) under a verb.
func (m *machine) formatVerb(verb byte, flags string, a value) value {
	spec := "%" + flags + string(verb)
	if ia, ok := a.(iface); ok {
		if ia.t == nil {
			if verb == 'v' || verb == 's' {
				if verb == 's' {
					return "%!s(<nil>)"
				}
				return "<nil>"
			}
			return "%!" + string(verb) + "(<nil>)"
		}
		// error / Stringer
		if verb == 'v' || verb == 's' || verb == 'q' {
			for _, mn := range []string{"Error", "String"} {
				ms := m.prog.MethodSets.MethodSet(ia.t)
				for k := 0; k < ms.Len(); k++ {
					sel := ms.At(k)
					if sel.Obj().Name() == mn {
						sig := sel.Type().(*types.Signature)
						if sig.Params().Len() == 0 && sig.Results().Len() == 1 {
							if b, ok := sig.Results().At(0).Type().Underlying().(*types.Basic); ok && b.Kind() == types.String {
								// nil pointer receivers print <nil>
								if p, isP := ia.v.(*value); isP && p == nil {
									return "<nil>"
								}
								s := m.call(m.prog.MethodValue(sel), []value{ia.v}, nil, token.NoPos)
								return m.formatScalar(spec, verb, flags, s, nil)
							}
						}
					}
				}
			}
		}
		return m.formatScalar(spec, verb, flags, ia.v, ia.t)
	}
	return m.formatScalar(spec, verb, flags, a, nil)
}

func (m *machine) formatScalar(spec string, verb byte, flags string, v value, t types.Type) value {
	switch x := v.(type) {
	case string:
		return fmt.Sprintf(spec, x)
	case sstr:
		if (verb == 's' || verb == 'v') && flags == "" {
			return x
		}
		if verb == 'q' && flags == "" {
			// quote without escaping: sound only if no byte needs escaping; decide that
			var plain []*T
			for _, b := range x {
				if b.sym() {
					plain = append(plain, m.tt.and(
						m.tt.bvcmp("bvuge", b.t, m.tt.bvc(8, 0x20)), m.tt.bvcmp("bvult", b.t, m.tt.bvc(8, 0x7f)),
						m.tt.not(m.tt.eq(b.t, m.tt.bvc(8, '"'))), m.tt.not(m.tt.eq(b.t, m.tt.bvc(8, '\\')))))
				}
			}
			if m.decide(m.mkBool(m.tt.and(plain...))) {
				out := append([]iv{{w: 8, c: '"'}}, x...)
				return mkStr(append(out, iv{w: 8, c: '"'}))
			}
			return "\"<symbolic>\""
		}
		panic(abortPath{"unsupported:fmt " + spec + " of symbolic string"})
	case iv:
		if x.sym() {
			if m.h.fmtOpaque {
				return "<symint>"
			}
			if verb == 'd' && flags == "" {
				// symbolic itoa: interpret the real strconv.FormatInt / FormatUint
				if x.sg {
					if f := m.eng.lookupFunc("strconv", "FormatInt"); f != nil {
						return m.call(f, []value{m.convInt(x, 64, true), mkInt(10)}, nil, token.NoPos)
					}
				} else if f := m.eng.lookupFunc("strconv", "FormatUint"); f != nil {
					return m.call(f, []value{m.convInt(x, 64, false), mkInt(10)}, nil, token.NoPos)
				}
			}
			x = m.concretize(x)
		}
		if verb == 'c' || verb == 'q' || verb == 'U' {
			return fmt.Sprintf(spec, rune(x.int64()))
		}
		if verb == 's' {
			return fmt.Sprintf("%%!s(int=%d)", x.int64())
		}
		if x.sg {
			return fmt.Sprintf(spec, x.int64())
		}
		switch x.w {
		case 8:
			return fmt.Sprintf(spec, uint8(x.c))
		case 16:
			return fmt.Sprintf(spec, uint16(x.c))
		case 32:
			return fmt.Sprintf(spec, uint32(x.c))
		}
		return fmt.Sprintf(spec, x.c)
	case bv:
		if x.sym() {
			if m.decide(x) {
				return fmt.Sprintf(spec, true)
			}
			return fmt.Sprintf(spec, false)
		}
		return fmt.Sprintf(spec, x.c)
	case fv:
		if x.sym() {
			return "<symreal>"
		}
		return fmt.Sprintf(spec, x.c)
	case slc:
		// []byte with %s/%x, or generic %v
		if x.ln > 0 {
			if e, ok := (*x.arr)[x.off].(iv); ok && e.w == 8 {
				bs := sliceBytes(x)
				if cb, ok := concreteBytes(bs); ok {
					return fmt.Sprintf(spec, cb)
				}
				if verb == 's' && flags == "" {
					return mkStr(bs)
				}
				return "<symbytes>"
			}
		}
		var parts []string
		for i := 0; i < x.ln; i++ {
			p := m.formatScalar("%v", 'v', "", (*x.arr)[x.off+i], nil)
			if s, ok := p.(string); ok {
				parts = append(parts, s)
			} else {
				parts = append(parts, "<sym>")
			}
		}
		return "[" + strings.Join(parts, " ") + "]"
	case iface:
		return m.formatVerb(verb, flags, x)
	case *value:
		if x == nil {
			return "<nil>"
		}
		if verb == 'T' {
			break
		}
		return "0xc000000000"
	case agg:
		var parts []string
		for _, e := range x {
			p := m.formatScalar("%v", 'v', "", e, nil)
			if s, ok := p.(string); ok {
				parts = append(parts, s)
			} else {
				parts = append(parts, "<sym>")
			}
		}
		return "{" + strings.Join(parts, " ") + "}"
	case nil:
		return "<nil>"
	}
	if verb == 'T' && t != nil {
		return t.String()
	}
	return fmt.Sprintf("<%T>", v)
}

// sscanf supports the "%d" family on concrete strings (host-native).
func (m *machine) sscanf(args []value, pos token.Pos) value {
	s, ok1 := args[0].(string)
	f, ok2 := args[1].(string)
	rest := args[2].(slc)
	if !ok1 && ok2 && f == "%d" && rest.ln == 1 {
		return m.sscanfD(strBytes(args[0]), (*rest.arr)[rest.off].(iface), pos)
	}
	if !ok1 || !ok2 {
		panic(abortPath{"unsupported:Sscanf on symbolic text"})
	}
	// only formats consisting of %d verbs and literals
	var ptrs []*value
	var host []interface{}
	ints := make([]int64, rest.ln)
	for i := 0; i < rest.ln; i++ {
		ia := (*rest.arr)[rest.off+i].(iface)
		p, ok := ia.v.(*value)
		if !ok || p == nil {
			panic(abortPath{"unsupported:Sscanf operand"})
		}
		if _, isInt := (*p).(iv); !isInt {
			panic(abortPath{"unsupported:Sscanf non-integer operand"})
		}
		ptrs = append(ptrs, p)
		host = append(host, &ints[i])
	}
	n, err := fmt.Sscanf(s, f, host...)
	for i := 0; i < n && i < len(ptrs); i++ {
		old := (*ptrs[i]).(iv)
		m.store(ptrs[i], mk(old.w, old.sg, uint64(ints[i])))
	}
	var e value = iface{}
	if err != nil {
		e = m.mkError(err.Error())
	}
	return tup{mkInt(int64(n)), e}
}

var _ = strconv.Itoa

// sscanfD models fmt.Sscanf(s, "%d", &x) on text with symbolic bytes: leading spaces, optional sign, decimal digits.
func (m *machine) sscanfD(bs []iv, dst iface, pos token.Pos) value {
	p, ok := dst.v.(*value)
	if !ok || p == nil {
		panic(abortPath{"unsupported:Sscanf operand"})
	}
	old, isInt := (*p).(iv)
	if !isInt {
		panic(abortPath{"unsupported:Sscanf non-integer operand"})
	}
	tt := m.tt
	is := func(b iv, c byte) bool { return m.decide(m.eqValue(b, iv{w: 8, c: uint64(c)})) }
	i := 0
	for i < len(bs) && (is(bs[i], ' ') || is(bs[i], '\t') || is(bs[i], '\n') || is(bs[i], '\r')) {
		i++
	}
	neg := false
	if i < len(bs) && is(bs[i], '-') {
		neg = true
		i++
	} else if i < len(bs) && is(bs[i], '+') {
		i++
	}
	acc := tt.bvc(64, 0)
	digits := 0
	for ; i < len(bs) && digits < 18; i++ {
		b := bs[i]
		isD := m.mkBool(tt.and(tt.bvcmp("bvuge", m.ivT(b), tt.bvc(8, '0')), tt.bvcmp("bvule", m.ivT(b), tt.bvc(8, '9'))))
		if !m.decide(isD) {
			break
		}
		d := tt.zext(56, tt.bvbin("bvsub", m.ivT(b), tt.bvc(8, '0')))
		acc = tt.bvbin("bvadd", tt.bvbin("bvmul", acc, tt.bvc(64, 10)), d)
		digits++
	}
	if digits == 0 {
		return tup{mkInt(0), m.mkError("expected integer")}
	}
	if neg {
		acc = tt.bvun("bvneg", acc)
	}
	m.store(p, m.convInt(m.mkIv(64, true, acc), old.w, old.sg))
	return tup{mkInt(1), iface{}}
}
