package main

// Harness runtime intercepts, models of standard-library code that cannot be
// interpreted (assembly, unsafe, reflection), and the host-native fast path.

import (
	"fmt"
	"go/token"
	"go/types"
	"html"
	"math"
	"path/filepath"
	"reflect"
	"regexp"
	"sort"
	"strconv"
	"strings"
	"unicode"
	"unicode/utf8"

	"golang.org/x/text/unicode/norm"
	"golang.org/x/tools/go/ssa"
)

var whiteSpaceRanges = [][2]uint64{{0x09, 0x0D}, {0x20, 0x20}, {0x85, 0x85}, {0xA0, 0xA0}, {0x1680, 0x1680},
	{0x2000, 0x200A}, {0x2028, 0x2029}, {0x202F, 0x202F}, {0x205F, 0x205F}, {0x3000, 0x3000}}

func anySymArgs(args []value) bool {
	for _, a := range args {
		switch a := a.(type) {
		case iv:
			if a.sym() {
				return true
			}
		case bv:
			if a.sym() {
				return true
			}
		case fv:
			if a.sym() {
				return true
			}
		case sstr:
			return true
		case slc:
			for i := 0; i < a.ln; i++ {
				if anySymArgs([]value{(*a.arr)[a.off+i]}) {
					return true
				}
			}
		case agg:
			if anySymArgs(a) {
				return true
			}
		}
	}
	return false
}

func (m *machine) intrinsic(name string, fn *ssa.Function, args []value, pos token.Pos) (value, bool) {
	short := fn.Name()
	if isHarnessRT(short) && m.eng.isHarnessFn(fn) {
		if r, ok := m.harnessRT(short, fn, args, pos); ok {
			return r, true
		}
	}
	// strings.Repeat / bytes.Repeat with a concrete count: the result's size is an allocation like any other
	// (checked against the budget before the host would build it); a negative count panics as in Go
	if (name == "strings.Repeat" || name == "bytes.Repeat") && len(args) == 2 && !m.inInit {
		if cnt, ok := args[1].(iv); ok && !cnt.sym() {
			n := int64(cnt.c)
			unit := int64(0)
			switch a := args[0].(type) {
			case string:
				unit = int64(len(a))
			case sstr:
				unit = int64(len(a))
			case slc:
				unit = int64(a.ln)
			}
			if n < 0 {
				m.fail("panic.explicit", pos)
			}
			if unit > 0 && n > int64(m.h.allocBudget)/unit {
				m.fail("alloc.big", pos)
			}
		}
	}
	// host-native fast path for whitelisted pure functions on concrete arguments
	if hf, ok := hostFuncs[name]; ok && !anySymArgs(args) {
		if r, ok := m.hostCall(hf, fn, args); ok {
			return r, true
		}
	}
	if strings.HasPrefix(name, "(*regexp.Regexp).") {
		return m.regexpMethod(short, fn, args), true
	}
	tt := m.tt
	switch name {
	// ---- file-handle model (environment stub): os.Open either fails or returns a fresh handle that
	// stays "open" until (*os.File).Close is called on it; no other file operation is modelled
	case "os.Open", "os.Create":
		if m.inInit {
			break
		}
		var content []iv
		hasContent := false
		if name, ok := args[0].(string); ok {
			if c, ok := m.fileContents[name]; ok {
				content, hasContent = strBytes(c), true
			}
		}
		// a file whose content the harness registered (vFileContent) opens; any other open may fail or succeed
		if !hasContent && m.enumerate(0, 1) == 0 {
			return tup{(*value)(nil), m.mkError("open: no such file or directory")}, true
		}
		m.st.fnSeen["model:os.Open file-handle accounting (a handle counts as open until Close)"] = true
		p := new(value)
		*p = agg{(*value)(nil)}
		if m.openFiles == nil {
			m.openFiles = map[*value]bool{}
		}
		m.openFiles[p] = true
		if m.fileState == nil {
			m.fileState = map[*value]*fileState{}
		}
		m.fileState[p] = &fileState{content: content}
		return tup{p, iface{}}, true
	case "(*os.File).Close":
		p, _ := args[0].(*value)
		if p == nil {
			return m.mkError("invalid argument"), true
		}
		if m.openFiles[p] {
			delete(m.openFiles, p)
			return iface{}, true
		}
		return m.mkError("close: file already closed"), true
	case "(*os.File).Stat", "(*os.File).Seek", "(*os.File).Read", "(*os.File).ReadAt":
		// file content model (environment stub): an open handle reads the bytes the harness registered for
		// its name; positions and sizes are concrete
		p, _ := args[0].(*value)
		fs := m.fileState[p]
		if p == nil || fs == nil || !m.openFiles[p] {
			if short == "Stat" {
				return tup{iface{}, m.mkError("file already closed")}, true
			}
			return tup{mkInt(0), m.mkError("file already closed")}, true
		}
		m.st.fnSeen["model:os.File content supplied by the harness (vFileContent): Stat/Seek/Read/ReadAt/Close"] = true
		switch short {
		case "Stat":
			return tup{m.mkFileInfo(int64(len(fs.content))), iface{}}, true
		case "Seek":
			off, wh := args[1].(iv), args[2].(iv)
			if off.sym() {
				off = m.concretize(off) // forks over the feasible offsets (bounded by the harness's conc= cap)
			}
			if wh.sym() {
				panic(abortPath{"unsupported:symbolic seek whence"})
			}
			var np int64
			switch wh.int64() {
			case 0:
				np = off.int64()
			case 1:
				np = int64(fs.pos) + off.int64()
			case 2:
				np = int64(len(fs.content)) + off.int64()
			default:
				return tup{mkInt(0), m.mkError("seek: invalid argument")}, true
			}
			if np < 0 {
				return tup{mkInt(0), m.mkError("seek: invalid argument")}, true
			}
			fs.pos = int(np)
			return tup{mkInt(np), iface{}}, true
		case "Read", "ReadAt":
			buf := args[1].(slc)
			pos := fs.pos
			if short == "ReadAt" {
				o := args[2].(iv)
				if o.sym() {
					panic(abortPath{"unsupported:symbolic file offset"})
				}
				pos = int(o.int64())
			}
			if buf.ln == 0 {
				return tup{mkInt(0), iface{}}, true
			}
			if pos >= len(fs.content) {
				return tup{mkInt(0), m.ioEOF()}, true
			}
			n := len(fs.content) - pos
			if n > buf.ln {
				n = buf.ln
			}
			for i := 0; i < n; i++ {
				m.writeElem(&(*buf.arr)[buf.off+i], fs.content[pos+i], token.NoPos)
			}
			if short == "Read" {
				fs.pos += n
			} else if n < buf.ln {
				return tup{mkInt(int64(n)), m.ioEOF()}, true
			}
			return tup{mkInt(int64(n)), iface{}}, true
		}
	case "(*archive/zip.ReadCloser).Close":
		// zip handle model (environment stub): an archive the harness's OpenReader stub registered with
		// vZipHandle counts as an open file handle until its Close is called; a second Close reports an error
		p, _ := args[0].(*value)
		if p == nil || !m.zipHandles[p] {
			break
		}
		m.st.fnSeen["model:archive/zip.ReadCloser handle accounting (vZipHandle; open until Close)"] = true
		if m.openFiles[p] {
			delete(m.openFiles, p)
			return iface{}, true
		}
		return m.mkError("close: file already closed"), true
	case "(*archive/zip.File).Open":
		// zip content model (environment stub): a member's content is what the harness registered for its
		// name with vZipContent; decompression, CRC and the central directory are outside the claim
		if m.inInit {
			break
		}
		p, _ := args[0].(*value)
		if p == nil {
			m.fail("panic.nil", pos)
		}
		name, _ := (*p).(agg)[0].(agg)[0].(string)
		content, ok := m.zipContents[name]
		if !ok {
			return tup{iface{}, m.mkError("zip: member has no registered content: " + name)}, true
		}
		m.st.fnSeen["model:archive/zip member content supplied by the harness (vZipContent)"] = true
		rd := m.call(m.eng.lookupFunc("bytes", "NewReader"), []value{bytesToSlice(strBytes(content))}, nil, pos)
		nc := m.eng.lookupFunc("io", "NopCloser")
		rt := m.eng.lookupFunc("bytes", "NewReader").Signature.Results().At(0).Type()
		return tup{m.call(nc, []value{iface{t: rt, v: rd}}, nil, pos), iface{}}, true
	case "(*encoding/xml.Decoder).DecodeElement":
		if m.inInit {
			break
		}
		return m.xmlDecodeElement(fn, args, pos), true
	case "regexp.MustCompile", "regexp.Compile":
		pat, ok := args[0].(string)
		if !ok {
			panic(abortPath{"unsupported:regexp with symbolic pattern"})
		}
		re, err := regexp.Compile(pat)
		if err != nil {
			if name == "regexp.MustCompile" {
				m.fail("panic.explicit", pos)
			}
			return tup{(*value)(nil), m.mkError(err.Error())}, true
		}
		p := new(value)
		*p = &hostObj{kind: "regexp", obj: re}
		if name == "regexp.Compile" {
			return tup{p, iface{}}, true
		}
		return p, true

	// ---- internal/bytealg and friends
	case "internal/bytealg.IndexByteString", "internal/bytealg.IndexByte", "strings.IndexByte", "bytes.IndexByte":
		bs := m.byteSeq(args[0])
		c := args[1].(iv)
		for i, b := range bs {
			if m.decide(m.eqValue(b, c)) {
				return mkInt(int64(i)), true
			}
		}
		return mkInt(-1), true
	case "internal/bytealg.LastIndexByteString", "internal/bytealg.LastIndexByte", "strings.LastIndexByte", "bytes.LastIndexByte":
		bs := m.byteSeq(args[0])
		c := args[1].(iv)
		for i := len(bs) - 1; i >= 0; i-- {
			if m.decide(m.eqValue(bs[i], c)) {
				return mkInt(int64(i)), true
			}
		}
		return mkInt(-1), true
	case "internal/bytealg.Equal", "bytes.Equal":
		return m.strEq(mkStr(m.byteSeq(args[0])), mkStr(m.byteSeq(args[1]))), true
	case "internal/bytealg.Compare", "bytes.Compare", "strings.Compare", "internal/bytealg.CompareString":
		a, b := mkStr(m.byteSeq(args[0])), mkStr(m.byteSeq(args[1]))
		if m.decide(m.strEq(a, b)) {
			return mkInt(0), true
		}
		if m.decide(m.strLess(a, b)) {
			return mkInt(-1), true
		}
		return mkInt(1), true
	case "internal/bytealg.Count", "internal/bytealg.CountString":
		bs := m.byteSeq(args[0])
		c := args[1].(iv)
		n := 0
		for _, b := range bs {
			if m.decide(m.eqValue(b, c)) {
				n++
			}
		}
		return mkInt(int64(n)), true
	case "strings.Index", "bytes.Index", "internal/bytealg.Index", "internal/bytealg.IndexString", "internal/stringslite.Index":
		s, sub := m.byteSeq(args[0]), m.byteSeq(args[1])
		if cs, ok := concreteBytes(s); ok {
			if csub, ok := concreteBytes(sub); ok {
				return mkInt(int64(strings.Index(string(cs), string(csub)))), true
			}
		}
		for i := 0; i+len(sub) <= len(s); i++ {
			if m.decide(m.strEq(mkStr(s[i:i+len(sub)]), mkStr(sub))) {
				return mkInt(int64(i)), true
			}
		}
		return mkInt(-1), true
	case "strings.LastIndex", "bytes.LastIndex":
		s, sub := m.byteSeq(args[0]), m.byteSeq(args[1])
		for i := len(s) - len(sub); i >= 0; i-- {
			if m.decide(m.strEq(mkStr(s[i:i+len(sub)]), mkStr(sub))) {
				return mkInt(int64(i)), true
			}
		}
		return mkInt(-1), true
	case "internal/bytealg.MakeNoZero":
		n := int(m.concretize(args[0].(iv)).int64())
		arr := make([]value, n)
		for i := range arr {
			arr[i] = iv{w: 8}
		}
		return slc{arr: &arr, ln: n, cp: n}, true
	case "internal/stringslite.Clone", "strings.Clone", "strconv.cloneString", "bytes.Clone":
		if s, ok := args[0].(slc); ok {
			if s.arr == nil {
				return s, true
			}
			return bytesToSlice(sliceBytes(s)), true
		}
		return args[0], true
	case "internal/abi.NoEscape", "internal/abi.Escape":
		return args[0], true

	// ---- strings.Builder (real body uses unsafe)
	case "(*strings.Builder).copyCheck":
		return nil, true
	case "(*strings.Builder).String":
		p := args[0].(*value)
		buf := (*p).(agg)[1].(slc)
		return mkStr(sliceBytes(buf)), true

	// ---- strings helpers on symbolic text
	case "strings.ToLower", "strings.ToUpper", "bytes.ToLower", "bytes.ToUpper":
		bs := m.byteSeq(args[0])
		var ascii []*T
		for _, b := range bs {
			if b.sym() {
				ascii = append(ascii, tt.bvcmp("bvult", b.t, tt.bvc(8, 0x80)))
			}
		}
		if !m.decide(m.mkBool(tt.and(ascii...))) {
			panic(abortPath{"unsupported:case mapping of non-ASCII symbolic text"})
		}
		// symbolic bytes are ASCII here, so they never combine with neighbours into a rune:
		// map them individually and let the host map the maximal concrete segments
		lower := strings.HasSuffix(name, "ToLower")
		var out []iv
		var seg []byte
		flush := func() {
			if len(seg) == 0 {
				return
			}
			var r string
			if lower {
				r = strings.ToLower(string(seg))
			} else {
				r = strings.ToUpper(string(seg))
			}
			for i := 0; i < len(r); i++ {
				out = append(out, iv{w: 8, c: uint64(r[i])})
			}
			seg = seg[:0]
		}
		for _, b := range bs {
			if !b.sym() {
				seg = append(seg, byte(b.c))
				continue
			}
			flush()
			if lower {
				isU := tt.and(tt.bvcmp("bvuge", b.t, tt.bvc(8, 'A')), tt.bvcmp("bvule", b.t, tt.bvc(8, 'Z')))
				out = append(out, m.mkIv(8, false, tt.ite(isU, tt.bvbin("bvadd", b.t, tt.bvc(8, 32)), b.t)))
			} else {
				isL := tt.and(tt.bvcmp("bvuge", b.t, tt.bvc(8, 'a')), tt.bvcmp("bvule", b.t, tt.bvc(8, 'z')))
				out = append(out, m.mkIv(8, false, tt.ite(isL, tt.bvbin("bvsub", b.t, tt.bvc(8, 32)), b.t)))
			}
		}
		flush()
		if strings.HasPrefix(name, "bytes.") {
			return bytesToSlice(out), true
		}
		return mkStr(out), true

	// ---- unicode predicates on symbolic runes
	case "unicode.IsSpace":
		r := args[0].(iv)
		var parts []*T
		for _, rg := range whiteSpaceRanges {
			if rg[0] == rg[1] {
				parts = append(parts, tt.eq(r.t, tt.bvc(32, rg[0])))
			} else {
				parts = append(parts, tt.and(tt.bvcmp("bvuge", r.t, tt.bvc(32, rg[0])), tt.bvcmp("bvule", r.t, tt.bvc(32, rg[1]))))
			}
		}
		return m.mkBool(tt.or(parts...)), true
	case "unicode.IsDigit", "unicode.IsLetter", "unicode.IsUpper", "unicode.IsLower", "unicode.IsPunct", "unicode.IsSymbol",
		"unicode.IsNumber", "unicode.IsControl", "unicode.IsPrint", "unicode.IsGraphic", "unicode.ToLower", "unicode.ToUpper", "unicode.IsMark":
		// symbolic rune: decide ASCII-ness, then exact ASCII semantics; non-ASCII symbolic is unsupported
		r := args[0].(iv)
		if !m.decide(m.mkBool(tt.bvcmp("bvult", r.t, tt.bvc(32, 0x80)))) {
			panic(abortPath{"unsupported:" + name + " on non-ASCII symbolic rune"})
		}
		rng := func(lo, hi uint64) *T {
			return tt.and(tt.bvcmp("bvuge", r.t, tt.bvc(32, lo)), tt.bvcmp("bvule", r.t, tt.bvc(32, hi)))
		}
		switch short {
		case "IsDigit", "IsNumber":
			return m.mkBool(rng('0', '9')), true
		case "IsUpper":
			return m.mkBool(rng('A', 'Z')), true
		case "IsLower":
			return m.mkBool(rng('a', 'z')), true
		case "IsLetter":
			return m.mkBool(tt.or(rng('A', 'Z'), rng('a', 'z'))), true
		case "IsControl":
			return m.mkBool(tt.or(rng(0, 0x1F), tt.eq(r.t, tt.bvc(32, 0x7F)))), true
		case "IsMark":
			return bv{c: false}, true
		case "ToLower":
			return m.mkIv(32, true, tt.ite(rng('A', 'Z'), tt.bvbin("bvadd", r.t, tt.bvc(32, 32)), r.t)), true
		case "ToUpper":
			return m.mkIv(32, true, tt.ite(rng('a', 'z'), tt.bvbin("bvsub", r.t, tt.bvc(32, 32)), r.t)), true
		}
		// table-driven for the remaining ASCII classes
		var parts []*T
		for c := 0; c < 0x80; c++ {
			var in bool
			switch short {
			case "IsPunct":
				in = unicode.IsPunct(rune(c))
			case "IsSymbol":
				in = unicode.IsSymbol(rune(c))
			case "IsPrint":
				in = unicode.IsPrint(rune(c))
			case "IsGraphic":
				in = unicode.IsGraphic(rune(c))
			}
			if in {
				parts = append(parts, tt.eq(r.t, tt.bvc(32, uint64(c))))
			}
		}
		return m.mkBool(tt.or(parts...)), true

	// ---- math on symbolic reals
	case "math.Sqrt":
		x := args[0].(fv)
		y := m.auxVar("sq", sortReal)
		m.assume(tt.rcmp(">=", y, tt.realf(0)))
		m.assume(tt.eq(tt.rbin("*", y, y), x.t))
		m.modelOK = false
		return fv{t: y}, true
	case "math.Abs":
		x := args[0].(fv)
		return m.mkFv(tt.ite(tt.rcmp("<", x.t, tt.realf(0)), tt.rneg(x.t), x.t)), true
	case "math.Min", "math.Max":
		x, y := args[0].(fv), args[1].(fv)
		xt, yt := m.fvT(x), m.fvT(y)
		if short == "Min" {
			return m.mkFv(tt.ite(tt.rcmp("<", xt, yt), xt, yt)), true
		}
		return m.mkFv(tt.ite(tt.rcmp(">", xt, yt), xt, yt)), true
	case "math.Floor":
		return m.mkFv(tt.rfloor(args[0].(fv).t)), true
	case "math.Ceil":
		x := args[0].(fv)
		return m.mkFv(tt.rneg(tt.rfloor(tt.rneg(x.t)))), true
	case "math.Round":
		x := args[0].(fv)
		// round half away from zero
		half := tt.realc(ratHalf)
		pos := tt.rfloor(tt.rbin("+", x.t, half))
		neg := tt.rneg(tt.rfloor(tt.rbin("+", tt.rneg(x.t), half)))
		return m.mkFv(tt.ite(tt.rcmp(">=", x.t, tt.realf(0)), pos, neg)), true
	case "math.IsNaN":
		return bv{c: false}, true
	case "math.IsInf":
		return bv{c: false}, true
	case "math.Float64bits", "math.Float64frombits", "math.Pow", "math.Sin", "math.Cos", "math.Atan2", "math.Log", "math.Exp", "math.Mod", "math.Trunc", "math.Hypot":
		panic(abortPath{"unsupported:" + name + " on symbolic real"})

	// ---- strconv.ParseFloat on symbolic text: restricted grammar [+-]?d*(.d*)?
	case "strconv.ParseFloat":
		return m.parseFloatModel(args[0]), true

	// ---- fmt
	case "fmt.Errorf":
		msg, wrapped := m.sprintf(args[0], args[1].(slc))
		if wrapped != nil {
			return m.mkWrapError(msg, wrapped), true
		}
		return m.mkError(msg), true
	case "fmt.Sprintf":
		msg, _ := m.sprintf(args[0], args[1].(slc))
		return msg, true
	case "fmt.Sprint", "fmt.Sprintln":
		var parts []iv
		s := args[0].(slc)
		for i := 0; i < s.ln; i++ {
			if i > 0 && short == "Sprintln" {
				parts = append(parts, iv{w: 8, c: ' '})
			}
			parts = append(parts, strBytes(m.formatVerb('v', "", (*s.arr)[s.off+i]))...)
		}
		if short == "Sprintln" {
			parts = append(parts, iv{w: 8, c: '\n'})
		}
		return mkStr(parts), true
	case "fmt.Fprintf", "fmt.Fprint", "fmt.Fprintln":
		var msg value
		switch short {
		case "Fprintf":
			msg, _ = m.sprintf(args[1], args[2].(slc))
		default:
			var parts []iv
			s := args[1].(slc)
			for i := 0; i < s.ln; i++ {
				if i > 0 && short == "Fprintln" {
					parts = append(parts, iv{w: 8, c: ' '})
				}
				parts = append(parts, strBytes(m.formatVerb('v', "", (*s.arr)[s.off+i]))...)
			}
			if short == "Fprintln" {
				parts = append(parts, iv{w: 8, c: '\n'})
			}
			msg = mkStr(parts)
		}
		w := args[0].(iface)
		if w.t == nil {
			m.fail("panic.nil", pos)
		}
		wfn := m.lookupMethodByName(w.t, "Write")
		r := m.call(wfn, []value{w.v, bytesToSlice(strBytes(msg))}, nil, pos)
		return r, true
	case "fmt.Printf", "fmt.Println", "fmt.Print":
		return tup{mkInt(0), iface{}}, true
	case "fmt.Sscanf":
		return m.sscanf(args, pos), true

	// ---- errors
	case "errors.Is":
		return m.errorsIs(args[0].(iface), args[1].(iface), pos), true
	case "errors.Unwrap":
		return m.errorsUnwrap(args[0].(iface), pos), true
	case "errors.As":
		panic(abortPath{"unsupported:errors.As"})

	// ---- sort via reflection
	case "sort.Slice", "sort.SliceStable":
		m.sortSlice(args[0].(iface), args[1].(*closure), pos)
		return nil, true

	// ---- sync (single-threaded no-ops)
	case "(*sync.Mutex).Lock", "(*sync.Mutex).Unlock", "(*sync.RWMutex).Lock", "(*sync.RWMutex).Unlock", "(*sync.RWMutex).RLock", "(*sync.RWMutex).RUnlock":
		return nil, true
	case "(*sync.Once).Do":
		p := args[0].(*value)
		st := (*p).(agg)
		// use field 0 (done) as a plain flag
		if d, ok := st[0].(agg); ok { // atomic.Uint32{_ noCopy; v uint32}
			if d[len(d)-1].(iv).c != 0 {
				return nil, true
			}
			m.setElem(&d[len(d)-1], mk(32, false, 1))
		} else if d, ok := st[0].(iv); ok {
			if d.c != 0 {
				return nil, true
			}
			m.setElem(&st[0], mk(d.w, d.sg, 1))
		}
		f := args[1].(*closure)
		m.call(f.fn, nil, f.bind, pos)
		return nil, true

	// ---- text normalisation (x/text tables are not interpretable)
	case "(golang.org/x/text/unicode/norm.Form).String", "(golang.org/x/text/unicode/norm.Form).IsNormalString":
		form, okF := args[0].(iv)
		str, okS := args[1].(string)
		if !okF || form.sym() || !okS {
			panic(abortPath{"unsupported:" + name + " on symbolic text"})
		}
		if short == "String" {
			return norm.Form(form.c).String(str), true
		}
		return bv{c: norm.Form(form.c).IsNormalString(str)}, true
	case "time.Now":
		panic(abortPath{"unsupported:time.Now"})
	}
	return nil, false
}

var ratHalf = newRat(1, 2)

func (m *machine) lookupMethodByName(t types.Type, name string) *ssa.Function {
	ms := m.prog.MethodSets.MethodSet(t)
	for i := 0; i < ms.Len(); i++ {
		if ms.At(i).Obj().Name() == name {
			return m.prog.MethodValue(ms.At(i))
		}
	}
	panic(abortPath{"internal:no method " + name + " on " + t.String()})
}

// byteSeq: bytes of a string or []byte value.
func (m *machine) byteSeq(v value) []iv {
	switch v := v.(type) {
	case slc:
		return sliceBytes(v)
	case string, sstr:
		return strBytes(v)
	}
	panic(abortPath{fmt.Sprintf("unsupported:byteSeq of %T", v)})
}

// ---- harness runtime

func (m *machine) harnessRT(short string, fn *ssa.Function, args []value, pos token.Pos) (value, bool) {
	tt := m.tt
	switch short {
	case "vAnyByte":
		return m.freshInt("byte", 8, false), true
	case "vAnyInt":
		return m.freshInt("int", 64, true), true
	case "vAnyInt32":
		return m.freshInt("int32", 32, true), true
	case "vAnyUint32":
		return m.freshInt("uint32", 32, false), true
	case "vAnyUint16":
		return m.freshInt("uint16", 16, false), true
	case "vAnyRune":
		return m.freshInt("rune", 32, true), true
	case "vAnyBool":
		return m.freshBool(), true
	case "vAnyFloat":
		return m.freshReal(), true
	case "vAnyByteOf":
		set := args[0].(string)
		b := m.freshInt("byte", 8, false)
		var parts []*T
		for _, c := range []byte(set) {
			parts = append(parts, tt.eq(b.t, tt.bvc(8, uint64(c))))
		}
		m.assumeChecked(tt.or(parts...))
		if !m.modelOK && m.model != nil && len(set) > 0 {
			// repair the model locally: the fresh byte is otherwise unconstrained
			m.model.bv[b.t.name] = uint64(set[0])
			m.modelOK = true
		}
		return b, true
	case "vAnyIntIn":
		lo, hi := args[0].(iv).int64(), args[1].(iv).int64()
		v := m.enumerate(lo, hi)
		m.inputs = append(m.inputs, inputRec{Name: fmt.Sprintf("enum_%d", len(m.inputs)), Kind: "enum", W: 64, Sg: true, U: uint64(v)})
		return mkInt(v), true
	case "vAnyIntRange": // symbolic int constrained to [lo,hi]
		lo, hi := args[0].(iv), args[1].(iv)
		x := m.freshInt("int", 64, true)
		m.assumeChecked(tt.and(tt.bvcmp("bvsge", x.t, m.ivT(lo)), tt.bvcmp("bvsle", x.t, m.ivT(hi))))
		if !m.modelOK && m.model != nil && !lo.sym() {
			m.model.bv[x.t.name] = lo.c
			m.modelOK = true
		}
		return x, true
	case "vAnyBytes":
		n := int(m.concretize(args[0].(iv)).int64())
		arr := make([]value, n)
		for i := range arr {
			arr[i] = m.freshInt("byte", 8, false)
		}
		return slc{arr: &arr, ln: n, cp: n}, true
	case "vAnyString":
		n := int(m.concretize(args[0].(iv)).int64())
		bs := make([]iv, n)
		for i := range bs {
			bs[i] = m.freshInt("byte", 8, false)
		}
		return mkStr(bs), true
	case "vAnyStringOf":
		n := int(m.concretize(args[0].(iv)).int64())
		set := args[1].(string)
		bs := make([]iv, n)
		for i := range bs {
			r, _ := m.harnessRT("vAnyByteOf", fn, []value{set}, pos)
			bs[i] = r.(iv)
		}
		return mkStr(bs), true
	case "vAssume":
		c := args[0].(bv)
		if !c.sym() {
			if !c.c {
				panic(abortPath{"assume-false"})
			}
			return nil, true
		}
		m.assumeChecked(c.t)
		m.ensureModel() // aborts the path as infeasible when the assumption cannot hold
		return nil, true
	case "vAssert":
		m.require("assert:"+args[0].(string), args[1].(bv), pos, true)
		return nil, true
	case "vReach":
		m.reached = append(m.reached, args[0].(string))
		return nil, true
	case "vTier":
		return mkInt(int64(m.eng.tier)), true
	case "vConcretize":
		return m.concretize(args[0].(iv)), true
	case "vObserveInt":
		x := args[1].(iv)
		if x.sym() {
			m.observeT = append(m.observeT, obsRec{args[0].(string), x.t, x.sg})
		} else {
			m.observed = append(m.observed, fmt.Sprintf("%s=%d", args[0].(string), x.int64()))
		}
		return nil, true
	case "vObserveStr":
		bs := strBytes(args[1])
		if cb, ok := concreteBytes(bs); ok {
			m.observed = append(m.observed, fmt.Sprintf("%s=%q", args[0].(string), string(cb)))
		} else {
			m.observeS = append(m.observeS, obsStr{args[0].(string), bs, len(m.observed)})
			m.observed = append(m.observed, "")
		}
		return nil, true
	case "vIsSymbolic":
		return bv{c: true}, true
	case "vFileContent":
		if m.fileContents == nil {
			m.fileContents = map[string]value{}
		}
		name, ok := args[0].(string)
		if !ok {
			panic(abortPath{"unsupported:vFileContent with symbolic name"})
		}
		m.fileContents[name] = args[1]
		return nil, true
	case "vZipContent":
		if m.zipContents == nil {
			m.zipContents = map[string]value{}
		}
		name, ok := args[0].(string)
		if !ok {
			panic(abortPath{"unsupported:vZipContent with symbolic name"})
		}
		m.zipContents[name] = args[1]
		return nil, true
	case "vOpenFiles":
		return mkInt(int64(len(m.openFiles))), true
	case "vZipHandle":
		ifc, _ := args[0].(iface)
		p, _ := ifc.v.(*value)
		if p == nil {
			panic(abortPath{"unsupported:vZipHandle needs a non-nil *zip.ReadCloser"})
		}
		if m.openFiles == nil {
			m.openFiles = map[*value]bool{}
		}
		if m.zipHandles == nil {
			m.zipHandles = map[*value]bool{}
		}
		m.openFiles[p] = true
		m.zipHandles[p] = true
		return nil, true
	}
	return nil, false
}

type obsRec struct {
	label string
	t     *T
	sg    bool
}
type obsStr struct {
	label string
	bs    []iv
	slot  int
}

// ---- ParseFloat model

func (m *machine) parseFloatModel(sv value) value {
	bs := strBytes(sv)
	tt := m.tt
	numErr := func() value { return tup{fv{}, m.mkError("strconv.ParseFloat: invalid syntax")} }
	if len(bs) == 0 {
		return numErr()
	}
	// the grammar both PDF lexers can produce: optional sign, digits, optional '.', digits; at least one digit
	isDigit := func(b iv) bv {
		if !b.sym() {
			return bv{c: b.c >= '0' && b.c <= '9'}
		}
		return m.mkBool(tt.and(tt.bvcmp("bvuge", b.t, tt.bvc(8, '0')), tt.bvcmp("bvule", b.t, tt.bvc(8, '9'))))
	}
	is := func(b iv, c byte) bool { return m.decide(m.eqValue(b, iv{w: 8, c: uint64(c)})) }
	i := 0
	neg := false
	if is(bs[0], '-') {
		neg = true
		i++
	} else if is(bs[0], '+') {
		i++
	}
	num := tt.realf(0)
	ten := tt.realf(10)
	digits := 0
	sawDot := false
	scale := newRat(1, 1)
	for ; i < len(bs); i++ {
		b := bs[i]
		if m.decide(isDigit(b)) {
			d := tt.bv2real(tt.bvbin("bvsub", m.ivT(b), tt.bvc(8, '0')), false)
			if !sawDot {
				num = tt.rbin("+", tt.rbin("*", num, ten), d)
			} else {
				scale = ratMul(scale, newRat(1, 10))
				num = tt.rbin("+", num, tt.rbin("*", d, tt.realc(scale)))
			}
			digits++
			continue
		}
		if !sawDot && is(b, '.') {
			sawDot = true
			continue
		}
		// anything else (exponents, inf, nan, hex floats, underscores) is outside the modelled grammar
		if cb, ok := concreteBytes(bs); ok {
			f, err := strconv.ParseFloat(string(cb), 64)
			if err != nil {
				return numErr()
			}
			return tup{fv{c: f}, iface{}}
		}
		panic(abortPath{"unsupported:ParseFloat outside the modelled decimal grammar"})
	}
	if digits == 0 {
		return numErr()
	}
	if neg {
		num = tt.rneg(num)
	}
	return tup{m.mkFv(num), iface{}}
}

// ---- errors

func (m *machine) errorsUnwrap(e iface, pos token.Pos) value {
	if e.t == nil {
		return iface{}
	}
	ms := m.prog.MethodSets.MethodSet(e.t)
	for i := 0; i < ms.Len(); i++ {
		if ms.At(i).Obj().Name() == "Unwrap" {
			fn := m.prog.MethodValue(ms.At(i))
			sig := fn.Signature
			if sig.Results().Len() == 1 && types.Identical(sig.Results().At(0).Type(), m.eng.errIface) {
				return m.call(fn, []value{e.v}, nil, pos)
			}
		}
	}
	return iface{}
}

func (m *machine) errorsIs(e, target iface, pos token.Pos) value {
	for n := 0; n < 32; n++ {
		if e.t == nil {
			return bv{c: target.t == nil}
		}
		if eq := m.eqValue(e, target); m.decide(eq) {
			return bv{c: true}
		}
		nx := m.errorsUnwrap(e, pos)
		ni, ok := nx.(iface)
		if !ok || ni.t == nil {
			return bv{c: false}
		}
		e = ni
	}
	return bv{c: false}
}

// ---- sort.Slice: insertion sort (exactly what package sort runs for n <= 12)

func (m *machine) sortSlice(x iface, less *closure, pos token.Pos) {
	s, ok := x.v.(slc)
	if !ok {
		m.fail("panic.explicit", pos)
	}
	n := s.ln
	if n > 12 {
		m.st.fnSeen["note:sort.Slice modelled as insertion sort for n>12"] = true
	}
	callLess := func(i, j int) bool {
		r := m.call(less.fn, []value{mkInt(int64(i)), mkInt(int64(j))}, less.bind, pos)
		return m.decide(r.(bv))
	}
	for i := 1; i < n; i++ {
		for j := i; j > 0 && callLess(j, j-1); j-- {
			a, b := &(*s.arr)[s.off+j], &(*s.arr)[s.off+j-1]
			va, vb := copyVal(*a), copyVal(*b)
			m.store(a, vb)
			m.store(b, va)
		}
	}
}

// ---- regexp methods through reflection on the host object

func (m *machine) regexpMethod(short string, fn *ssa.Function, args []value) value {
	p, _ := args[0].(*value)
	if p == nil {
		panic(abortPath{"violation:panic.nil"})
	}
	ho, ok := (*p).(*hostObj)
	if !ok {
		panic(abortPath{"unsupported:regexp receiver"})
	}
	if anySymArgs(args[1:]) {
		panic(abortPath{"unsupported:regexp." + short + " on symbolic text"})
	}
	meth := reflect.ValueOf(ho.obj).MethodByName(short)
	if !meth.IsValid() {
		panic(abortPath{"unsupported:regexp." + short})
	}
	r, ok := m.reflectCall(meth, fn, args[1:])
	if !ok {
		panic(abortPath{"unsupported:regexp." + short + " signature"})
	}
	return r
}

// ---- host-native fast path

var hostFuncs = map[string]interface{}{
	"strconv.ParseFloat":     strconv.ParseFloat,
	"strconv.FormatFloat":    strconv.FormatFloat,
	"strconv.Quote":          strconv.Quote,
	"strconv.Unquote":        strconv.Unquote,
	"strings.ToLower":        strings.ToLower,
	"strings.ToUpper":        strings.ToUpper,
	"strings.ToTitle":        strings.ToTitle,
	"strings.Title":          strings.Title,
	"strings.EqualFold":      strings.EqualFold,
	"strings.Fields":         strings.Fields,
	"strings.TrimSpace":      strings.TrimSpace,
	"strings.Contains":       strings.Contains,
	"strings.Index":          strings.Index,
	"strings.LastIndex":      strings.LastIndex,
	"strings.HasPrefix":      strings.HasPrefix,
	"strings.HasSuffix":      strings.HasSuffix,
	"strings.Split":          strings.Split,
	"strings.SplitN":         strings.SplitN,
	"strings.Join":           strings.Join,
	"strings.Repeat":         strings.Repeat,
	"strings.ReplaceAll":     strings.ReplaceAll,
	"strings.Replace":        strings.Replace,
	"strings.Count":          strings.Count,
	"strings.TrimPrefix":     strings.TrimPrefix,
	"strings.TrimSuffix":     strings.TrimSuffix,
	"strings.Trim":           strings.Trim,
	"strings.TrimLeft":       strings.TrimLeft,
	"strings.TrimRight":      strings.TrimRight,
	"strings.ContainsRune":   strings.ContainsRune,
	"strings.ContainsAny":    strings.ContainsAny,
	"strings.IndexAny":       strings.IndexAny,
	"strings.IndexRune":      strings.IndexRune,
	"strings.ToValidUTF8":    strings.ToValidUTF8,
	"unicode.IsSpace":        unicode.IsSpace,
	"unicode.IsDigit":        unicode.IsDigit,
	"unicode.IsLetter":       unicode.IsLetter,
	"unicode.IsUpper":        unicode.IsUpper,
	"unicode.IsLower":        unicode.IsLower,
	"unicode.IsPunct":        unicode.IsPunct,
	"unicode.IsSymbol":       unicode.IsSymbol,
	"unicode.IsNumber":       unicode.IsNumber,
	"unicode.IsControl":      unicode.IsControl,
	"unicode.IsPrint":        unicode.IsPrint,
	"unicode.IsGraphic":      unicode.IsGraphic,
	"unicode.IsMark":         unicode.IsMark,
	"unicode.ToLower":        unicode.ToLower,
	"unicode.ToUpper":        unicode.ToUpper,
	"unicode/utf8.ValidString": utf8.ValidString,
	"unicode/utf8.RuneCountInString": utf8.RuneCountInString,
	"math.Sqrt":              math.Sqrt,
	"math.Abs":               math.Abs,
	"math.Min":               math.Min,
	"math.Max":               math.Max,
	"math.Floor":             math.Floor,
	"math.Ceil":              math.Ceil,
	"math.Round":             math.Round,
	"math.Trunc":             math.Trunc,
	"math.Pow":               math.Pow,
	"math.Sin":               math.Sin,
	"math.Cos":               math.Cos,
	"math.Atan2":             math.Atan2,
	"math.Log":               math.Log,
	"math.Exp":               math.Exp,
	"math.Mod":               math.Mod,
	"math.Hypot":             math.Hypot,
	"math.IsNaN":             math.IsNaN,
	"math.IsInf":             math.IsInf,
	"math.Inf":               math.Inf,
	"math.NaN":               math.NaN,
	"html.UnescapeString":    html.UnescapeString,
	"html.EscapeString":      html.EscapeString,
	"path/filepath.Ext":      filepath.Ext,
	"path/filepath.Base":     filepath.Base,
	"sort.Strings":           sort.Strings,
	"sort.Ints":              sort.Ints,
	"sort.Float64s":          sort.Float64s,
}

func (m *machine) hostCall(hf interface{}, fn *ssa.Function, args []value) (value, bool) {
	return m.reflectCall(reflect.ValueOf(hf), fn, args)
}

func (m *machine) reflectCall(f reflect.Value, fn *ssa.Function, args []value) (value, bool) {
	ft := f.Type()
	if ft.NumIn() != len(args) || ft.IsVariadic() {
		return nil, false
	}
	in := make([]reflect.Value, len(args))
	var writeBack []func()
	for i, a := range args {
		rv, ok := toHost(a, ft.In(i))
		if !ok {
			return nil, false
		}
		in[i] = rv
		// in-place sorts: copy results back into the interpreter slice
		if s, isS := a.(slc); isS && ft.In(i).Kind() == reflect.Slice {
			s := s
			rv := rv
			writeBack = append(writeBack, func() {
				for k := 0; k < s.ln && k < rv.Len(); k++ {
					m.store(&(*s.arr)[s.off+k], fromHost(rv.Index(k)))
				}
			})
		}
	}
	out := f.Call(in)
	if strings.HasPrefix(fn.String(), "sort.") {
		for _, wb := range writeBack {
			wb()
		}
	}
	res := make([]value, len(out))
	for i, o := range out {
		if o.Type().Implements(reflect.TypeOf((*error)(nil)).Elem()) || o.Type() == reflect.TypeOf((*error)(nil)).Elem() {
			if o.IsNil() {
				res[i] = iface{}
			} else {
				res[i] = m.mkError(o.Interface().(error).Error())
			}
			continue
		}
		res[i] = fromHost(o)
	}
	switch len(res) {
	case 0:
		return nil, true
	case 1:
		return res[0], true
	}
	return tup(res), true
}

func toHost(v value, t reflect.Type) (reflect.Value, bool) {
	switch t.Kind() {
	case reflect.String:
		s, ok := v.(string)
		if !ok {
			return reflect.Value{}, false
		}
		return reflect.ValueOf(s).Convert(t), true
	case reflect.Int, reflect.Int64, reflect.Int32, reflect.Int16, reflect.Int8:
		x, ok := v.(iv)
		if !ok || x.sym() {
			return reflect.Value{}, false
		}
		return reflect.ValueOf(x.int64()).Convert(t), true
	case reflect.Uint, reflect.Uint64, reflect.Uint32, reflect.Uint16, reflect.Uint8:
		x, ok := v.(iv)
		if !ok || x.sym() {
			return reflect.Value{}, false
		}
		return reflect.ValueOf(x.c).Convert(t), true
	case reflect.Float64, reflect.Float32:
		x, ok := v.(fv)
		if !ok || x.sym() {
			return reflect.Value{}, false
		}
		return reflect.ValueOf(x.c).Convert(t), true
	case reflect.Bool:
		x, ok := v.(bv)
		if !ok || x.sym() {
			return reflect.Value{}, false
		}
		return reflect.ValueOf(x.c), true
	case reflect.Slice:
		s, ok := v.(slc)
		if !ok {
			return reflect.Value{}, false
		}
		out := reflect.MakeSlice(t, s.ln, s.ln)
		for i := 0; i < s.ln; i++ {
			e, ok := toHost((*s.arr)[s.off+i], t.Elem())
			if !ok {
				return reflect.Value{}, false
			}
			out.Index(i).Set(e)
		}
		if s.arr == nil {
			return reflect.Zero(t), true
		}
		return out, true
	}
	return reflect.Value{}, false
}

func fromHost(o reflect.Value) value {
	switch o.Kind() {
	case reflect.String:
		return o.String()
	case reflect.Int, reflect.Int64:
		return mk(64, true, uint64(o.Int()))
	case reflect.Int32:
		return mk(32, true, uint64(o.Int()))
	case reflect.Int16:
		return mk(16, true, uint64(o.Int()))
	case reflect.Int8:
		return mk(8, true, uint64(o.Int()))
	case reflect.Uint, reflect.Uint64:
		return mk(64, false, o.Uint())
	case reflect.Uint32:
		return mk(32, false, o.Uint())
	case reflect.Uint16:
		return mk(16, false, o.Uint())
	case reflect.Uint8:
		return mk(8, false, o.Uint())
	case reflect.Float64, reflect.Float32:
		return fv{c: o.Float()}
	case reflect.Bool:
		return bv{c: o.Bool()}
	case reflect.Slice:
		if o.IsNil() {
			return slc{}
		}
		arr := make([]value, o.Len())
		for i := range arr {
			arr[i] = fromHost(o.Index(i))
		}
		return slc{arr: &arr, ln: len(arr), cp: len(arr)}
	}
	panic(abortPath{"unsupported:host result kind " + o.Kind().String()})
}

type fileState struct {
	content []iv
	pos     int
}

// ioEOF returns the io.EOF error value (the package variable itself, so comparisons by identity hold).
func (m *machine) ioEOF() value {
	for _, p := range m.prog.AllPackages() {
		if p.Pkg.Path() == "io" {
			if g, ok := p.Members["EOF"].(*ssa.Global); ok {
				return *m.global(g)
			}
		}
	}
	panic(abortPath{"internal:io.EOF not found"})
}

// mkFileInfo builds an *os.fileStat (the real type, so its interpreted methods work) with the given size.
func (m *machine) mkFileInfo(size int64) value {
	for _, p := range m.prog.AllPackages() {
		if p.Pkg.Path() == "os" {
			t, ok := p.Members["fileStat"].(*ssa.Type)
			if !ok {
				break
			}
			st := t.Type().Underlying().(*types.Struct)
			v := zero(t.Type()).(agg)
			for i := 0; i < st.NumFields(); i++ {
				if st.Field(i).Name() == "size" {
					v[i] = mkInt(size)
				}
			}
			cell := new(value)
			*cell = v
			return iface{t: types.NewPointer(t.Type()), v: cell}
		}
	}
	panic(abortPath{"internal:os.fileStat not found"})
}
