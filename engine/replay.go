package main

// Native replay: the harness is compiled unchanged as part of the real package (go test
// -overlay, nothing is written to /repo) and run on the solver's input vector.

import (
	"encoding/json"
	"fmt"
	"os"
	"os/exec"
	"path/filepath"
	"sort"
	"strings"
	"time"
)

type replayCase struct {
	Harness string     `json:"harness"`
	Tier    int        `json:"tier"`
	Inputs  []inputRec `json:"inputs"`
	// informational
	Property string   `json:"property,omitempty"`
	Label    string   `json:"label,omitempty"`
	Site     string   `json:"site,omitempty"`
	Pos      string   `json:"pos,omitempty"`
	PkgDir   string   `json:"pkg_dir"`
	Stack    []string `json:"stack,omitempty"`
	Reached  []string `json:"reached,omitempty"`
	Observed []string `json:"observed,omitempty"`
}

type nativeOutcome struct {
	assertFail []string
	panicMsg   string
	reached    []string
	observed   []string
	done       bool
	desync     bool
	assumeFalse bool
	timeout    bool
	crashed    bool // process died without SYMGO-DONE (fatal error: stack overflow, OOM)
	raw        string
}

type replayer struct {
	eng    *engine
	outDir string
	bins   map[string]string // pkgDir -> test binary
	errs   map[string]string
}

func newReplayer(e *engine) *replayer {
	return &replayer{eng: e, outDir: filepath.Join(verifDir, "out", e.prop), bins: map[string]string{}, errs: map[string]string{}}
}

// build compiles the test binary of pkgDir with the harness overlay in native mode.
func (r *replayer) build(pkgDir string) (string, error) {
	if b, ok := r.bins[pkgDir]; ok {
		if b == "" {
			return "", fmt.Errorf("%s", r.errs[pkgDir])
		}
		return b, nil
	}
	e := r.eng
	dir := filepath.Join(r.outDir, "replay", strings.ReplaceAll(pkgDir+"_", "/", "_"))
	os.MkdirAll(dir, 0o755)
	repl := map[string]string{}
	pkgName := e.pkgNames[pkgDir]
	var names []string
	for _, h := range e.harnesses {
		if h.pkgDir == pkgDir {
			names = append(names, h.name)
		}
	}
	sort.Strings(names)
	for ov, src := range e.overlay {
		if filepath.Dir(ov) != filepath.Join(repoDir, pkgDir) {
			continue
		}
		real := filepath.Join(dir, filepath.Base(ov))
		if strings.HasSuffix(ov, "zz_verif_rt.go") {
			src = []byte(strings.Replace(rtNative, "package PKG", "package "+pkgName, 1))
		}
		os.WriteFile(real, src, 0o644)
		repl[ov] = real
	}
	var tb strings.Builder
	tb.WriteString("//go:build " + buildTag + "\n\npackage " + pkgName + "\n\nimport \"testing\"\n\n")
	tb.WriteString("func TestSymgoReplay(t *testing.T) {\n\tvReplayRun(map[string]func(){\n")
	for _, n := range names {
		fmt.Fprintf(&tb, "\t\t%q: %s,\n", n, n)
	}
	tb.WriteString("\t})\n}\n")
	testFile := filepath.Join(dir, "zz_verif_replay_test.go")
	os.WriteFile(testFile, []byte(tb.String()), 0o644)
	repl[filepath.Join(repoDir, pkgDir, "zz_verif_replay_test.go")] = testFile
	ovJSON, _ := json.Marshal(map[string]interface{}{"Replace": repl})
	ovPath := filepath.Join(dir, "overlay.json")
	os.WriteFile(ovPath, ovJSON, 0o644)
	bin := filepath.Join(dir, "replay.test")
	cmd := exec.Command("go", "test", "-c", "-vet=off", "-tags", buildTag, "-overlay", ovPath, "-o", bin, "./"+pkgDir)
	cmd.Dir = repoDir
	cmd.Env = append(os.Environ(), "GOFLAGS=-mod=mod", "GOPROXY=off", "GOSUMDB=off", "GOTOOLCHAIN=local")
	out, err := cmd.CombinedOutput()
	if err != nil {
		r.bins[pkgDir] = ""
		r.errs[pkgDir] = fmt.Sprintf("native build failed: %v: %s", err, string(out))
		return "", fmt.Errorf("%s", r.errs[pkgDir])
	}
	r.bins[pkgDir] = bin
	return bin, nil
}

func (r *replayer) run(pkgDir string, casePath string, timeout time.Duration) (*nativeOutcome, error) {
	bin, err := r.build(pkgDir)
	if err != nil {
		return nil, err
	}
	return runNative(bin, filepath.Join(repoDir, pkgDir), casePath, timeout), nil
}

func runNative(bin, cwd, casePath string, timeout time.Duration) *nativeOutcome {
	sh := fmt.Sprintf("ulimit -v 6000000; ulimit -s 65536; exec %s -test.run '^TestSymgoReplay$' -test.timeout %ds", bin, int(timeout.Seconds()))
	cmd := exec.Command("bash", "-c", sh)
	cmd.Dir = cwd
	cmd.Env = append(os.Environ(), "SYMGO_CASE="+casePath, "GOMAXPROCS=2", "GOMEMLIMIT=3GiB")
	var sb strings.Builder
	cmd.Stdout = &sb
	cmd.Stderr = &sb
	out := &nativeOutcome{}
	if err := cmd.Start(); err != nil {
		out.raw = err.Error()
		return out
	}
	done := make(chan error, 1)
	go func() { done <- cmd.Wait() }()
	select {
	case <-done:
	case <-time.After(timeout + 10*time.Second):
		cmd.Process.Kill()
		<-done
		out.timeout = true
	}
	out.raw = sb.String()
	if len(out.raw) > 1<<16 {
		out.raw = out.raw[:1<<15] + "\n...\n" + out.raw[len(out.raw)-(1<<15):]
	}
	for _, l := range strings.Split(sb.String(), "\n") {
		switch {
		case strings.HasPrefix(l, "SYMGO-ASSERT-FAIL "):
			out.assertFail = append(out.assertFail, strings.TrimPrefix(l, "SYMGO-ASSERT-FAIL "))
		case strings.HasPrefix(l, "SYMGO-PANIC "):
			out.panicMsg = strings.TrimPrefix(l, "SYMGO-PANIC ")
		case strings.HasPrefix(l, "SYMGO-REACH "):
			out.reached = append(out.reached, strings.TrimPrefix(l, "SYMGO-REACH "))
		case strings.HasPrefix(l, "SYMGO-OBS "):
			out.observed = append(out.observed, strings.TrimPrefix(l, "SYMGO-OBS "))
		case l == "SYMGO-DONE":
			out.done = true
		case strings.HasPrefix(l, "SYMGO-DESYNC"):
			out.desync = true
		case l == "SYMGO-ASSUME-FALSE":
			out.assumeFalse = true
		case strings.Contains(l, "panic: test timed out"):
			out.timeout = true
		}
	}
	if !out.done && !out.timeout {
		out.crashed = true
	}
	return out
}

// confirms: does the native outcome reproduce the engine's violation?
func confirms(label string, o *nativeOutcome) (bool, string) {
	switch {
	case strings.HasPrefix(label, "assert:"):
		want := strings.TrimPrefix(label, "assert:")
		for _, a := range o.assertFail {
			if a == want {
				return true, "assertion " + want + " fails natively"
			}
		}
		return false, ""
	case strings.HasPrefix(label, "unwind."):
		if o.timeout {
			return true, "native run did not terminate within the time limit"
		}
		if o.crashed {
			return true, "native run died (stack exhaustion / out of memory): " + firstLines(o.raw, 2)
		}
		return false, ""
	case label == "alloc.big":
		if o.crashed || o.timeout || strings.Contains(o.panicMsg, "out of range") || strings.Contains(o.panicMsg, "too large") || strings.Contains(o.raw, "out of memory") || strings.Contains(o.raw, "cannot allocate") {
			return true, "native run fails on allocation: " + firstLines(o.raw, 2)
		}
		return false, ""
	case strings.HasPrefix(label, "panic."), label == "glob.write":
		if o.panicMsg != "" {
			return true, "native panic: " + o.panicMsg
		}
		if o.crashed {
			return true, "native run died: " + firstLines(o.raw, 2)
		}
		return false, ""
	}
	return false, ""
}

func firstLines(s string, n int) string {
	ls := strings.Split(strings.TrimSpace(s), "\n")
	if len(ls) > n {
		ls = ls[:n]
	}
	return strings.Join(ls, " | ")
}
