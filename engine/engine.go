package main

import (
	"fmt"
	"go/ast"
	"go/parser"
	"go/token"
	"go/types"
	"os"
	"path/filepath"
	"sort"
	"strconv"
	"strings"
	"sync"
	"time"

	"golang.org/x/tools/go/packages"
	"golang.org/x/tools/go/ssa"
	"golang.org/x/tools/go/ssa/ssautil"
)

const buildTag = "verif_harness"

// repoDir is /repo; SYMGO_REPO overrides it only for developing harnesses against a scratch
// worktree (registered commands never set it, and evidence records the directory used).
var repoDir = func() string {
	if r := os.Getenv("SYMGO_REPO"); r != "" {
		return r
	}
	return "/repo"
}()

// verifDir is /verif unless SYMGO_HOME points at a snapshot of it (background runs).
var verifDir = func() string {
	if h := os.Getenv("SYMGO_HOME"); h != "" {
		return h
	}
	return "/verif"
}()
var harnessDir = verifDir + "/harness"

type harness struct {
	name    string
	pkgDir  string // relative dir in /repo ("" = root)
	file    string // harness source file (absolute, in /verif/harness)
	fn      *ssa.Function
	prop    string
	kernel  string
	desc    string
	tiers   map[string]bool
	real    bool
	fold    bool
	summaries bool
	loopBound, depthBound, stepBound, allocBudget, concCap, iteCap, maxForks, maxPaths int
	hangIsViolation, globWrite, mapOrderAll, appendExact, fmtOpaque, divZeroAssume, noReplay bool
	timeoutMs int
	redirectSpec [][2]string
	redirects    map[string]*ssa.Function
	workers int
	solver  string
	lemmas  bool
	vcFresh bool
}

func defaultHarness() *harness {
	return &harness{tiers: map[string]bool{"quick": true, "thorough": true}, fold: true, summaries: true,
		loopBound: 100000, depthBound: 200, stepBound: 5_000_000, allocBudget: 1 << 20, concCap: 64, iteCap: 1024,
		timeoutMs: 20000, maxPaths: 0}
}

type engine struct {
	prop     string
	tier     int // 0 quick, 1 thorough
	tierName string
	seed     int64
	prog     *ssa.Program
	pkgs     []*packages.Package
	ssaPkgs  []*ssa.Package
	modPath  string
	errT     types.Type
	wrapErrT types.Type
	errIface types.Type
	harnesses []*harness
	harnessFiles map[string]bool // overlay file names (in /repo) that are harness sources
	stale    []string
	loadTime time.Duration
	portfolioBudget time.Duration
	overlay  map[string][]byte
	pkgNames map[string]string // pkgDir -> package name
	nWorkers int
}

func (e *engine) inModule(path string) bool { return strings.HasPrefix(path, e.modPath) }

var interpretableInit = map[string]bool{"unicode": true, "unicode/utf8": true, "unicode/utf16": true, "strconv": true,
	"strings": true, "bytes": true, "bufio": true, "errors": true, "io": true, "sort": true, "slices": true, "cmp": true,
	"math/bits": true, "math": true, "encoding/hex": true, "encoding/csv": true, "net/url": true, "path": true, "path/filepath": true,
	"golang.org/x/net/html": true, "golang.org/x/net/html/atom": true, "html": true, "maps": true, "iter": true,
	"encoding/binary": false, "encoding/xml": true, "archive/zip": true, "compress/flate": true, "compress/zlib": true,
	"hash/adler32": true, "io/fs": true, "internal/oserror": true, "encoding/base64": true, "image/color": true,
	"golang.org/x/text/encoding/charmap": true, "golang.org/x/text/encoding": true, "golang.org/x/text/encoding/internal": true,
	"golang.org/x/text/encoding/internal/identifier": true, "golang.org/x/text/transform": true}

func (e *engine) initAllowed(p string) bool { return interpretableInit[p] || e.inModule(p) }

func (e *engine) isHarnessFn(f *ssa.Function) bool {
	if f == nil {
		return false
	}
	pos := f.Pos()
	if f.Parent() != nil {
		pos = f.Parent().Pos()
	}
	if !pos.IsValid() {
		return false
	}
	fn := e.prog.Fset.Position(pos).Filename
	return e.harnessFiles[fn]
}

// ---- harness discovery

type hdirective struct {
	fn    string
	attrs map[string]string
	redir [][2]string
	desc  string
}

func parseDirectives(path string) (pkgName string, out []hdirective, err error) {
	fset := token.NewFileSet()
	f, err := parser.ParseFile(fset, path, nil, parser.ParseComments)
	if err != nil {
		return "", nil, err
	}
	pkgName = f.Name.Name
	for _, d := range f.Decls {
		fd, ok := d.(*ast.FuncDecl)
		if !ok || fd.Doc == nil || fd.Recv != nil {
			continue
		}
		var hd *hdirective
		for _, c := range fd.Doc.List {
			t := strings.TrimPrefix(c.Text, "//")
			switch {
			case strings.HasPrefix(t, "symgo:harness"):
				hd = &hdirective{fn: fd.Name.Name, attrs: map[string]string{}}
				for _, kv := range strings.Fields(strings.TrimPrefix(t, "symgo:harness")) {
					if i := strings.Index(kv, "="); i > 0 {
						hd.attrs[kv[:i]] = kv[i+1:]
					} else {
						hd.attrs[kv] = "1"
					}
				}
			case strings.HasPrefix(t, "symgo:redirect") && hd != nil:
				fs := strings.Fields(strings.TrimPrefix(t, "symgo:redirect"))
				if len(fs) == 2 {
					hd.redir = append(hd.redir, [2]string{fs[0], fs[1]})
				}
			case strings.HasPrefix(t, "symgo:desc") && hd != nil:
				hd.desc += strings.TrimSpace(strings.TrimPrefix(t, "symgo:desc")) + " "
			}
		}
		if hd != nil {
			out = append(out, *hd)
		}
	}
	return pkgName, out, nil
}

func atoiDef(s string, def int) int {
	if s == "" {
		return def
	}
	n, err := strconv.Atoi(s)
	if err != nil {
		return def
	}
	return n
}

func (e *engine) discover(only string) error {
	e.overlay = map[string][]byte{}
	e.harnessFiles = map[string]bool{}
	e.pkgNames = map[string]string{}
	var files []string
	filepath.Walk(harnessDir, func(p string, info os.FileInfo, err error) error {
		if err == nil && !info.IsDir() && strings.HasSuffix(p, ".go") {
			files = append(files, p)
		}
		return nil
	})
	sort.Strings(files)
	// a package is relevant if one of its harness files has a harness for this property;
	// all harness files of a relevant package are overlaid (they may share helpers)
	relevantDir := map[string]bool{}
	parsed := map[string][]hdirective{}
	pkgOf := map[string]string{}
	for _, f := range files {
		rel, _ := filepath.Rel(harnessDir, f)
		pkgName, dirs, err := parseDirectives(f)
		if err != nil {
			e.stale = append(e.stale, fmt.Sprintf("%s: %v", rel, err))
			continue
		}
		parsed[f] = dirs
		pkgOf[f] = pkgName
		for _, d := range dirs {
			if d.attrs["prop"] == e.prop {
				relevantDir[filepath.Dir(rel)] = true
			}
		}
	}
	for _, f := range files {
		dirs, ok := parsed[f]
		if !ok {
			continue
		}
		rel, _ := filepath.Rel(harnessDir, f)
		dir := filepath.Dir(rel)
		if !relevantDir[dir] {
			continue
		}
		pkgDir := dir
		if dir == "_root" {
			pkgDir = ""
		}
		pkgName := pkgOf[f]
		src, _ := os.ReadFile(f)
		ov := filepath.Join(repoDir, pkgDir, "zz_verif_"+filepath.Base(f))
		e.overlay[ov] = src
		e.harnessFiles[ov] = true
		e.pkgNames[pkgDir] = pkgName
		for _, d := range dirs {
			if d.attrs["prop"] != e.prop {
				continue
			}
			if only != "" {
				hit := false
				for _, o := range strings.Split(only, ",") {
					if strings.Contains(d.fn, o) {
						hit = true
					}
				}
				if !hit {
					continue
				}
			}
			h := defaultHarness()
			h.name, h.pkgDir, h.file, h.prop, h.kernel, h.desc = d.fn, pkgDir, f, e.prop, d.attrs["kernel"], strings.TrimSpace(d.desc)
			if t, ok := d.attrs["tiers"]; ok {
				h.tiers = map[string]bool{}
				for _, x := range strings.Split(t, ",") {
					h.tiers[x] = true
				}
			}
			a := d.attrs
			h.real = a["real"] == "1"
			if v, ok := a["fold"]; ok {
				h.fold = v == "1"
			}
			if v, ok := a["sum"]; ok {
				h.summaries = v == "1"
			}
			h.loopBound = atoiDef(a["loop"], h.loopBound)
			h.depthBound = atoiDef(a["depth"], h.depthBound)
			h.stepBound = atoiDef(a["steps"], h.stepBound)
			h.allocBudget = atoiDef(a["alloc"], h.allocBudget)
			h.concCap = atoiDef(a["conc"], h.concCap)
			h.iteCap = atoiDef(a["itecap"], h.iteCap)
			h.maxForks = atoiDef(a["maxforks"], 0)
			h.maxPaths = atoiDef(a["maxpaths"], 0)
			h.timeoutMs = atoiDef(a["timeout"], h.timeoutMs)
			h.workers = atoiDef(a["workers"], 0)
			h.solver = a["solver"]
			// second-solver diff (cross-check runs): SYMGO_SOLVER=cvc5|z3-new replaces the main back
			// end of every harness; registered commands do not set it
			if sv := os.Getenv("SYMGO_SOLVER"); sv != "" {
				h.solver = sv
			}
			h.lemmas = a["lemmas"] != "0"
			h.vcFresh = a["vc"] == "fresh"
			h.hangIsViolation = a["hang"] == "1"
			h.globWrite = a["globwrite"] == "1"
			h.mapOrderAll = a["maporder"] == "all"
			h.appendExact = a["append"] == "exact"
			h.fmtOpaque = a["fmtopaque"] != "0"
			h.divZeroAssume = a["divzero"] == "assume"
			h.noReplay = a["noreplay"] == "1"
			h.redirectSpec = d.redir
			e.harnesses = append(e.harnesses, h)
		}
	}
	for dir, name := range e.pkgNames {
		ov := filepath.Join(repoDir, dir, "zz_verif_rt.go")
		e.overlay[ov] = []byte(strings.Replace(rtEngine, "package PKG", "package "+name, 1))
		e.harnessFiles[ov] = true
	}
	if len(e.harnesses) == 0 {
		return fmt.Errorf("no harness for property %s", e.prop)
	}
	return nil
}

func (e *engine) load() error {
	t0 := time.Now()
	var patterns []string
	for dir := range e.pkgNames {
		patterns = append(patterns, "./"+dir)
	}
	sort.Strings(patterns)
	for attempt := 0; attempt < 8; attempt++ {
		cfg := &packages.Config{Mode: packages.LoadAllSyntax, Dir: repoDir, Overlay: e.overlay,
			BuildFlags: []string{"-tags=" + buildTag},
			Env:        append(os.Environ(), "GOFLAGS=-mod=mod", "GOPROXY=off", "GOSUMDB=off", "GOTOOLCHAIN=local")}
		pkgs, err := packages.Load(cfg, patterns...)
		if err != nil {
			return err
		}
		// staleness: drop harness files that no longer type-check
		bad := map[string]bool{}
		otherErr := ""
		packages.Visit(pkgs, nil, func(p *packages.Package) {
			for _, pe := range p.Errors {
				file := pe.Pos
				if i := strings.Index(file, ":"); i > 0 {
					file = file[:i]
				}
				if e.harnessFiles[file] && !strings.HasSuffix(file, "zz_verif_rt.go") {
					if !bad[file] {
						e.stale = append(e.stale, file+": "+pe.Msg)
					}
					bad[file] = true
				} else if otherErr == "" {
					otherErr = pe.Error()
				}
			}
		})
		if len(bad) > 0 {
			for f := range bad {
				delete(e.overlay, f)
				var keep []*harness
				for _, h := range e.harnesses {
					if filepath.Join(repoDir, h.pkgDir, "zz_verif_"+filepath.Base(h.file)) != f {
						keep = append(keep, h)
					}
				}
				e.harnesses = keep
			}
			continue
		}
		if otherErr != "" {
			return fmt.Errorf("repository does not type-check: %s", otherErr)
		}
		e.pkgs = pkgs
		prog, ssapkgs := ssautil.AllPackages(pkgs, ssa.InstantiateGenerics)
		prog.Build()
		e.prog, e.ssaPkgs = prog, ssapkgs
		break
	}
	if e.prog == nil {
		return fmt.Errorf("could not load packages")
	}
	e.modPath = "github.com/tsawler/tabula"
	for _, p := range e.prog.AllPackages() {
		switch p.Pkg.Path() {
		case "errors":
			e.errT = types.NewPointer(p.Type("errorString").Type())
		case "fmt":
			if t := p.Type("wrapError"); t != nil {
				e.wrapErrT = types.NewPointer(t.Type())
			}
		}
	}
	e.errIface = types.Universe.Lookup("error").Type()
	// resolve harness functions and redirections
	byDir := map[string]*ssa.Package{}
	for _, sp := range e.ssaPkgs {
		if sp == nil {
			continue
		}
		rel := strings.TrimPrefix(strings.TrimPrefix(sp.Pkg.Path(), e.modPath), "/")
		byDir[rel] = sp
	}
	var keep []*harness
	for _, h := range e.harnesses {
		sp := byDir[h.pkgDir]
		if sp == nil || sp.Func(h.name) == nil {
			e.stale = append(e.stale, h.name+": function not found")
			continue
		}
		h.fn = sp.Func(h.name)
		h.redirects = map[string]*ssa.Function{}
		ok := true
		for _, r := range h.redirectSpec {
			target := sp.Func(r[1])
			if target == nil {
				e.stale = append(e.stale, h.name+": redirect target "+r[1]+" not found")
				ok = false
				break
			}
			if !e.calleeExists(r[0]) {
				e.stale = append(e.stale, h.name+": redirected callee "+r[0]+" not found")
				ok = false
				break
			}
			h.redirects[r[0]] = target
		}
		if ok {
			keep = append(keep, h)
		}
	}
	e.harnesses = keep
	e.loadTime = time.Since(t0)
	return nil
}

func (e *engine) lookupFunc(pkg, name string) *ssa.Function {
	for _, p := range e.prog.AllPackages() {
		if p.Pkg.Path() == pkg {
			return p.Func(name)
		}
	}
	return nil
}

// calleeExists checks that a redirect source names a real function (staleness guard).
func (e *engine) calleeExists(name string) bool {
	for _, p := range e.prog.AllPackages() {
		for _, mem := range p.Members {
			switch mm := mem.(type) {
			case *ssa.Function:
				if mm.String() == name {
					return true
				}
			case *ssa.Type:
				for _, t := range []types.Type{mm.Type(), types.NewPointer(mm.Type())} {
					ms := e.prog.MethodSets.MethodSet(t)
					for i := 0; i < ms.Len(); i++ {
						if f := e.prog.MethodValue(ms.At(i)); f != nil && f.String() == name {
							return true
						}
					}
				}
			}
		}
	}
	return false
}

// ---- package initialisation

func (m *machine) ensureInit(p *ssa.Package) {
	if m.initDone[p] {
		return
	}
	m.initDone[p] = true
	if !m.eng.initAllowed(p.Pkg.Path()) {
		return
	}
	initFn := p.Func("init")
	if initFn == nil {
		return
	}
	savedLogging, savedInit, savedSteps, savedDepth, savedStack := m.logging, m.inInit, m.steps, m.depth, m.stack
	m.logging, m.inInit = false, true
	m.depth = 0
	func() {
		defer func() {
			if r := recover(); r != nil {
				if a, ok := r.(abortPath); ok {
					m.st.fnSeen["note:init of "+p.Pkg.Path()+" incomplete: "+a.why] = true
					return
				}
				panic(r)
			}
		}()
		m.callBody(initFn, nil, nil)
	}()
	m.logging, m.inInit, m.steps, m.depth, m.stack = savedLogging, savedInit, savedSteps, savedDepth, savedStack
	// a package initialised lazily in the middle of a path: its variables (and everything reachable from
	// them) are package-level memory all the same - the glob.write check must see writes to them
	if m.preexist != nil && m.eng.inModule(p.Pkg.Path()) {
		for g, cell := range m.globals {
			if g.Pkg == p {
				m.markCell(cell)
			}
		}
	}
}

// ---- exploration driver

type workQueue struct {
	mu      sync.Mutex
	cond    *sync.Cond
	items   []pendingItem
	active  int
	started int
	cap     int
	capped  bool
}

func (q *workQueue) pop() (pendingItem, bool) {
	q.mu.Lock()
	defer q.mu.Unlock()
	for {
		if len(q.items) > 0 {
			if q.cap > 0 && q.started >= q.cap {
				q.capped = true
				q.items = nil
				q.cond.Broadcast()
				return pendingItem{}, false
			}
			it := q.items[len(q.items)-1]
			q.items = q.items[:len(q.items)-1]
			q.active++
			q.started++
			return it, true
		}
		if q.active == 0 {
			q.cond.Broadcast()
			return pendingItem{}, false
		}
		q.cond.Wait()
	}
}

func (q *workQueue) done(newItems []pendingItem) {
	q.mu.Lock()
	q.items = append(q.items, newItems...)
	q.active--
	q.mu.Unlock()
	q.cond.Broadcast()
}

type harnessResult struct {
	h        *harness
	st       stats
	wall     time.Duration
	queries  int
	solverT  time.Duration
	maxQ     time.Duration
	unknowns int
	restarts int
	capped   bool
	deadline bool
}

func mergeStats(dst *stats, src *stats) {
	dst.paths += src.paths
	dst.completed += src.completed
	dst.folds += src.folds
	dst.raced += src.raced
	dst.domDecided += src.domDecided
	dst.summaries += src.summaries
	dst.inconclusive += src.inconclusive
	dst.vcs += src.vcs
	dst.vcUnsat += src.vcUnsat
	for k, v := range src.aborted {
		dst.aborted[k] += v
	}
	for k := range src.fnSeen {
		dst.fnSeen[k] = true
	}
	for k, v := range src.unsupported {
		dst.unsupported[k] += v
	}
	for k, v := range src.viol {
		if _, ok := dst.viol[k]; !ok {
			dst.viol[k] = v
		}
	}
	for k, v := range src.violCount {
		dst.violCount[k] += v
	}
	dst.endModels = append(dst.endModels, src.endModels...)
}

func (e *engine) newMachine(h *harness) *machine {
	m := &machine{eng: e, h: h, prog: e.prog, tt: newTermTable(), globals: map[*ssa.Global]*value{},
		initDone: map[*ssa.Package]bool{}, sumCache: map[*ssa.Function]bool{}, foldCache: map[*ssa.BasicBlock]*foldRegion{}}
	m.st = newStats()
	return m
}

func (e *engine) runHarness(h *harness, deadline time.Time) *harnessResult {
	t0 := time.Now()
	res := &harnessResult{h: h, st: newStats()}
	q := &workQueue{cap: h.maxPaths}
	q.cond = sync.NewCond(&q.mu)
	q.items = []pendingItem{{}}
	n := e.nWorkers
	if h.workers > 0 && h.workers < n {
		n = h.workers
	}
	var wg sync.WaitGroup
	var mu sync.Mutex
	for w := 0; w < n; w++ {
		wg.Add(1)
		go func(w int) {
			defer wg.Done()
			m := e.newMachine(h)
			m.z = newSolver(h.solver, h.real, h.timeoutMs)
			defer m.z.close()
			// run package initialisation of the harness package up front (concrete)
			func() {
				defer func() {
					if r := recover(); r != nil {
						if _, ok := r.(abortPath); !ok {
							panic(r)
						}
					}
				}()
				m.ensureInit(h.fn.Pkg)
			}()
			if h.globWrite {
				m.markPreexisting()
			}
			m.logging = true
			for {
				if time.Now().After(deadline) {
					mu.Lock()
					res.deadline = true
					mu.Unlock()
					q.mu.Lock()
					q.items = nil
					q.mu.Unlock()
				}
				it, ok := q.pop()
				if !ok {
					break
				}
				m.runPath(it)
				q.done(m.newPend)
			}
			mu.Lock()
			mergeStats(&res.st, &m.st)
			res.queries += m.z.queries
			res.solverT += m.z.dur
			if m.z.maxq > res.maxQ {
				res.maxQ = m.z.maxq
			}
			res.unknowns += m.z.unknowns
			res.restarts += m.z.restarts
			mu.Unlock()
		}(w)
	}
	wg.Wait()
	res.capped = q.capped
	res.wall = time.Since(t0)
	return res
}

func (m *machine) runPath(it pendingItem) {
	m.prefix, m.trace, m.pc, m.inputs, m.nAux, m.steps, m.depth = it.prefix, nil, nil, nil, 0, 0, 0
	m.stack = m.stack[:0]
	m.newPend = nil
	m.reached, m.observed, m.observeT, m.observeS = nil, nil, nil, nil
	m.openFiles = nil
	m.zipHandles = nil
	m.zipContents = nil
	m.fileContents, m.fileState = nil, nil
	m.dom, m.entangled, m.allEntangled = map[string]*dom8{}, map[string]bool{}, false
	m.model, m.modelOK = nil, false
	if it.model != nil {
		m.model = newModel()
		for k, v := range it.model.bv {
			m.model.bv[k] = v
		}
		for k, v := range it.model.bl {
			m.model.bl[k] = v
		}
		for k, v := range it.model.real {
			m.model.real[k] = v
		}
		m.modelOK = true
	} else if len(it.prefix) == 0 {
		m.model, m.modelOK = newModel(), true
	}
	m.st.paths++
	m.z.push()
	defer func() {
		m.z.pop()
		m.rollback()
		if r := recover(); r != nil {
			if a, ok := r.(abortPath); ok {
				k := a.why
				if strings.HasPrefix(k, "unsupported:") {
					m.st.unsupported[k]++
					k = "unsupported"
				}
				m.st.aborted[k]++
				return
			}
			panic(r)
		}
	}()
	m.callBody(m.h.fn, nil, nil)
	m.st.completed++
	m.sampleEnd()
}

// sampleEnd keeps a few end-of-path models for translator validation / evidence samples.
func (m *machine) sampleEnd() {
	if len(m.st.endModels) >= m.eng.samplesPerWorker() {
		return
	}
	if !m.modelOK || m.model == nil {
		r, mod := m.z.check(nil, m.wantAllOrDummy())
		if r != resSat || mod == nil {
			return
		}
		m.model, m.modelOK = mod, true
	}
	obs := append([]string{}, m.observed...)
	m.tt.beginEval()
	for _, o := range m.observeT {
		ev := m.tt.eval(o.t, m.model)
		if !ev.ok {
			return
		}
		if o.sg {
			obs = append(obs, fmt.Sprintf("%s=%d", o.label, sext(ev.u, o.t.w)))
		} else {
			obs = append(obs, fmt.Sprintf("%s=%d", o.label, ev.u))
		}
	}
	for _, o := range m.observeS {
		buf := make([]byte, len(o.bs))
		for i, b := range o.bs {
			if b.sym() {
				ev := m.tt.eval(b.t, m.model)
				if !ev.ok {
					return
				}
				buf[i] = byte(ev.u)
			} else {
				buf[i] = byte(b.c)
			}
		}
		obs[o.slot] = fmt.Sprintf("%s=%q", o.label, string(buf))
	}
	m.st.endModels = append(m.st.endModels, endSample{Inputs: m.fillInputs(m.model), Reached: append([]string{}, m.reached...), Observed: obs})
}

func (e *engine) samplesPerWorker() int {
	if e.tier == 1 {
		return 3
	}
	return 1
}

// markPreexisting records every cell reachable from package-level variables.
func (m *machine) markPreexisting() {
	m.preexist = map[*value]bool{}
	m.preMaps = map[*amap]bool{}
	// package-level variables of the repository only: the standard library's own lazily filled tables
	// (sync.Once initialisers, caches) are not the property's concern and would be false alarms
	for g, p := range m.globals {
		if g.Pkg != nil && m.eng.inModule(g.Pkg.Pkg.Path()) {
			m.markCell(p)
		}
	}
}

// markCell records a cell and everything reachable from it as pre-existing memory.
func (m *machine) markCell(root *value) {
	seenArr := map[*[]value]bool{}
	var walk func(p *value)
	var walkVal func(v value)
	walkVal = func(v value) {
		switch x := v.(type) {
		case agg:
			for i := range x {
				walk(&x[i])
			}
		case *value:
			if x != nil && !m.preexist[x] {
				walk(x)
			}
		case slc:
			if x.arr != nil && !seenArr[x.arr] {
				seenArr[x.arr] = true
				for i := range *x.arr {
					walk(&(*x.arr)[i])
				}
			}
		case *amap:
			if x != nil && !m.preMaps[x] {
				m.preMaps[x] = true
				for i := range x.vals {
					walkVal(x.keys[i])
					walkVal(x.vals[i])
				}
			}
		case iface:
			walkVal(x.v)
		case *closure:
			if x != nil {
				for _, b := range x.bind {
					walkVal(b)
				}
			}
		}
	}
	walk = func(p *value) {
		if m.preexist[p] {
			return
		}
		m.preexist[p] = true
		walkVal(*p)
	}
	walk(root)
}
