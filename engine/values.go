package main

import (
	"fmt"
	"go/constant"
	"go/types"
	"math"
	"strings"

	"golang.org/x/tools/go/ssa"
)

type value interface{}

type iv struct { // integer of Go width w
	w  int
	sg bool
	c  uint64
	t  *T // non-nil: symbolic
}
type bv struct { // bool
	c bool
	t *T
}
type fv struct { // float64 (symbolic: SMT Real)
	c float64
	t *T
}

func (x iv) sym() bool { return x.t != nil }
func (x bv) sym() bool { return x.t != nil }
func (x fv) sym() bool { return x.t != nil }

func mk(w int, sg bool, c uint64) iv { return iv{w: w, sg: sg, c: c & mask(w)} }
func mkInt(i int64) iv                { return mk(64, true, uint64(i)) }
func (x iv) int64() int64 {
	if x.sg {
		return sext(x.c, x.w)
	}
	return int64(x.c)
}

// sstr: a string with at least one symbolic byte (length is concrete)
type sstr []iv

type agg []value // struct or array
type slc struct {
	arr         *[]value
	off, ln, cp int
}
type amap struct {
	keys, vals []value
}
type iface struct {
	t types.Type
	v value
}
type closure struct {
	fn   *ssa.Function
	bind []value
}
type tup []value
type mapiter struct {
	keys, vals []value
	i          int
}
type striter struct {
	bs []iv
	i  int
}

// hostObj wraps a host-native Go object (compiled regexp etc.)
type hostObj struct {
	kind string
	obj  interface{}
}

type abortPath struct{ why string }

func abortf(format string, a ...interface{}) {
	panic(abortPath{fmt.Sprintf(format, a...)})
}

func strBytes(v value) []iv {
	switch v := v.(type) {
	case string:
		out := make([]iv, len(v))
		for i := range out {
			out[i] = iv{w: 8, c: uint64(v[i])}
		}
		return out
	case sstr:
		return []iv(v)
	}
	panic(abortPath{fmt.Sprintf("unsupported:not a string: %T", v)})
}

func mkStr(bs []iv) value {
	allc := true
	for _, b := range bs {
		if b.sym() {
			allc = false
			break
		}
	}
	if allc {
		x := make([]byte, len(bs))
		for i := range bs {
			x[i] = byte(bs[i].c)
		}
		return string(x)
	}
	return sstr(append([]iv{}, bs...))
}

func isStr(v value) bool {
	switch v.(type) {
	case string, sstr:
		return true
	}
	return false
}

func strLen(v value) int {
	switch v := v.(type) {
	case string:
		return len(v)
	case sstr:
		return len(v)
	}
	panic(abortPath{"unsupported:not a string"})
}

func intInfo(t types.Type) (w int, sg bool, ok bool) {
	b, isB := t.Underlying().(*types.Basic)
	if !isB {
		return
	}
	switch b.Kind() {
	case types.Int, types.Int64, types.UntypedInt:
		return 64, true, true
	case types.Int32, types.UntypedRune:
		return 32, true, true
	case types.Int16:
		return 16, true, true
	case types.Int8:
		return 8, true, true
	case types.Uint, types.Uint64, types.Uintptr:
		return 64, false, true
	case types.Uint32:
		return 32, false, true
	case types.Uint16:
		return 16, false, true
	case types.Uint8:
		return 8, false, true
	}
	return
}

func zero(t types.Type) value {
	if w, sg, ok := intInfo(t); ok {
		return mk(w, sg, 0)
	}
	switch u := t.Underlying().(type) {
	case *types.Basic:
		switch {
		case u.Info()&types.IsBoolean != 0:
			return bv{}
		case u.Info()&types.IsString != 0:
			return ""
		case u.Info()&types.IsFloat != 0:
			return fv{}
		case u.Kind() == types.UnsafePointer:
			return (*value)(nil)
		case u.Kind() == types.UntypedNil:
			return nil
		}
	case *types.Struct:
		a := make(agg, u.NumFields())
		for i := range a {
			a[i] = zero(u.Field(i).Type())
		}
		return a
	case *types.Array:
		a := make(agg, u.Len())
		if u.Len() > 0 {
			z := zero(u.Elem())
			if _, isAgg := z.(agg); isAgg {
				for i := range a {
					a[i] = zero(u.Elem())
				}
			} else {
				for i := range a {
					a[i] = z
				}
			}
		}
		return a
	case *types.Pointer:
		return (*value)(nil)
	case *types.Slice:
		return slc{}
	case *types.Map:
		return (*amap)(nil)
	case *types.Interface:
		return iface{}
	case *types.Signature:
		return (*closure)(nil)
	case *types.Tuple:
		return tup(nil)
	case *types.Chan:
		return nil
	}
	panic(abortPath{"unsupported:zero " + t.String()})
}

func copyVal(v value) value {
	if a, ok := v.(agg); ok {
		b := make(agg, len(a))
		for i := range a {
			b[i] = copyVal(a[i])
		}
		return b
	}
	return v
}

func constVal(c *ssa.Const) value {
	t := c.Type()
	if c.Value == nil {
		return zero(t)
	}
	if w, sg, ok := intInfo(t); ok {
		if i, exact := constant.Int64Val(constant.ToInt(c.Value)); exact {
			return mk(w, sg, uint64(i))
		}
		u, _ := constant.Uint64Val(constant.ToInt(c.Value))
		return mk(w, sg, u)
	}
	switch b := t.Underlying().(type) {
	case *types.Basic:
		switch {
		case b.Info()&types.IsBoolean != 0:
			return bv{c: constant.BoolVal(c.Value)}
		case b.Info()&types.IsString != 0:
			return constant.StringVal(c.Value)
		case b.Info()&types.IsFloat != 0:
			f, _ := constant.Float64Val(c.Value)
			return fv{c: f}
		}
	}
	panic(abortPath{"unsupported:const " + t.String()})
}

// describe renders a value for evidence samples / debugging.
func describe(v value) string {
	switch v := v.(type) {
	case nil:
		return "nil"
	case iv:
		if v.sym() {
			return "<sym>"
		}
		if v.sg {
			return fmt.Sprint(v.int64())
		}
		return fmt.Sprint(v.c)
	case bv:
		if v.sym() {
			return "<symbool>"
		}
		return fmt.Sprint(v.c)
	case fv:
		if v.sym() {
			return "<symreal>"
		}
		return fmt.Sprint(v.c)
	case string:
		return fmt.Sprintf("%q", v)
	case sstr:
		return fmt.Sprintf("<sstr len %d>", len(v))
	case agg:
		var parts []string
		for _, e := range v {
			parts = append(parts, describe(e))
		}
		return "{" + strings.Join(parts, " ") + "}"
	case slc:
		return fmt.Sprintf("slice[%d]", v.ln)
	case iface:
		if v.t == nil {
			return "nil-iface"
		}
		return "iface(" + v.t.String() + ")"
	}
	return fmt.Sprintf("%T", v)
}

func f64bits(f float64) uint64 { return math.Float64bits(f) }
