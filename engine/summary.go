package main

// Leaf summaries (state merging at call granularity) and pure-region if-conversion.

import (
	"go/token"
	"go/types"

	"golang.org/x/tools/go/ssa"
)

type sumDef struct{}

func scalarT(t types.Type) bool {
	if _, _, ok := intInfo(t); ok {
		return true
	}
	if b, ok := t.Underlying().(*types.Basic); ok {
		return b.Info()&(types.IsBoolean|types.IsFloat) != 0
	}
	return false
}

// summarizable: loop-free, memory-free function over scalars calling only such functions.
func (m *machine) summarizable(fn *ssa.Function) bool {
	if v, ok := m.sumCache[fn]; ok {
		return v
	}
	m.sumCache[fn] = false // recursion guard
	if fn.Blocks == nil || len(fn.FreeVars) > 0 || fn.Signature.Results().Len() != 1 || !scalarT(fn.Signature.Results().At(0).Type()) {
		return false
	}
	if fn.Pkg == nil || !m.eng.inModule(fn.Pkg.Pkg.Path()) {
		return false
	}
	for _, p := range fn.Params {
		if !scalarT(p.Type()) {
			return false
		}
	}
	col := map[*ssa.BasicBlock]int{}
	var cyc func(b *ssa.BasicBlock) bool
	cyc = func(b *ssa.BasicBlock) bool {
		col[b] = 1
		for _, su := range b.Succs {
			if col[su] == 1 || (col[su] == 0 && cyc(su)) {
				return true
			}
		}
		col[b] = 2
		return false
	}
	if cyc(fn.Blocks[0]) {
		return false
	}
	for _, b := range fn.Blocks {
		for _, in := range b.Instrs {
			switch in := in.(type) {
			case *ssa.BinOp:
				if in.Op == token.QUO || in.Op == token.REM {
					return false
				}
			case *ssa.UnOp:
				if in.Op == token.MUL {
					return false
				}
			case *ssa.Phi, *ssa.If, *ssa.Jump, *ssa.Return, *ssa.Convert, *ssa.ChangeType, *ssa.DebugRef:
			case *ssa.Call:
				c := in.Common().StaticCallee()
				if c == nil || !m.summarizable(c) {
					return false
				}
			default:
				return false
			}
		}
	}
	m.sumCache[fn] = true
	return true
}

// applySummary explores all syntactic paths of a leaf function on the given arguments
// without the solver and returns one ite term. ok=false if the leaf cannot be merged.
func (m *machine) applySummary(fn *ssa.Function, args []value, pos token.Pos) (res value, ok bool) {
	type pathRes struct {
		guard []*T
		v     value
	}
	var out []pathRes
	saved := struct {
		prefix, trace []decision
		pend          []pendingItem
		guard         []*T
	}{m.prefix, m.trace, m.newPend, m.sumGuard}
	defer func() {
		m.prefix, m.trace, m.newPend, m.sumGuard = saved.prefix, saved.trace, saved.pend, saved.guard
		if r := recover(); r != nil {
			if a, isA := r.(abortPath); isA && (a.why == "summary-abort" || a.why == "fold-abort") {
				m.inSummary--
				m.sumCache[fn] = false
				res, ok = nil, false
				return
			}
			m.inSummary--
			panic(r)
		}
	}()
	m.inSummary++
	pend := [][]decision{nil}
	for len(pend) > 0 {
		if len(out) > 64 {
			panic(abortPath{"summary-abort"})
		}
		p := pend[len(pend)-1]
		pend = pend[:len(pend)-1]
		m.prefix, m.trace, m.newPend, m.sumGuard = p, nil, nil, nil
		v := m.callBody(fn, args, nil)
		out = append(out, pathRes{guard: m.sumGuard, v: v})
		for _, np := range m.newPend {
			pend = append(pend, np.prefix)
		}
	}
	m.inSummary--
	acc := out[len(out)-1].v
	for i := len(out) - 2; i >= 0; i-- {
		acc = m.iteValue(m.tt.and(out[i].guard...), out[i].v, acc)
	}
	if len(out) > 1 {
		m.st.summaries++
	}
	return acc, true
}

// sumDecide: branch decision inside a summary (no solver, both sides explored).
func (m *machine) sumDecide(c bv) bool {
	pos := len(m.trace)
	var taken bool
	if pos < len(m.prefix) {
		taken = m.prefix[pos].taken
	} else {
		taken = true
		alt := append(append([]decision{}, m.trace...), decision{kind: 'b', taken: false})
		m.newPend = append(m.newPend, pendingItem{prefix: alt})
	}
	m.trace = append(m.trace, decision{kind: 'b', taken: taken})
	if taken {
		m.sumGuard = append(m.sumGuard, c.t)
	} else {
		m.sumGuard = append(m.sumGuard, m.tt.not(c.t))
	}
	return taken
}

// ---------------------------------------------------------------- if-conversion

type foldRegion struct {
	in    map[*ssa.BasicBlock]bool
	order []*ssa.BasicBlock
}

type foldEdge struct {
	from, to *ssa.BasicBlock
	cond     *T
}

// pureBody: only side-effect-free instructions, ending in If or Jump.
func (m *machine) pureBody(b *ssa.BasicBlock) bool {
	for i, in := range b.Instrs {
		last := i == len(b.Instrs)-1
		switch in := in.(type) {
		case *ssa.Phi:
		case *ssa.BinOp:
			if in.Op == token.QUO || in.Op == token.REM {
				if _, isF := in.X.Type().Underlying().(*types.Basic); !isF || in.X.Type().Underlying().(*types.Basic).Info()&types.IsFloat == 0 {
					return false
				}
				return false
			}
		case *ssa.UnOp, *ssa.Convert, *ssa.ChangeType, *ssa.DebugRef, *ssa.Extract, *ssa.Index, *ssa.Field,
			*ssa.FieldAddr, *ssa.IndexAddr, *ssa.Lookup, *ssa.Slice:
			if lk, isL := in.(*ssa.Lookup); isL {
				if _, isMap := lk.X.Type().Underlying().(*types.Map); isMap {
					return false
				}
			}
		case *ssa.Call:
			if bi, isB := in.Common().Value.(*ssa.Builtin); isB && (bi.Name() == "len" || bi.Name() == "cap") {
				break
			}
			c := in.Common().StaticCallee()
			if c == nil || !m.summarizable(c) {
				return false
			}
		case *ssa.If, *ssa.Jump:
			if !last {
				return false
			}
		default:
			return false
		}
	}
	return true
}

func (m *machine) regionFor(fn *ssa.Function, b *ssa.BasicBlock) *foldRegion {
	if r, ok := m.foldCache[b]; ok {
		return r
	}
	m.foldCache[b] = nil
	inR := map[*ssa.BasicBlock]bool{}
	for changed := true; changed; {
		changed = false
		seen := map[*ssa.BasicBlock]bool{}
		var visit func(x *ssa.BasicBlock, depth int)
		visit = func(x *ssa.BasicBlock, depth int) {
			if seen[x] || depth > 16 {
				return
			}
			seen[x] = true
			for _, su := range x.Succs {
				if su == b {
					continue
				}
				if !inR[su] && m.pureBody(su) {
					all := true
					for _, p := range su.Preds {
						if p != b && !inR[p] {
							all = false
						}
					}
					if all {
						inR[su] = true
						changed = true
					}
				}
				if inR[su] {
					visit(su, depth+1)
				}
			}
		}
		visit(b, 0)
	}
	if len(inR) < 2 {
		return nil
	}
	indeg := map[*ssa.BasicBlock]int{}
	for x := range inR {
		for _, p := range x.Preds {
			if inR[p] {
				indeg[x]++
			}
		}
	}
	var order, ready []*ssa.BasicBlock
	for _, x := range fn.Blocks {
		if inR[x] && indeg[x] == 0 {
			ready = append(ready, x)
		}
	}
	for len(ready) > 0 {
		x := ready[0]
		ready = ready[1:]
		order = append(order, x)
		for _, su := range x.Succs {
			if inR[su] {
				indeg[su]--
				if indeg[su] == 0 {
					ready = append(ready, su)
				}
			}
		}
	}
	if len(order) != len(inR) {
		return nil // cyclic
	}
	r := &foldRegion{in: inR, order: order}
	m.foldCache[b] = r
	return r
}

// tryFold: if-conversion of the maximal pure DAG region below a symbolic If.
func (fr *frame) tryFold(b *ssa.BasicBlock, c bv) (nb *ssa.BasicBlock, ok bool) {
	m := fr.m
	reg := m.regionFor(fr.fn, b)
	if reg == nil {
		return nil, false
	}
	tt := m.tt
	in := map[*ssa.BasicBlock][]foldEdge{}
	var exits []foldEdge
	emit := func(e foldEdge) {
		if e.cond.op == "false" {
			return
		}
		if reg.in[e.to] {
			in[e.to] = append(in[e.to], e)
		} else {
			exits = append(exits, e)
		}
	}
	emit(foldEdge{b, b.Succs[0], c.t})
	emit(foldEdge{b, b.Succs[1], tt.not(c.t)})
	fail := false
	merge := func(phi *ssa.Phi, edges []foldEdge, blk *ssa.BasicBlock) value {
		var acc value
		for i := len(edges) - 1; i >= 0; i-- {
			var v value
			for k, p := range blk.Preds {
				if p == edges[i].from {
					v = fr.get(phi.Edges[k])
				}
			}
			if acc == nil {
				acc = v
				continue
			}
			if isScalar(acc) && isScalar(v) {
				acc = m.iteValue(edges[i].cond, v, acc)
				continue
			}
			if !sameRef(acc, v) {
				fail = true
			}
		}
		return acc
	}
	savedSteps := m.steps
	m.inFold++
	func() {
		defer func() {
			m.inFold--
			if r := recover(); r != nil {
				if a, isA := r.(abortPath); isA && (a.why == "fold-abort" || a.why == "summary-abort") {
					fail = true
					return
				}
				if a, isA := r.(abortPath); isA && len(a.why) > 9 && (a.why[:9] == "internal:" || a.why[:9] == "unsupport") {
					fail = true
					return
				}
				panic(r)
			}
		}()
		for _, blk := range reg.order {
			edges := in[blk]
			if len(edges) == 0 {
				continue // not reachable in this context
			}
			cs := make([]*T, len(edges))
			for i, e := range edges {
				cs[i] = e.cond
			}
			entry := tt.or(cs...)
			for _, ins := range blk.Instrs {
				switch ins := ins.(type) {
				case *ssa.Phi:
					fr.env[ins] = merge(ins, edges, blk)
				case *ssa.If:
					cc := fr.get(ins.Cond).(bv)
					if !cc.sym() {
						if cc.c {
							emit(foldEdge{blk, blk.Succs[0], entry})
						} else {
							emit(foldEdge{blk, blk.Succs[1], entry})
						}
					} else {
						emit(foldEdge{blk, blk.Succs[0], tt.and(entry, cc.t)})
						emit(foldEdge{blk, blk.Succs[1], tt.and(entry, tt.not(cc.t))})
					}
				case *ssa.Jump:
					emit(foldEdge{blk, blk.Succs[0], entry})
				default:
					fr.exec(ins)
				}
				if fail {
					return
				}
			}
		}
	}()
	m.steps = savedSteps
	if fail {
		return nil, false
	}
	var exitBlocks []*ssa.BasicBlock
	byExit := map[*ssa.BasicBlock][]foldEdge{}
	for _, e := range exits {
		if _, seen := byExit[e.to]; !seen {
			exitBlocks = append(exitBlocks, e.to)
		}
		byExit[e.to] = append(byExit[e.to], e)
	}
	if len(exitBlocks) == 0 || len(exitBlocks) > 6 || (len(exitBlocks) > 1 && len(exits) <= 2) {
		return nil, false
	}
	// check phi mergeability at each exit before committing to any decision
	merged := map[*ssa.BasicBlock]map[*ssa.Phi]value{}
	for _, xb := range exitBlocks {
		mm := map[*ssa.Phi]value{}
		for _, ins := range xb.Instrs {
			phi, isPhi := ins.(*ssa.Phi)
			if !isPhi {
				break
			}
			mm[phi] = merge(phi, byExit[xb], xb)
		}
		merged[xb] = mm
	}
	if fail {
		return nil, false
	}
	chosen := exitBlocks[len(exitBlocks)-1]
	for _, xb := range exitBlocks[:len(exitBlocks)-1] {
		cs := make([]*T, len(byExit[xb]))
		for i, e := range byExit[xb] {
			cs[i] = e.cond
		}
		if m.decide(m.mkBool(tt.or(cs...))) {
			chosen = xb
			break
		}
	}
	m.st.folds++
	fr.folded = merged[chosen]
	fr.prev = byExit[chosen][0].from
	return chosen, true
}

func sameRef(a, b value) bool {
	switch x := a.(type) {
	case *value:
		y, ok := b.(*value)
		return ok && x == y
	case string:
		y, ok := b.(string)
		return ok && x == y
	case slc:
		y, ok := b.(slc)
		return ok && x == y
	case *amap:
		y, ok := b.(*amap)
		return ok && x == y
	case *closure:
		y, ok := b.(*closure)
		return ok && x == y
	case nil:
		return b == nil
	}
	return false
}
