package main

// Signed interval analysis on bit-vector terms: an interval [lo,hi] attached to a term
// holds for every assignment of its variables (it does not depend on the path
// condition). It is used only to fold comparisons whose outcome is the same for all
// values, e.g. the overflow tests of strconv.ParseInt on a few decimal digits.

import (
	"math"
	"math/big"
)

var (
	bigMin64 = big.NewInt(math.MinInt64)
	bigMax64 = big.NewInt(math.MaxInt64)
)

func sMin(w int) int64 {
	if w >= 64 {
		return math.MinInt64
	}
	return -(int64(1) << uint(w-1))
}
func sMax(w int) int64 {
	if w >= 64 {
		return math.MaxInt64
	}
	return (int64(1) << uint(w-1)) - 1
}

func (t *T) setIv(lo, hi *big.Int) {
	if lo.Cmp(big.NewInt(sMin(t.w))) < 0 || hi.Cmp(big.NewInt(sMax(t.w))) > 0 || lo.Cmp(hi) > 0 {
		return
	}
	t.lo, t.hi, t.ivOK = lo.Int64(), hi.Int64(), true
}

func (t *T) setIv64(lo, hi int64) {
	if lo < sMin(t.w) || hi > sMax(t.w) || lo > hi {
		return
	}
	t.lo, t.hi, t.ivOK = lo, hi, true
}

func minMax4(a, b, c, d *big.Int) (*big.Int, *big.Int) {
	lo, hi := a, a
	for _, x := range []*big.Int{b, c, d} {
		if x.Cmp(lo) < 0 {
			lo = x
		}
		if x.Cmp(hi) > 0 {
			hi = x
		}
	}
	return lo, hi
}

func bitsFor(v int64) uint {
	n := uint(0)
	for v > 0 {
		n++
		v >>= 1
	}
	return n
}

// computeInterval fills t.lo/t.hi/t.ivOK for a freshly interned bit-vector term.
func computeInterval(t *T) {
	if t.w <= 0 {
		return
	}
	b := func(x int64) *big.Int { return big.NewInt(x) }
	switch t.op {
	case "bvconst":
		t.setIv64(sext(t.k, t.w), sext(t.k, t.w))
	case "var":
		if t.w < 64 {
			t.setIv64(sMin(t.w), sMax(t.w))
		}
	case "zero_extend":
		a := t.args[0]
		if a.ivOK && a.lo >= 0 {
			t.setIv64(a.lo, a.hi)
		} else if a.w < 63 {
			t.setIv64(0, (int64(1)<<uint(a.w))-1)
		}
	case "sign_extend":
		a := t.args[0]
		if a.ivOK {
			t.setIv64(a.lo, a.hi)
		} else {
			t.setIv64(sMin(a.w), sMax(a.w))
		}
	case "extract":
		a := t.args[0]
		if t.k&0xff == 0 && a.ivOK && a.lo >= sMin(t.w) && a.hi <= sMax(t.w) {
			t.setIv64(a.lo, a.hi)
		}
	case "bvadd", "bvsub", "bvmul":
		x, y := t.args[0], t.args[1]
		if !x.ivOK || !y.ivOK {
			return
		}
		switch t.op {
		case "bvadd":
			t.setIv(new(big.Int).Add(b(x.lo), b(y.lo)), new(big.Int).Add(b(x.hi), b(y.hi)))
		case "bvsub":
			t.setIv(new(big.Int).Sub(b(x.lo), b(y.hi)), new(big.Int).Sub(b(x.hi), b(y.lo)))
		default:
			lo, hi := minMax4(new(big.Int).Mul(b(x.lo), b(y.lo)), new(big.Int).Mul(b(x.lo), b(y.hi)),
				new(big.Int).Mul(b(x.hi), b(y.lo)), new(big.Int).Mul(b(x.hi), b(y.hi)))
			t.setIv(lo, hi)
		}
	case "bvneg":
		x := t.args[0]
		if x.ivOK {
			t.setIv(new(big.Int).Neg(b(x.hi)), new(big.Int).Neg(b(x.lo)))
		}
	case "bvudiv", "bvurem", "bvsdiv", "bvsrem":
		x, y := t.args[0], t.args[1]
		if !x.ivOK || !y.ivOK || y.lo <= 0 {
			return
		}
		if t.op == "bvudiv" || t.op == "bvurem" {
			if x.lo < 0 {
				return
			}
		}
		switch t.op {
		case "bvudiv", "bvsdiv":
			if x.lo >= 0 {
				t.setIv64(x.lo/y.hi, x.hi/y.lo)
			} else {
				lo, hi := x.lo/y.lo, x.hi/y.lo
				if x.hi < 0 {
					hi = x.hi / y.hi
				}
				t.setIv64(lo, hi)
			}
		default:
			if x.lo >= 0 {
				hi := y.hi - 1
				if x.hi < hi {
					hi = x.hi
				}
				t.setIv64(0, hi)
			} else {
				t.setIv64(-(y.hi - 1), y.hi-1)
			}
		}
	case "bvand":
		x, y := t.args[0], t.args[1]
		switch {
		case x.ivOK && x.lo >= 0 && y.ivOK && y.lo >= 0:
			hi := x.hi
			if y.hi < hi {
				hi = y.hi
			}
			t.setIv64(0, hi)
		case x.ivOK && x.lo >= 0:
			t.setIv64(0, x.hi)
		case y.ivOK && y.lo >= 0:
			t.setIv64(0, y.hi)
		}
	case "bvor", "bvxor":
		x, y := t.args[0], t.args[1]
		if x.ivOK && y.ivOK && x.lo >= 0 && y.lo >= 0 {
			n := bitsFor(x.hi)
			if m := bitsFor(y.hi); m > n {
				n = m
			}
			if n < 63 {
				t.setIv64(0, (int64(1)<<n)-1)
			}
		}
	case "bvshl":
		x, y := t.args[0], t.args[1]
		if x.ivOK && y.op == "bvconst" && y.k < 63 {
			f := new(big.Int).Lsh(big.NewInt(1), uint(y.k))
			t.setIv(new(big.Int).Mul(b(x.lo), f), new(big.Int).Mul(b(x.hi), f))
		}
	case "bvlshr":
		x, y := t.args[0], t.args[1]
		if x.ivOK && x.lo >= 0 && y.op == "bvconst" && y.k < 64 {
			t.setIv64(x.lo>>y.k, x.hi>>y.k)
		}
	case "bvashr":
		x, y := t.args[0], t.args[1]
		if x.ivOK && y.op == "bvconst" && y.k < 64 {
			t.setIv64(x.lo>>y.k, x.hi>>y.k)
		}
	case "ite":
		x, y := t.args[1], t.args[2]
		if x.ivOK && y.ivOK {
			lo, hi := x.lo, x.hi
			if y.lo < lo {
				lo = y.lo
			}
			if y.hi > hi {
				hi = y.hi
			}
			t.setIv64(lo, hi)
		}
	}
}

// cmpByInterval decides a comparison from operand intervals when it is the same for all values.
func cmpByInterval(op string, a, b *T) (val, ok bool) {
	if !a.ivOK || !b.ivOK {
		return false, false
	}
	signed := op[2] == 's'
	if !signed {
		// unsigned order coincides with signed order when both are non-negative
		switch {
		case a.lo >= 0 && b.lo >= 0:
		case a.lo >= 0 && b.hi < 0: // b is "huge" as unsigned
			switch op {
			case "bvult", "bvule":
				return true, true
			default:
				return false, true
			}
		case a.hi < 0 && b.lo >= 0:
			switch op {
			case "bvugt", "bvuge":
				return true, true
			default:
				return false, true
			}
		case a.hi < 0 && b.hi < 0:
		default:
			return false, false
		}
	}
	switch op[3:] {
	case "lt":
		if a.hi < b.lo {
			return true, true
		}
		if a.lo >= b.hi {
			return false, true
		}
	case "le":
		if a.hi <= b.lo {
			return true, true
		}
		if a.lo > b.hi {
			return false, true
		}
	case "gt":
		if a.lo > b.hi {
			return true, true
		}
		if a.hi <= b.lo {
			return false, true
		}
	case "ge":
		if a.lo >= b.hi {
			return true, true
		}
		if a.hi < b.lo {
			return false, true
		}
	}
	return false, false
}
