package main

import (
	"fmt"
	"go/token"
	"go/types"
	"math"
	"unicode/utf8"
)

// eqValue: structural equality of two comparable values as a (possibly symbolic) bool.
func (m *machine) eqValue(a, b value) bv {
	tt := m.tt
	switch x := a.(type) {
	case nil:
		return bv{c: b == nil}
	case iv:
		y, ok := b.(iv)
		if !ok {
			return bv{c: false}
		}
		if !x.sym() && !y.sym() {
			return bv{c: x.c == y.c}
		}
		return m.mkBool(tt.eq(m.ivT(x), m.ivT(y)))
	case bv:
		y, ok := b.(bv)
		if !ok {
			return bv{c: false}
		}
		if !x.sym() && !y.sym() {
			return bv{c: x.c == y.c}
		}
		return m.mkBool(tt.eq(m.bvT(x), m.bvT(y)))
	case fv:
		y, ok := b.(fv)
		if !ok {
			return bv{c: false}
		}
		if !x.sym() && !y.sym() {
			return bv{c: x.c == y.c}
		}
		return m.mkBool(tt.eq(m.fvT(x), m.fvT(y)))
	case string, sstr:
		if !isStr(b) {
			return bv{c: false}
		}
		return m.strEq(a, b)
	case agg:
		y, ok := b.(agg)
		if !ok || len(x) != len(y) {
			return bv{c: false}
		}
		var parts []*T
		for i := range x {
			e := m.eqValue(x[i], y[i])
			if !e.sym() {
				if !e.c {
					return bv{c: false}
				}
				continue
			}
			parts = append(parts, e.t)
		}
		if len(parts) == 0 {
			return bv{c: true}
		}
		return m.mkBool(tt.and(parts...))
	case iface:
		y, ok := b.(iface)
		if !ok {
			return bv{c: false}
		}
		if x.t == nil || y.t == nil {
			return bv{c: x.t == nil && y.t == nil}
		}
		if !types.Identical(x.t, y.t) {
			return bv{c: false}
		}
		return m.eqValue(x.v, y.v)
	case *value:
		y, ok := b.(*value)
		return bv{c: ok && x == y}
	case *amap:
		y, ok := b.(*amap)
		return bv{c: ok && x == y}
	case *closure:
		y, ok := b.(*closure)
		return bv{c: ok && x == y}
	case slc:
		y, ok := b.(slc)
		return bv{c: ok && x.arr == nil && y.arr == nil}
	case *hostObj:
		y, ok := b.(*hostObj)
		return bv{c: ok && x == y}
	}
	panic(abortPath{fmt.Sprintf("unsupported:eq on %T", a)})
}

func (m *machine) mkBool(t *T) bv {
	switch t.op {
	case "true":
		return bv{c: true}
	case "false":
		return bv{c: false}
	}
	return bv{t: t}
}

func (m *machine) mkIv(w int, sg bool, t *T) iv {
	if t.op == "bvconst" {
		return mk(w, sg, t.k)
	}
	return iv{w: w, sg: sg, t: t}
}

func (m *machine) mkFv(t *T) fv {
	if t.op == "realconst" {
		f, _ := t.rat.Float64()
		return fv{c: f}
	}
	return fv{t: t}
}

func (m *machine) strEq(a, b value) bv {
	if x, ok := a.(string); ok {
		if y, ok := b.(string); ok {
			return bv{c: x == y}
		}
	}
	x, y := strBytes(a), strBytes(b)
	if len(x) != len(y) {
		return bv{c: false}
	}
	var parts []*T
	for i := range x {
		if !x[i].sym() && !y[i].sym() {
			if x[i].c != y[i].c {
				return bv{c: false}
			}
			continue
		}
		parts = append(parts, m.tt.eq(m.ivT(x[i]), m.ivT(y[i])))
	}
	return m.mkBool(m.tt.and(parts...))
}

// strLess: lexicographic a < b
func (m *machine) strLess(a, b value) bv {
	if x, ok := a.(string); ok {
		if y, ok := b.(string); ok {
			return bv{c: x < y}
		}
	}
	x, y := strBytes(a), strBytes(b)
	tt := m.tt
	// build from the end: less(i) = x[i]<y[i] or (x[i]==y[i] and less(i+1)); beyond common prefix: len(x)<len(y)
	n := len(x)
	if len(y) < n {
		n = len(y)
	}
	acc := tt.boolc(len(x) < len(y))
	for i := n - 1; i >= 0; i-- {
		xi, yi := m.ivT(x[i]), m.ivT(y[i])
		acc = tt.or(tt.bvcmp("bvult", xi, yi), tt.and(tt.eq(xi, yi), acc))
	}
	return m.mkBool(acc)
}

func (m *machine) binop(op token.Token, x, y value, pos token.Pos) value {
	switch x := x.(type) {
	case iv:
		return m.intop(op, x, y.(iv), pos)
	case bv:
		y := y.(bv)
		if !x.sym() && !y.sym() {
			switch op {
			case token.EQL:
				return bv{c: x.c == y.c}
			case token.NEQ:
				return bv{c: x.c != y.c}
			case token.AND, token.LAND:
				return bv{c: x.c && y.c}
			case token.OR, token.LOR:
				return bv{c: x.c || y.c}
			}
		}
		switch op {
		case token.EQL:
			return m.mkBool(m.tt.eq(m.bvT(x), m.bvT(y)))
		case token.NEQ:
			return m.mkBool(m.tt.not(m.tt.eq(m.bvT(x), m.bvT(y))))
		case token.AND, token.LAND:
			return m.mkBool(m.tt.and(m.bvT(x), m.bvT(y)))
		case token.OR, token.LOR:
			return m.mkBool(m.tt.or(m.bvT(x), m.bvT(y)))
		}
	case string, sstr:
		switch op {
		case token.ADD:
			if xs, ok := x.(string); ok {
				if ys, ok := y.(string); ok {
					return xs + ys
				}
			}
			return mkStr(append(append([]iv{}, strBytes(x)...), strBytes(y)...))
		case token.EQL:
			return m.strEq(x, y)
		case token.NEQ:
			return m.notB(m.strEq(x, y))
		case token.LSS:
			return m.strLess(x, y)
		case token.GTR:
			return m.strLess(y, x)
		case token.LEQ:
			return m.notB(m.strLess(y, x))
		case token.GEQ:
			return m.notB(m.strLess(x, y))
		}
	case fv:
		return m.floatop(op, x, y.(fv))
	case iface, *value, slc, *amap, *closure, agg, nil, *hostObj:
		e := m.eqValue(x, y)
		if _, isS := x.(slc); isS {
			xs := x.(slc)
			ys, _ := y.(slc)
			e = bv{c: xs.arr == nil && ys.arr == nil}
			if xs.arr != nil && ys.arr != nil {
				panic(abortPath{"unsupported:slice comparison"})
			}
		}
		switch op {
		case token.EQL:
			return e
		case token.NEQ:
			return m.notB(e)
		}
	}
	panic(abortPath{fmt.Sprintf("unsupported:binop %s on %T", op, x)})
}

func (m *machine) notB(b bv) bv {
	if b.sym() {
		return m.mkBool(m.tt.not(b.t))
	}
	return bv{c: !b.c}
}

func (m *machine) floatop(op token.Token, x, y fv) value {
	if !x.sym() && !y.sym() {
		switch op {
		case token.ADD:
			return fv{c: x.c + y.c}
		case token.SUB:
			return fv{c: x.c - y.c}
		case token.MUL:
			return fv{c: x.c * y.c}
		case token.QUO:
			return fv{c: x.c / y.c}
		case token.LSS:
			return bv{c: x.c < y.c}
		case token.LEQ:
			return bv{c: x.c <= y.c}
		case token.GTR:
			return bv{c: x.c > y.c}
		case token.GEQ:
			return bv{c: x.c >= y.c}
		case token.EQL:
			return bv{c: x.c == y.c}
		case token.NEQ:
			return bv{c: x.c != y.c}
		}
	}
	for _, c := range []fv{x, y} {
		if !c.sym() && (math.IsNaN(c.c) || math.IsInf(c.c, 0)) {
			panic(abortPath{"unsupported:NaN/Inf meets symbolic real"})
		}
	}
	xt, yt := m.fvT(x), m.fvT(y)
	tt := m.tt
	switch op {
	case token.ADD:
		return m.mkFv(tt.rbin("+", xt, yt))
	case token.SUB:
		return m.mkFv(tt.rbin("-", xt, yt))
	case token.MUL:
		return m.mkFv(tt.rbin("*", xt, yt))
	case token.QUO:
		// division by a possibly-zero symbolic real: Go yields Inf/NaN, outside the real model
		if y.sym() {
			nz := tt.not(tt.eq(yt, tt.realf(0)))
			if v, ok := m.evalBool(nz); !(ok && v) {
				m.modelOK = false
			}
			if m.h.divZeroAssume {
				m.assume(nz)
			} else if !m.decide(bv{t: nz}) {
				panic(abortPath{"unsupported:float division by zero (Inf/NaN outside the real model)"})
			}
		} else if y.c == 0 {
			panic(abortPath{"unsupported:float division by zero"})
		}
		return m.mkFv(tt.rbin("/", xt, yt))
	case token.LSS:
		return m.mkBool(tt.rcmp("<", xt, yt))
	case token.LEQ:
		return m.mkBool(tt.rcmp("<=", xt, yt))
	case token.GTR:
		return m.mkBool(tt.rcmp(">", xt, yt))
	case token.GEQ:
		return m.mkBool(tt.rcmp(">=", xt, yt))
	case token.EQL:
		return m.mkBool(tt.eq(xt, yt))
	case token.NEQ:
		return m.mkBool(tt.not(tt.eq(xt, yt)))
	}
	panic(abortPath{"unsupported:floatop " + op.String()})
}

func (m *machine) intop(op token.Token, x, y iv, pos token.Pos) value {
	w, sg := x.w, x.sg
	tt := m.tt
	if op == token.SHL || op == token.SHR {
		if y.sg {
			if y.sym() {
				m.require("panic.shift", bv{t: tt.bvcmp("bvsge", y.t, tt.bvc(y.w, 0))}, pos, false)
			} else if y.int64() < 0 {
				m.fail("panic.shift", pos)
			}
		}
		if !y.sym() {
			n := y.c
			if !x.sym() {
				if op == token.SHL {
					if n >= uint64(w) {
						return mk(w, sg, 0)
					}
					return mk(w, sg, x.c<<n)
				}
				if sg {
					if n >= uint64(w) {
						n = uint64(w) - 1
					}
					return mk(w, sg, uint64(x.int64()>>n))
				}
				if n >= uint64(w) {
					return mk(w, sg, 0)
				}
				return mk(w, sg, x.c>>n)
			}
			if n >= uint64(w) {
				if op == token.SHL || !sg {
					return mk(w, sg, 0)
				}
				n = uint64(w) - 1
			}
			o := "bvshl"
			if op == token.SHR {
				o = "bvlshr"
				if sg {
					o = "bvashr"
				}
			}
			return m.mkIv(w, sg, tt.bvbin(o, x.t, tt.bvc(w, n)))
		}
		// symbolic shift count: SMT semantics match Go for counts >= w (shl/lshr give 0, ashr sign fill)
		var cnt *T
		switch {
		case y.w == w:
			cnt = y.t
		case y.w < w:
			cnt = tt.zext(w-y.w, y.t)
		default:
			// saturate the count to w when truncating
			big := tt.bvcmp("bvuge", y.t, tt.bvc(y.w, uint64(w)))
			cnt = tt.ite(big, tt.bvc(w, uint64(w)), tt.extract(w-1, 0, y.t))
		}
		o := "bvshl"
		if op == token.SHR {
			o = "bvlshr"
			if sg {
				o = "bvashr"
			}
		}
		return m.mkIv(w, sg, tt.bvbin(o, m.ivT(x), cnt))
	}
	if op == token.QUO || op == token.REM {
		if y.sym() {
			m.require("panic.div", bv{t: tt.not(tt.eq(y.t, tt.bvc(w, 0)))}, pos, false)
		} else if y.c == 0 {
			m.fail("panic.div", pos)
		}
	}
	if !x.sym() && !y.sym() {
		a, b := x.c, y.c
		sa, sb := x.int64(), y.int64()
		switch op {
		case token.ADD:
			return mk(w, sg, a+b)
		case token.SUB:
			return mk(w, sg, a-b)
		case token.MUL:
			return mk(w, sg, a*b)
		case token.QUO:
			if sg {
				if sb == -1 {
					return mk(w, sg, uint64(-sa))
				}
				return mk(w, sg, uint64(sa/sb))
			}
			return mk(w, sg, a/b)
		case token.REM:
			if sg {
				if sb == -1 {
					return mk(w, sg, 0)
				}
				return mk(w, sg, uint64(sa%sb))
			}
			return mk(w, sg, a%b)
		case token.AND:
			return mk(w, sg, a&b)
		case token.OR:
			return mk(w, sg, a|b)
		case token.XOR:
			return mk(w, sg, a^b)
		case token.AND_NOT:
			return mk(w, sg, a&^b)
		case token.EQL:
			return bv{c: a == b}
		case token.NEQ:
			return bv{c: a != b}
		case token.LSS:
			if sg {
				return bv{c: sa < sb}
			}
			return bv{c: a < b}
		case token.LEQ:
			if sg {
				return bv{c: sa <= sb}
			}
			return bv{c: a <= b}
		case token.GTR:
			if sg {
				return bv{c: sa > sb}
			}
			return bv{c: a > b}
		case token.GEQ:
			if sg {
				return bv{c: sa >= sb}
			}
			return bv{c: a >= b}
		}
	}
	xt, yt := m.ivT(x), m.ivT(y)
	bin := func(o string) value { return m.mkIv(w, sg, tt.bvbin(o, xt, yt)) }
	cmp := func(u, s string) value {
		o := u
		if sg {
			o = s
		}
		return m.mkBool(tt.bvcmp(o, xt, yt))
	}
	switch op {
	case token.ADD:
		return bin("bvadd")
	case token.SUB:
		return bin("bvsub")
	case token.MUL:
		return bin("bvmul")
	case token.QUO:
		if sg {
			return bin("bvsdiv")
		}
		return bin("bvudiv")
	case token.REM:
		if sg {
			return bin("bvsrem")
		}
		return bin("bvurem")
	case token.AND:
		return bin("bvand")
	case token.OR:
		return bin("bvor")
	case token.XOR:
		return bin("bvxor")
	case token.AND_NOT:
		return m.mkIv(w, sg, tt.bvbin("bvand", xt, tt.bvun("bvnot", yt)))
	case token.EQL:
		return m.mkBool(tt.eq(xt, yt))
	case token.NEQ:
		return m.mkBool(tt.not(tt.eq(xt, yt)))
	case token.LSS:
		return cmp("bvult", "bvslt")
	case token.LEQ:
		return cmp("bvule", "bvsle")
	case token.GTR:
		return cmp("bvugt", "bvsgt")
	case token.GEQ:
		return cmp("bvuge", "bvsge")
	}
	panic(abortPath{"unsupported:intop " + op.String()})
}

func (m *machine) convInt(x iv, w int, sg bool) iv {
	if !x.sym() {
		if x.sg {
			return mk(w, sg, uint64(x.int64()))
		}
		return mk(w, sg, x.c)
	}
	tt := m.tt
	switch {
	case w == x.w:
		return iv{w: w, sg: sg, t: x.t}
	case w < x.w:
		return m.mkIv(w, sg, tt.extract(w-1, 0, x.t))
	case x.sg:
		return m.mkIv(w, sg, tt.sextT(w-x.w, x.t))
	default:
		return m.mkIv(w, sg, tt.zext(w-x.w, x.t))
	}
}

func (m *machine) convert(x value, from, to types.Type) value {
	if w, sg, ok := intInfo(to); ok {
		switch x := x.(type) {
		case iv:
			return m.convInt(x, w, sg)
		case fv:
			if x.sym() {
				return m.mkIv(w, sg, m.tt.real2bv(x.t, w))
			}
			if math.IsNaN(x.c) || math.IsInf(x.c, 0) || math.Abs(x.c) >= 9.2e18 {
				// implementation-defined in Go; mirror amd64 behaviour for int64
				return mk(w, sg, uint64(1)<<63)
			}
			if sg {
				return mk(w, sg, uint64(int64(x.c)))
			}
			return mk(w, sg, uint64(x.c))
		case *value: // unsafe.Pointer -> uintptr
			panic(abortPath{"unsupported:pointer to integer"})
		}
	}
	if b, ok := to.Underlying().(*types.Basic); ok {
		if b.Info()&types.IsFloat != 0 {
			switch x := x.(type) {
			case iv:
				if x.sym() {
					return m.mkFv(m.tt.bv2real(x.t, x.sg))
				}
				if x.sg {
					f := float64(x.int64())
					if b.Kind() == types.Float32 {
						f = float64(float32(f))
					}
					return fv{c: f}
				}
				return fv{c: float64(x.c)}
			case fv:
				if b.Kind() == types.Float32 && !x.sym() {
					return fv{c: float64(float32(x.c))}
				}
				return x
			}
		}
		if b.Info()&types.IsString != 0 {
			switch x := x.(type) {
			case string, sstr:
				return x
			case slc:
				et := from.Underlying().(*types.Slice).Elem()
				if ew, _, _ := intInfo(et); ew == 32 { // []rune
					var out []iv
					for i := 0; i < x.ln; i++ {
						out = append(out, m.encodeRune((*x.arr)[x.off+i].(iv))...)
					}
					return mkStr(out)
				}
				bs := make([]iv, x.ln)
				for i := range bs {
					bs[i] = (*x.arr)[x.off+i].(iv)
				}
				return mkStr(bs)
			case iv:
				return mkStr(m.encodeRune(m.convInt(x, 32, true)))
			}
		}
	}
	if st, ok := to.Underlying().(*types.Slice); ok {
		if isStr(x) {
			bs := strBytes(x)
			if ew, _, _ := intInfo(st.Elem()); ew == 32 { // []rune(s)
				it := &striter{bs: bs}
				var arr []value
				for {
					t := m.nextRune(it)
					if !t[0].(bv).c {
						break
					}
					arr = append(arr, t[2])
				}
				return slc{arr: &arr, ln: len(arr), cp: len(arr)}
			}
			arr := make([]value, len(bs))
			for i := range arr {
				arr[i] = bs[i]
			}
			return slc{arr: &arr, ln: len(bs), cp: len(bs)}
		}
		return x
	}
	if _, ok := to.Underlying().(*types.Pointer); ok {
		return x
	}
	if b, ok := to.Underlying().(*types.Basic); ok && b.Kind() == types.UnsafePointer {
		return x
	}
	panic(abortPath{"unsupported:convert " + from.String() + " -> " + to.String()})
}

// encodeRune: UTF-8 encoding of a (possibly symbolic) rune; forks on the length class.
func (m *machine) encodeRune(r iv) []iv {
	if !r.sym() {
		var buf [4]byte
		n := utf8.EncodeRune(buf[:], rune(int32(r.c)))
		out := make([]iv, n)
		for i := range out {
			out[i] = iv{w: 8, c: uint64(buf[i])}
		}
		return out
	}
	tt := m.tt
	c := func(v uint64) *T { return tt.bvc(32, v) }
	u := r.t // 32-bit
	ult := func(a *T, v uint64) bv { return m.mkBool(tt.bvcmp("bvult", a, c(v))) }
	b8 := func(t *T) iv { return m.mkIv(8, false, tt.extract(7, 0, t)) }
	or := func(a *T, v uint64) *T { return tt.bvbin("bvor", a, c(v)) }
	and := func(a *T, v uint64) *T { return tt.bvbin("bvand", a, c(v)) }
	shr := func(a *T, n uint64) *T { return tt.bvbin("bvlshr", a, c(n)) }
	// invalid runes (surrogates, > 0x10FFFF, negative) encode U+FFFD
	valid := tt.and(tt.bvcmp("bvule", u, c(0x10FFFF)), tt.not(tt.and(tt.bvcmp("bvuge", u, c(0xD800)), tt.bvcmp("bvule", u, c(0xDFFF)))))
	if !m.decide(m.mkBool(valid)) {
		return []iv{{w: 8, c: 0xEF}, {w: 8, c: 0xBF}, {w: 8, c: 0xBD}}
	}
	switch {
	case m.decide(ult(u, 0x80)):
		return []iv{b8(u)}
	case m.decide(ult(u, 0x800)):
		return []iv{b8(or(shr(u, 6), 0xC0)), b8(or(and(u, 0x3F), 0x80))}
	case m.decide(ult(u, 0x10000)):
		return []iv{b8(or(shr(u, 12), 0xE0)), b8(or(and(shr(u, 6), 0x3F), 0x80)), b8(or(and(u, 0x3F), 0x80))}
	}
	return []iv{b8(or(shr(u, 18), 0xF0)), b8(or(and(shr(u, 12), 0x3F), 0x80)), b8(or(and(shr(u, 6), 0x3F), 0x80)), b8(or(and(u, 0x3F), 0x80))}
}

// nextRune: one step of `for i, r := range s` (returns tup{ok, index, rune}).
func (m *machine) nextRune(si *striter) tup {
	if si.i >= len(si.bs) {
		return tup{bv{c: false}, mkInt(0), mk(32, true, 0)}
	}
	start := si.i
	// concrete fast path
	allc := true
	end := start + 4
	if end > len(si.bs) {
		end = len(si.bs)
	}
	for _, b := range si.bs[start:end] {
		if b.sym() {
			allc = false
		}
	}
	if allc {
		buf := make([]byte, end-start)
		for i := range buf {
			buf[i] = byte(si.bs[start+i].c)
		}
		r, n := utf8.DecodeRune(buf)
		si.i += n
		return tup{bv{c: true}, mkInt(int64(start)), mk(32, true, uint64(r))}
	}
	r, n := m.decodeRuneSym(si.bs[start:])
	si.i += n
	return tup{bv{c: true}, mkInt(int64(start)), r}
}

// decodeRuneSym mirrors utf8.DecodeRune on symbolic bytes; forks on byte classes.
func (m *machine) decodeRuneSym(bs []iv) (iv, int) {
	tt := m.tt
	bad := mk(32, true, 0xFFFD)
	b0 := bs[0]
	in := func(b iv, lo, hi uint64) bool {
		if !b.sym() {
			return b.c >= lo && b.c <= hi
		}
		return m.decide(m.mkBool(tt.and(tt.bvcmp("bvuge", b.t, tt.bvc(8, lo)), tt.bvcmp("bvule", b.t, tt.bvc(8, hi)))))
	}
	z32 := func(b iv) *T { return tt.zext(24, m.ivT(b)) }
	c := func(v uint64) *T { return tt.bvc(32, v) }
	and := func(a *T, v uint64) *T { return tt.bvbin("bvand", a, c(v)) }
	shl := func(a *T, n uint64) *T { return tt.bvbin("bvshl", a, c(n)) }
	or := func(a, b *T) *T { return tt.bvbin("bvor", a, b) }
	if in(b0, 0, 0x7F) {
		return m.mkIv(32, true, z32(b0)), 1
	}
	if in(b0, 0xC2, 0xDF) {
		if len(bs) < 2 || !in(bs[1], 0x80, 0xBF) {
			return bad, 1
		}
		return m.mkIv(32, true, or(shl(and(z32(b0), 0x1F), 6), and(z32(bs[1]), 0x3F))), 2
	}
	three := func(lo1, hi1 uint64) (iv, int) {
		if len(bs) < 3 || !in(bs[1], lo1, hi1) || !in(bs[2], 0x80, 0xBF) {
			return bad, 1
		}
		return m.mkIv(32, true, or(or(shl(and(z32(b0), 0x0F), 12), shl(and(z32(bs[1]), 0x3F), 6)), and(z32(bs[2]), 0x3F))), 3
	}
	four := func(lo1, hi1 uint64) (iv, int) {
		if len(bs) < 4 || !in(bs[1], lo1, hi1) || !in(bs[2], 0x80, 0xBF) || !in(bs[3], 0x80, 0xBF) {
			return bad, 1
		}
		return m.mkIv(32, true, or(or(or(shl(and(z32(b0), 0x07), 18), shl(and(z32(bs[1]), 0x3F), 12)), shl(and(z32(bs[2]), 0x3F), 6)), and(z32(bs[3]), 0x3F))), 4
	}
	switch {
	case in(b0, 0xE0, 0xE0):
		return three(0xA0, 0xBF)
	case in(b0, 0xE1, 0xEC):
		return three(0x80, 0xBF)
	case in(b0, 0xED, 0xED):
		return three(0x80, 0x9F)
	case in(b0, 0xEE, 0xEF):
		return three(0x80, 0xBF)
	case in(b0, 0xF0, 0xF0):
		return four(0x90, 0xBF)
	case in(b0, 0xF1, 0xF3):
		return four(0x80, 0xBF)
	case in(b0, 0xF4, 0xF4):
		return four(0x80, 0x8F)
	}
	return bad, 1
}
