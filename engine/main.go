package main

import (
	"bufio"
	"encoding/json"
	"flag"
	"fmt"
	"os"
	"os/exec"
	"path/filepath"
	"runtime"
	"runtime/pprof"
	"sort"
	"strconv"
	"strings"
	"time"
)

type knownFinding struct {
	Status   string `json:"status"` // known | fixed
	Property string `json:"property"`
	Harness  string `json:"harness"`
	Label    string `json:"label"`
	Site     string `json:"site"`
	What     string `json:"what"`
	Commit   string `json:"commit,omitempty"`
}

func loadKnown() []knownFinding {
	var out []knownFinding
	f, err := os.Open(filepath.Join(verifDir, "known_findings.jsonl"))
	if err != nil {
		return nil
	}
	defer f.Close()
	sc := bufio.NewScanner(f)
	sc.Buffer(make([]byte, 1<<20), 1<<20)
	for sc.Scan() {
		l := strings.TrimSpace(sc.Text())
		if l == "" || strings.HasPrefix(l, "#") {
			continue
		}
		var k knownFinding
		if json.Unmarshal([]byte(l), &k) == nil {
			out = append(out, k)
		}
	}
	return out
}

func (k *knownFinding) matches(prop string, v *violation) bool {
	if k.Status != "known" || k.Property != prop {
		return false
	}
	if k.Harness != "" && k.Harness != "*" && k.Harness != v.Harness {
		return false
	}
	if k.Label != "" && k.Label != "*" && k.Label != v.Label {
		return false
	}
	if k.Site != "" && k.Site != "*" && k.Site != v.Site {
		return false
	}
	return true
}

func main() {
	if len(os.Args) < 2 {
		fmt.Fprintln(os.Stderr, "usage: symgo check -p Cxx [-tier quick|thorough] | symgo replay <case.json>")
		os.Exit(2)
	}
	switch os.Args[1] {
	case "check":
		if pf := os.Getenv("SYMGO_CPUPROFILE"); pf != "" {
			if f, err := os.Create(pf); err == nil {
				pprof.StartCPUProfile(f)
				code := cmdCheck(os.Args[2:])
				pprof.StopCPUProfile()
				f.Close()
				os.Exit(code)
			}
		}
		os.Exit(cmdCheck(os.Args[2:]))
	case "replay":
		os.Exit(cmdReplay(os.Args[2:]))
	default:
		fmt.Fprintln(os.Stderr, "unknown command", os.Args[1])
		os.Exit(2)
	}
}

func cmdCheck(args []string) int {
	fs := flag.NewFlagSet("check", flag.ExitOnError)
	prop := fs.String("p", "", "property id")
	tier := fs.String("tier", "", "quick|thorough")
	only := fs.String("only", "", "run only harnesses whose name contains this")
	workers := fs.Int("workers", 0, "worker count (default: all cores)")
	budget := fs.Duration("budget", 0, "wall-clock budget for exploration of one harness")
	noEvidence := fs.Bool("no-evidence", false, "do not write the evidence file (development)")
	verbose := fs.Bool("v", false, "verbose")
	fs.Parse(args)
	if *tier == "" {
		*tier = os.Getenv("VERIF_TIER")
	}
	if *tier == "" {
		*tier = "quick"
	}
	seed, _ := strconv.ParseInt(os.Getenv("VERIF_SEED"), 10, 64)
	t0 := time.Now()
	e := &engine{prop: *prop, tierName: *tier, seed: seed, nWorkers: runtime.NumCPU(), portfolioBudget: 60 * time.Second}
	if *tier == "thorough" {
		e.tier = 1
		e.portfolioBudget = 180 * time.Second
	}
	if *workers > 0 {
		e.nWorkers = *workers
	}
	os.MkdirAll(filepath.Join(verifDir, "out", e.prop), 0o755)
	os.MkdirAll(filepath.Join(verifDir, "evidence"), 0o755)
	if err := e.discover(*only); err != nil {
		fmt.Println("ERROR:", err)
		return 2
	}
	if err := e.load(); err != nil {
		// the tree does not load: not a property violation; report and write degraded evidence
		fmt.Println("LOAD-FAILED:", err)
		if !*noEvidence {
			writeEvidence(e, nil, nil, time.Since(t0), 0, []string{"load failed: " + err.Error()})
		}
		return 0
	}
	for _, s := range e.stale {
		fmt.Println("STALE-HARNESS:", s)
	}
	known := loadKnown()
	var results []*harnessResult
	perHarness := *budget
	if perHarness == 0 {
		perHarness = 10 * time.Minute
		if e.tier == 1 {
			perHarness = 20 * time.Minute
		}
	}
	for _, h := range e.harnesses {
		if !h.tiers[*tier] {
			continue
		}
		r := e.runHarness(h, time.Now().Add(perHarness))
		results = append(results, r)
		if *verbose || true {
			fmt.Printf("== %s [%s]: paths=%d completed=%d folds=%d summaries=%d domdecided=%d vcs=%d/%d inconclusive=%d raced=%d queries=%d solver=%.1fs maxq=%.0fms wall=%.1fs aborted=%v\n",
				h.name, h.kernel, r.st.paths, r.st.completed, r.st.folds, r.st.summaries, r.st.domDecided, r.st.vcUnsat, r.st.vcs, r.st.inconclusive, r.st.raced,
				r.queries, r.solverT.Seconds(), float64(r.maxQ.Milliseconds()), r.wall.Seconds(), fmtAborted(r.st.aborted))
			for k, n := range r.st.unsupported {
				fmt.Printf("   unsupported x%d: %s\n", n, k)
			}
			if r.capped {
				fmt.Printf("   path cap reached (maxpaths=%d): exploration incomplete\n", h.maxPaths)
			}
			if r.deadline {
				fmt.Printf("   time budget reached: exploration incomplete\n")
			}
		}
	}
	// ---- violations: known findings, native confirmation
	rp := newReplayer(e)
	exit := 0
	nViol := 0
	var notes []string
	knownSeen := map[string]bool{}
	type confirmed struct {
		v    *violation
		path string
		how  string
	}
	var confirmedV []confirmed
	cexN := 0
	for _, r := range results {
		var keys []string
		for k := range r.st.viol {
			keys = append(keys, k)
		}
		sort.Strings(keys)
		for _, k := range keys {
			v := r.st.viol[k]
			isKnown := false
			for i := range known {
				if known[i].matches(e.prop, v) {
					isKnown = true
					id := known[i].Harness + "|" + known[i].Label + "|" + known[i].Site
					if !knownSeen[id] {
						knownSeen[id] = true
						fmt.Printf("KNOWN-FINDING: property=%s %s [%s %s at %s]\n", e.prop, known[i].What, v.Harness, v.Label, v.Site)
					}
					break
				}
			}
			if isKnown {
				continue
			}
			cexN++
			rc := replayCase{Harness: v.Harness, Tier: e.tier, Inputs: v.Inputs, Property: e.prop, Label: v.Label, Site: v.Site, Pos: v.Pos, PkgDir: r.h.pkgDir, Stack: v.Stack}
			path := filepath.Join(verifDir, "out", e.prop, fmt.Sprintf("cex_%s_%d.json", v.Harness, cexN))
			data, _ := json.MarshalIndent(rc, "", " ")
			os.WriteFile(path, data, 0o644)
			if r.h.noReplay {
				confirmedV = append(confirmedV, confirmed{v, "engine-concrete:" + path, "no native adapter for this harness; counterexample re-executed in the engine only"})
				continue
			}
			if v.Label == "glob.write" {
				// a write to package-level memory has no native symptom (no panic, no failed assertion) on a
				// single run: it is confirmed by re-executing the path in the engine
				confirmedV = append(confirmedV, confirmed{v, "engine-concrete:" + path, "write to memory reachable from a package-level variable of the repository; re-executed in the engine only"})
				continue
			}
			to := 20 * time.Second
			out, err := rp.run(r.h.pkgDir, path, to)
			if err != nil {
				notes = append(notes, fmt.Sprintf("UNCONFIRMED %s %s: %v", v.Harness, v.key(), err))
				fmt.Printf("UNCONFIRMED: %s %s (%v)\n", v.Harness, v.key(), err)
				continue
			}
			if ok, how := confirms(v.Label, out); ok {
				confirmedV = append(confirmedV, confirmed{v, path, how})
			} else {
				msg := fmt.Sprintf("UNCONFIRMED %s %s at %s: native run does not reproduce (assertFail=%v panic=%q desync=%v assumeFalse=%v done=%v)", v.Harness, v.Label, v.Pos, out.assertFail, out.panicMsg, out.desync, out.assumeFalse, out.done)
				notes = append(notes, msg)
				fmt.Println(msg)
			}
		}
	}
	for _, c := range confirmedV {
		nViol++
		exit = 1
		fmt.Printf("VIOLATION property=%s replay=%s\n", e.prop, c.path)
		fmt.Printf("   harness=%s label=%s site=%s pos=%s\n   %s\n   inputs=%s\n", c.v.Harness, c.v.Label, c.v.Site, c.v.Pos, c.how, renderInputs(c.v.Inputs))
	}
	// ---- translator validation on sampled end-of-path models
	validated, mismatches := 0, 0
	if os.Getenv("SYMGO_NOVALIDATE") == "" {
		validated, mismatches, notes = e.validateSamples(rp, results, notes)
	}
	if mismatches > 0 {
		fmt.Printf("ENGINE-MISMATCH: %d sampled paths disagree with the native run (see evidence notes)\n", mismatches)
	}
	if !*noEvidence {
		writeEvidence(e, results, known, time.Since(t0), validated, notes, nViol, len(knownSeen))
	}
	fmt.Printf("%s %s: harnesses=%d violations=%d known=%d wall=%.1fs\n", e.prop, *tier, len(results), nViol, len(knownSeen), time.Since(t0).Seconds())
	return exit
}

func fmtAborted(m map[string]int) string {
	var parts []string
	for _, k := range sortedKeys(m) {
		parts = append(parts, fmt.Sprintf("%s:%d", k, m[k]))
	}
	return "{" + strings.Join(parts, " ") + "}"
}

func renderInputs(ins []inputRec) string {
	var parts []string
	var bytesRun []byte
	flush := func() {
		if len(bytesRun) > 0 {
			parts = append(parts, fmt.Sprintf("bytes%q", string(bytesRun)))
			bytesRun = nil
		}
	}
	for _, in := range ins {
		switch in.Kind {
		case "byte":
			bytesRun = append(bytesRun, byte(in.U))
			continue
		case "aux":
			continue
		}
		flush()
		switch in.Kind {
		case "bool":
			parts = append(parts, fmt.Sprint(in.B))
		case "float":
			parts = append(parts, in.F)
		case "enum":
			parts = append(parts, fmt.Sprintf("#%d", int64(in.U)))
		default:
			if in.Sg {
				parts = append(parts, fmt.Sprint(sext(in.U, in.W)))
			} else {
				parts = append(parts, fmt.Sprint(in.U))
			}
		}
	}
	flush()
	s := strings.Join(parts, " ")
	if len(s) > 400 {
		s = s[:400] + "..."
	}
	return s
}

// validateSamples replays sampled completed paths natively and compares reach labels and observations.
func (e *engine) validateSamples(rp *replayer, results []*harnessResult, notes []string) (int, int, []string) {
	validated, mismatches := 0, 0
	n := 0
	for _, r := range results {
		if r.h.noReplay || len(r.h.redirects) > 0 || r.h.mapOrderAll {
			continue
		}
		limit := 3
		if e.tier == 1 {
			limit = 10
		}
		for i, s := range r.st.endModels {
			if i >= limit {
				break
			}
			n++
			rc := replayCase{Harness: r.h.name, Tier: e.tier, Inputs: s.Inputs, Property: e.prop, PkgDir: r.h.pkgDir, Reached: s.Reached, Observed: s.Observed}
			path := filepath.Join(verifDir, "out", e.prop, fmt.Sprintf("sample_%s_%d.json", r.h.name, i))
			data, _ := json.MarshalIndent(rc, "", " ")
			os.WriteFile(path, data, 0o644)
			out, err := rp.run(r.h.pkgDir, path, 20*time.Second)
			if err != nil {
				notes = append(notes, "sample replay unavailable: "+firstLines(err.Error(), 3))
				return validated, mismatches, notes
			}
			ok := out.done && !out.desync && out.panicMsg == "" && len(out.assertFail) == 0 && !out.assumeFalse &&
				strings.Join(out.reached, ",") == strings.Join(s.Reached, ",") &&
				strings.Join(out.observed, "\x00") == strings.Join(s.Observed, "\x00")
			if ok {
				validated++
			} else {
				mismatches++
				notes = append(notes, fmt.Sprintf("ENGINE-MISMATCH %s sample %d: engine reached=%v obs=%v; native reached=%v obs=%v assertFail=%v panic=%q desync=%v assumeFalse=%v (case %s)",
					r.h.name, i, s.Reached, s.Observed, out.reached, out.observed, out.assertFail, out.panicMsg, out.desync, out.assumeFalse, path))
			}
		}
	}
	return validated, mismatches, notes
}

func cmdReplay(args []string) int {
	if len(args) < 1 {
		fmt.Fprintln(os.Stderr, "usage: symgo replay <case.json>")
		return 2
	}
	path := strings.TrimPrefix(args[0], "engine-concrete:")
	data, err := os.ReadFile(path)
	if err != nil {
		fmt.Println("cannot read", path, err)
		return 2
	}
	var rc replayCase
	if err := json.Unmarshal(data, &rc); err != nil {
		fmt.Println("bad case file:", err)
		return 2
	}
	e := &engine{prop: rc.Property, tier: rc.Tier}
	if err := e.discover(""); err != nil {
		fmt.Println("ERROR:", err)
		return 2
	}
	rp := newReplayer(e)
	// harness list for the dispatch table comes from discovery (no SSA load needed)
	out, err := rp.run(rc.PkgDir, path, 30*time.Second)
	if err != nil {
		fmt.Println(err)
		return 2
	}
	fmt.Print(out.raw)
	if ok, how := confirms(rc.Label, out); ok {
		fmt.Printf("REPRODUCED property=%s harness=%s label=%s: %s\n", rc.Property, rc.Harness, rc.Label, how)
		return 1
	}
	fmt.Println("not reproduced")
	return 0
}

var _ = exec.Command
