package main

import (
	"fmt"
	"go/token"
	"go/types"
	"os"
	"runtime"
	"runtime/debug"
	"strings"

	"golang.org/x/tools/go/ssa"
)

type deferred struct {
	fn   value
	cc   *ssa.CallCommon
	args []value
	recv *iface
}

type frame struct {
	m      *machine
	fn     *ssa.Function
	env    map[ssa.Value]value
	prev   *ssa.BasicBlock
	folded map[*ssa.Phi]value
	visits map[*ssa.BasicBlock]int
	defers []deferred
}

// symaddr: address of element idx (symbolic, bounds already checked) among cells.
type symaddr struct {
	cells []*value
	idx   iv
}

func (fr *frame) get(v ssa.Value) value {
	switch v := v.(type) {
	case nil:
		return nil
	case *ssa.Const:
		return constVal(v)
	case *ssa.Function:
		return &closure{fn: v}
	case *ssa.Global:
		return fr.m.global(v)
	case *ssa.Builtin:
		return v
	}
	if r, ok := fr.env[v]; ok {
		return r
	}
	panic(abortPath{"internal:unbound " + v.Name() + " in " + fr.fn.String()})
}

func (m *machine) global(g *ssa.Global) *value {
	if p, ok := m.globals[g]; ok {
		return p
	}
	if g.Pkg != nil && !m.inInit {
		m.ensureInit(g.Pkg)
		if p, ok := m.globals[g]; ok {
			return p
		}
	}
	p := new(value)
	*p = zero(g.Type().(*types.Pointer).Elem())
	m.globals[g] = p
	if m.preexist != nil && g.Pkg != nil && m.eng.inModule(g.Pkg.Pkg.Path()) {
		m.markCell(p) // a package-level variable materialised lazily is still pre-existing memory
	}
	return p
}

func (m *machine) callBody(fn *ssa.Function, args []value, bind []value) value {
	if fn.Pkg != nil && !m.inInit {
		m.ensureInit(fn.Pkg)
	}
	m.st.fnSeen[fn.String()] = true
	m.depth++
	if m.depth > m.h.depthBound {
		if m.h.hangIsViolation && !m.inInit {
			m.fail("unwind.depth", fn.Pos())
		}
		panic(abortPath{"bound:unwind.depth"})
	}
	m.stack = append(m.stack, fn)
	var curInstr ssa.Instruction
	defer func() {
		m.depth--
		m.stack = m.stack[:len(m.stack)-1]
		if r := recover(); r != nil {
			if re, isRT := r.(runtime.Error); isRT {
				where := fn.String()
				if curInstr != nil {
					where += " @ " + m.prog.Fset.Position(curInstr.Pos()).String() + " [" + fmt.Sprintf("%T", curInstr) + " " + curInstr.String() + "]"
				}
				if os.Getenv("SYMGO_DEBUG") != "" {
					fmt.Fprintf(os.Stderr, "INTERNAL %v in %s\n%s\n", re, where, debug.Stack())
				}
				panic(abortPath{"internal:" + re.Error() + " in " + where})
			}
			panic(r)
		}
	}()
	fr := &frame{m: m, fn: fn, env: make(map[ssa.Value]value, 16)}
	if len(args) < len(fn.Params) {
		panic(abortPath{"internal:arity " + fn.String()})
	}
	for i, p := range fn.Params {
		fr.env[p] = args[i]
	}
	for i, fv := range fn.FreeVars {
		fr.env[fv] = bind[i]
	}
	b := fn.Blocks[0]
	var overridePrev *ssa.BasicBlock
	for {
		var next *ssa.BasicBlock
		if len(b.Preds) > 1 && !m.inInit {
			if fr.visits == nil {
				fr.visits = map[*ssa.BasicBlock]int{}
			}
			fr.visits[b]++
			if fr.visits[b] > m.h.loopBound {
				if m.h.hangIsViolation {
					m.fail("unwind.loop", b.Instrs[0].Pos())
				}
				panic(abortPath{"bound:unwind.loop"})
			}
		}
		for _, in := range b.Instrs {
			curInstr = in
			m.steps++
			if m.steps > m.h.stepBound && !m.inInit {
				if m.h.hangIsViolation {
					m.fail("unwind.steps", in.Pos())
				}
				panic(abortPath{"bound:unwind.steps"})
			}
			switch in := in.(type) {
			case *ssa.Phi:
				if v, ok := fr.folded[in]; ok {
					fr.env[in] = v
					delete(fr.folded, in)
					break
				}
				for i, p := range b.Preds {
					if p == fr.prev {
						fr.env[in] = fr.get(in.Edges[i])
						break
					}
				}
			case *ssa.If:
				c := fr.get(in.Cond).(bv)
				if c.sym() && !c.t.isConst() && m.h.fold && m.inSummary == 0 {
					if nb, ok := fr.tryFold(b, c); ok {
						next = nb
						overridePrev = fr.prev
						break
					}
				}
				if m.decide(c) {
					next = b.Succs[0]
				} else {
					next = b.Succs[1]
				}
			case *ssa.Jump:
				next = b.Succs[0]
			case *ssa.Return:
				switch len(in.Results) {
				case 0:
					return nil
				case 1:
					return fr.get(in.Results[0])
				}
				t := make(tup, len(in.Results))
				for i, r := range in.Results {
					t[i] = fr.get(r)
				}
				return t
			case *ssa.Panic:
				if m.inSummary > 0 {
					panic(abortPath{"summary-abort"})
				}
				m.fail("panic.explicit", in.Pos())
			case *ssa.RunDefers:
				fr.runDefers()
			default:
				fr.exec(in)
			}
		}
		if next == nil {
			panic(abortPath{"internal:fell off block"})
		}
		fr.prev, b = b, next
		if overridePrev != nil {
			fr.prev = overridePrev
			overridePrev = nil
		}
	}
}

func (fr *frame) runDefers() {
	for len(fr.defers) > 0 {
		d := fr.defers[len(fr.defers)-1]
		fr.defers = fr.defers[:len(fr.defers)-1]
		fr.callValue(d.fn, d.cc, d.args, d.cc.Pos())
	}
}

func (fr *frame) exec(in ssa.Instruction) {
	m := fr.m
	switch in := in.(type) {
	case *ssa.Alloc:
		p := new(value)
		*p = zero(in.Type().(*types.Pointer).Elem())
		fr.env[in] = p
	case *ssa.Store:
		fr.storeTo(fr.get(in.Addr), fr.get(in.Val), in.Pos())
	case *ssa.UnOp:
		fr.env[in] = fr.unop(in)
	case *ssa.BinOp:
		fr.env[in] = m.binop(in.Op, fr.get(in.X), fr.get(in.Y), in.Pos())
	case *ssa.Call:
		if m.inInit && fr.fn.Synthetic == "package initializer" {
			// a package-level initialiser the engine cannot run (reflection, OS state) must not stop
			// the initialisation of the package's other variables: the variable keeps its zero value
			// and the skipped call is listed in the evidence
			fr.env[in] = fr.initCall(in)
			break
		}
		fr.env[in] = fr.doCall(in.Common(), in.Pos())
	case *ssa.Defer:
		cc := in.Common()
		d := deferred{cc: cc}
		if cc.IsInvoke() {
			recv := fr.get(cc.Value).(iface)
			if recv.t == nil {
				m.fail("panic.nil", in.Pos())
			}
			fn := m.lookupMethod(recv.t, cc.Method)
			d.fn = &closure{fn: fn}
			d.args = append(d.args, recv.v)
		} else {
			d.fn = fr.get(cc.Value)
		}
		for _, a := range cc.Args {
			d.args = append(d.args, fr.get(a))
		}
		fr.defers = append(fr.defers, d)
	case *ssa.Convert:
		fr.env[in] = m.convert(fr.get(in.X), in.X.Type(), in.Type())
	case *ssa.ChangeType:
		fr.env[in] = fr.get(in.X)
	case *ssa.ChangeInterface:
		fr.env[in] = fr.get(in.X)
	case *ssa.MakeInterface:
		fr.env[in] = iface{t: in.X.Type(), v: fr.get(in.X)}
	case *ssa.Extract:
		fr.env[in] = fr.get(in.Tuple).(tup)[in.Index]
	case *ssa.FieldAddr:
		x := fr.get(in.X)
		if sa, ok := x.(symaddr); ok {
			x = fr.concretizeAddr(sa)
		}
		p := x.(*value)
		if p == nil {
			m.fail("panic.nil", in.Pos())
		}
		fr.env[in] = &(*p).(agg)[in.Field]
	case *ssa.Field:
		fr.env[in] = fr.get(in.X).(agg)[in.Field]
	case *ssa.IndexAddr:
		fr.env[in] = fr.indexAddr(in)
	case *ssa.Index:
		fr.env[in] = fr.index(in)
	case *ssa.Lookup:
		fr.env[in] = fr.lookup(in)
	case *ssa.MakeMap:
		fr.env[in] = &amap{}
	case *ssa.MapUpdate:
		mp := fr.get(in.Map).(*amap)
		if mp == nil {
			m.fail("panic.nilmap", in.Pos())
		}
		m.mapUpdate(mp, fr.get(in.Key), fr.get(in.Value))
	case *ssa.MakeSlice:
		lnv := fr.get(in.Len).(iv)
		cpv := fr.get(in.Cap).(iv)
		if lnv.sym() || cpv.sym() {
			// VCs before concretising: negative / too large
			for _, x := range []iv{lnv, cpv} {
				if x.sym() {
					zero := m.tt.bvc(x.w, 0)
					m.require("panic.make", bv{t: m.tt.bvcmp("bvsge", x.t, zero)}, in.Pos(), false)
					// prefer a model far above the budget: only those fail natively as well
					m.require("alloc.big", bv{t: m.tt.bvcmp("bvsle", x.t, m.tt.bvc(x.w, uint64(1)<<44))}, in.Pos(), false)
					m.require("alloc.big", bv{t: m.tt.bvcmp("bvsle", x.t, m.tt.bvc(x.w, uint64(m.h.allocBudget)))}, in.Pos(), false)
				}
			}
		}
		ln := m.concretize(lnv).int64()
		cp := m.concretize(cpv).int64()
		if ln < 0 || cp < ln {
			m.fail("panic.make", in.Pos())
		}
		if cp > int64(m.h.allocBudget) && !m.inInit {
			m.fail("alloc.big", in.Pos())
		}
		et := in.Type().Underlying().(*types.Slice).Elem()
		arr := make([]value, cp)
		z := zero(et)
		_, isAgg := z.(agg)
		for i := range arr {
			if isAgg {
				arr[i] = zero(et)
			} else {
				arr[i] = z
			}
		}
		fr.env[in] = slc{arr: &arr, ln: int(ln), cp: int(cp)}
	case *ssa.Slice:
		fr.env[in] = fr.slice(in)
	case *ssa.TypeAssert:
		fr.env[in] = fr.typeAssert(in)
	case *ssa.MakeClosure:
		c := &closure{fn: in.Fn.(*ssa.Function)}
		for _, b := range in.Bindings {
			c.bind = append(c.bind, fr.get(b))
		}
		fr.env[in] = c
	case *ssa.Range:
		x := fr.get(in.X)
		if isStr(x) {
			fr.env[in] = &striter{bs: strBytes(x)}
			return
		}
		mp := x.(*amap)
		it := &mapiter{}
		if mp != nil {
			it.keys = append([]value{}, mp.keys...)
			it.vals = append([]value{}, mp.vals...)
			m.permuteMapOrder(it)
		}
		fr.env[in] = it
	case *ssa.Next:
		if si, ok := fr.get(in.Iter).(*striter); ok {
			fr.env[in] = m.nextRune(si)
			return
		}
		it := fr.get(in.Iter).(*mapiter)
		if it.i >= len(it.keys) {
			fr.env[in] = tup{bv{c: false}, nil, nil}
		} else {
			fr.env[in] = tup{bv{c: true}, it.keys[it.i], it.vals[it.i]}
			it.i++
		}
	case *ssa.SliceToArrayPointer:
		x := fr.get(in.X).(slc)
		n := int(in.Type().(*types.Pointer).Elem().Underlying().(*types.Array).Len())
		if x.ln < n {
			m.fail("panic.slice", in.Pos())
		}
		a := make(agg, n)
		for i := 0; i < n; i++ {
			a[i] = (*x.arr)[x.off+i]
		}
		p := new(value)
		*p = a
		fr.env[in] = p // note: copy, aliasing with the slice is lost
	case *ssa.DebugRef:
	default:
		panic(abortPath{fmt.Sprintf("unsupported:instr %T", in)})
	}
}

func (fr *frame) storeTo(addr value, v value, pos token.Pos) {
	m := fr.m
	switch p := addr.(type) {
	case *value:
		if p == nil {
			m.fail("panic.nil", pos)
		}
		if m.h.globWrite && m.preexist != nil && !m.inInit && m.preexist[p] {
			m.fail("glob.write", pos)
		}
		m.store(p, v)
	case symaddr:
		for i, c := range p.cells {
			eq := m.tt.eq(p.idx.t, m.tt.bvc(p.idx.w, uint64(i)))
			m.setElem(c, m.iteValue(eq, v, *c))
		}
	default:
		panic(abortPath{fmt.Sprintf("unsupported:store to %T", addr)})
	}
}

// iteValue: ite(c, a, b) over scalar values.
func (m *machine) iteValue(c *T, a, b value) value {
	switch x := a.(type) {
	case iv:
		y := b.(iv)
		if !x.sym() && !y.sym() && x.c == y.c {
			return x
		}
		return iv{w: x.w, sg: x.sg, t: m.tt.ite(c, m.ivT(x), m.ivT(y))}
	case bv:
		y := b.(bv)
		if !x.sym() && !y.sym() && x.c == y.c {
			return x
		}
		return bv{t: m.tt.ite(c, m.bvT(x), m.bvT(y))}
	case fv:
		y := b.(fv)
		if !x.sym() && !y.sym() && f64bits(x.c) == f64bits(y.c) {
			return x
		}
		return fv{t: m.tt.ite(c, m.fvT(x), m.fvT(y))}
	}
	panic(abortPath{fmt.Sprintf("unsupported:ite over %T", a)})
}

func isScalar(v value) bool {
	switch v.(type) {
	case iv, bv, fv:
		return true
	}
	return false
}

func (m *machine) ivT(x iv) *T {
	if x.t != nil {
		return x.t
	}
	return m.tt.bvc(x.w, x.c)
}
func (m *machine) bvT(x bv) *T {
	if x.t != nil {
		return x.t
	}
	return m.tt.boolc(x.c)
}
func (m *machine) fvT(x fv) *T {
	if x.t != nil {
		return x.t
	}
	return m.tt.realf(x.c)
}

func (fr *frame) concretizeAddr(sa symaddr) *value {
	i := fr.m.concretize(sa.idx).int64()
	return sa.cells[i]
}

func (fr *frame) loadFrom(addr value, pos token.Pos) value {
	m := fr.m
	switch p := addr.(type) {
	case *value:
		if p == nil {
			m.fail("panic.nil", pos)
		}
		return copyVal(*p)
	case symaddr:
		return m.selectCells(p)
	}
	panic(abortPath{fmt.Sprintf("unsupported:load from %T", addr)})
}

// selectCells builds an ite chain over cells grouped by value.
func (m *machine) selectCells(p symaddr) value {
	if len(p.cells) == 0 {
		panic(abortPath{"infeasible"})
	}
	for _, c := range p.cells {
		if !isScalar(*c) {
			return copyVal(*p.cells[m.concretize(p.idx).int64()])
		}
	}
	vals := make([]value, len(p.cells))
	for i, c := range p.cells {
		vals[i] = *c
	}
	return m.selectVals(vals, p.idx)
}

func (m *machine) selectVals(vals []value, idx iv) value {
	// group concrete-equal values: value -> list of indices
	type grp struct {
		v    value
		idxs []int
	}
	var groups []*grp
	byKey := map[string]*grp{}
	for i, v := range vals {
		key := ""
		switch x := v.(type) {
		case iv:
			if !x.sym() {
				key = fmt.Sprintf("i%d", x.c)
			}
		case bv:
			if !x.sym() {
				key = fmt.Sprintf("b%v", x.c)
			}
		case fv:
			if !x.sym() {
				key = fmt.Sprintf("f%d", f64bits(x.c))
			}
		}
		if key != "" {
			if g, ok := byKey[key]; ok {
				g.idxs = append(g.idxs, i)
				continue
			}
			g := &grp{v: v, idxs: []int{i}}
			byKey[key] = g
			groups = append(groups, g)
			continue
		}
		groups = append(groups, &grp{v: v, idxs: []int{i}})
	}
	// default: the largest group
	def := 0
	for i, g := range groups {
		if len(g.idxs) > len(groups[def].idxs) {
			def = i
		}
	}
	acc := groups[def].v
	for i, g := range groups {
		if i == def {
			continue
		}
		var conds []*T
		// contiguous runs become range tests
		for a := 0; a < len(g.idxs); {
			b := a
			for b+1 < len(g.idxs) && g.idxs[b+1] == g.idxs[b]+1 {
				b++
			}
			if b == a {
				conds = append(conds, m.tt.eq(idx.t, m.tt.bvc(idx.w, uint64(g.idxs[a]))))
			} else {
				conds = append(conds, m.tt.and(
					m.tt.bvcmp("bvuge", idx.t, m.tt.bvc(idx.w, uint64(g.idxs[a]))),
					m.tt.bvcmp("bvule", idx.t, m.tt.bvc(idx.w, uint64(g.idxs[b])))))
			}
			a = b + 1
		}
		acc = m.iteValue(m.tt.or(conds...), g.v, acc)
	}
	return acc
}

func (fr *frame) unop(in *ssa.UnOp) value {
	m := fr.m
	x := fr.get(in.X)
	switch in.Op {
	case token.MUL:
		return fr.loadFrom(x, in.Pos())
	case token.NOT:
		b := x.(bv)
		if b.sym() {
			return bv{t: m.tt.not(b.t)}
		}
		return bv{c: !b.c}
	case token.SUB:
		if f, ok := x.(fv); ok {
			if f.sym() {
				return fv{t: m.tt.rneg(f.t)}
			}
			return fv{c: -f.c}
		}
		i := x.(iv)
		if i.sym() {
			return iv{w: i.w, sg: i.sg, t: m.tt.bvun("bvneg", i.t)}
		}
		return mk(i.w, i.sg, -i.c)
	case token.XOR:
		i := x.(iv)
		if i.sym() {
			return iv{w: i.w, sg: i.sg, t: m.tt.bvun("bvnot", i.t)}
		}
		return mk(i.w, i.sg, ^i.c)
	}
	panic(abortPath{"unsupported:unop " + in.Op.String()})
}

// boundsCheck raises the index VC for symbolic idx in [0,n).
func (m *machine) boundsCheck(idx iv, n int, pos token.Pos) {
	var c *T
	if idx.sg {
		c = m.tt.bvcmp("bvsge", idx.t, m.tt.bvc(idx.w, 0))
		if idx.w >= 64 || uint64(n) <= (uint64(1)<<uint(idx.w-1))-1 {
			c = m.tt.and(c, m.tt.bvcmp("bvslt", idx.t, m.tt.bvc(idx.w, uint64(n))))
		}
	} else {
		if idx.w < 64 && uint64(n) >= uint64(1)<<uint(idx.w) {
			return // every value of the index type is in range
		}
		c = m.tt.bvcmp("bvult", idx.t, m.tt.bvc(idx.w, uint64(n)))
	}
	m.require("panic.index", bv{t: c}, pos, false)
}

func (fr *frame) indexAddr(in *ssa.IndexAddr) value {
	m := fr.m
	x := fr.get(in.X)
	idx := fr.get(in.Index).(iv)
	var n int
	var base func(i int) *value
	switch x := x.(type) {
	case slc:
		n = x.ln
		base = func(i int) *value { return &(*x.arr)[x.off+i] }
	case *value:
		if x == nil {
			m.fail("panic.nil", in.Pos())
		}
		a := (*x).(agg)
		n = len(a)
		base = func(i int) *value { return &a[i] }
	case symaddr:
		p := fr.concretizeAddr(x)
		a := (*p).(agg)
		n = len(a)
		base = func(i int) *value { return &a[i] }
	default:
		panic(abortPath{fmt.Sprintf("unsupported:indexaddr on %T", x)})
	}
	if idx.sym() && idx.t.op == "bvconst" {
		idx = mk(idx.w, idx.sg, idx.t.k)
	}
	if idx.sym() {
		if n == 0 {
			m.fail("panic.index", in.Pos())
		}
		m.boundsCheck(idx, n, in.Pos())
		if n <= m.h.iteCap {
			cells := make([]*value, n)
			scalar := true
			for i := range cells {
				cells[i] = base(i)
				if !isScalar(*cells[i]) {
					scalar = false
				}
			}
			if scalar {
				return symaddr{cells: cells, idx: idx}
			}
		}
		idx = m.concretize(idx)
	}
	i := idx.int64()
	if i < 0 || int(i) >= n {
		m.fail("panic.index", in.Pos())
	}
	return base(int(i))
}

func (fr *frame) index(in *ssa.Index) value {
	m := fr.m
	x := fr.get(in.X)
	idx := fr.get(in.Index).(iv)
	var vals []value
	switch x := x.(type) {
	case agg:
		vals = x
	case string, sstr:
		bs := strBytes(x)
		vals = make([]value, len(bs))
		for i := range bs {
			vals[i] = bs[i]
		}
	default:
		panic(abortPath{fmt.Sprintf("unsupported:index on %T", x)})
	}
	return m.indexVals(vals, idx, in.Pos())
}

func (m *machine) indexVals(vals []value, idx iv, pos token.Pos) value {
	if idx.sym() && idx.t.op == "bvconst" {
		idx = mk(idx.w, idx.sg, idx.t.k)
	}
	if idx.sym() {
		if len(vals) == 0 {
			m.fail("panic.index", pos)
		}
		m.boundsCheck(idx, len(vals), pos)
		scalar := true
		for _, v := range vals {
			if !isScalar(v) {
				scalar = false
			}
		}
		if scalar && len(vals) <= m.h.iteCap {
			return m.selectVals(vals, idx)
		}
		idx = m.concretize(idx)
	}
	i := idx.int64()
	if i < 0 || int(i) >= len(vals) {
		m.fail("panic.index", pos)
	}
	return copyVal(vals[i])
}

func (fr *frame) lookup(in *ssa.Lookup) value {
	m := fr.m
	x := fr.get(in.X)
	if isStr(x) {
		bs := strBytes(x)
		vals := make([]value, len(bs))
		for i := range bs {
			vals[i] = bs[i]
		}
		return m.indexVals(vals, fr.get(in.Index).(iv), in.Pos())
	}
	mp := x.(*amap)
	k := fr.get(in.Index)
	var v value
	found := false
	if mp != nil {
		if i := m.mapFind(mp, k); i >= 0 {
			v, found = copyVal(mp.vals[i]), true
		}
	}
	if !found {
		v = zero(in.X.Type().Underlying().(*types.Map).Elem())
	}
	if in.CommaOk {
		return tup{v, bv{c: found}}
	}
	return v
}

// mapFind: index of key k in mp or -1; forks on symbolic keys.
func (m *machine) mapFind(mp *amap, k value) int {
	// fast path: concrete string/int keys
	switch kk := k.(type) {
	case string:
		sym := false
		for i, x := range mp.keys {
			if s, ok := x.(string); ok {
				if s == kk {
					return i
				}
			} else {
				sym = true
			}
		}
		if !sym {
			return -1
		}
	}
	for i := range mp.keys {
		e := m.eqValue(mp.keys[i], k)
		if m.decide(e) {
			return i
		}
	}
	return -1
}

func (m *machine) mapUpdate(mp *amap, k, v value) {
	if m.h.globWrite && m.preMaps != nil && !m.inInit && m.preMaps[mp] {
		m.fail("glob.write", token.NoPos)
	}
	i := m.mapFind(mp, k)
	m.mapTouch(mp)
	if i >= 0 {
		if !m.logging {
			mp.vals[i] = copyVal(v)
		} else {
			mp.vals[i] = copyVal(v)
		}
		return
	}
	mp.keys, mp.vals = append(mp.keys, copyVal(k)), append(mp.vals, copyVal(v))
}

func (m *machine) mapDelete(mp *amap, k value) {
	if mp == nil {
		return
	}
	i := m.mapFind(mp, k)
	if i < 0 {
		return
	}
	m.mapTouch(mp)
	mp.keys = append(append([]value{}, mp.keys[:i]...), mp.keys[i+1:]...)
	mp.vals = append(append([]value{}, mp.vals[:i]...), mp.vals[i+1:]...)
}

func (fr *frame) slice(in *ssa.Slice) value {
	m := fr.m
	x := fr.get(in.X)
	var ln, cp int
	switch x := x.(type) {
	case slc:
		ln, cp = x.ln, x.cp
	case string:
		ln, cp = len(x), len(x)
	case sstr:
		ln, cp = len(x), len(x)
	case *value:
		if x == nil {
			m.fail("panic.nil", in.Pos())
		}
		ln = len((*x).(agg))
		cp = ln
	default:
		panic(abortPath{fmt.Sprintf("unsupported:slice of %T", x)})
	}
	// symbolic bounds: raise the VC 0 <= lo <= hi <= max <= cap, then concretise
	getv := func(v ssa.Value, def int) iv {
		if v == nil {
			return mkInt(int64(def))
		}
		return fr.get(v).(iv)
	}
	lov, hiv, mxv := getv(in.Low, 0), getv(in.High, ln), getv(in.Max, cp)
	if lov.sym() || hiv.sym() || mxv.sym() {
		tt := m.tt
		c := tt.and(
			tt.bvcmp("bvsle", tt.bvc(64, 0), m.ivT(lov)),
			tt.bvcmp("bvsle", m.ivT(lov), m.ivT(hiv)),
			tt.bvcmp("bvsle", m.ivT(hiv), m.ivT(mxv)),
			tt.bvcmp("bvsle", m.ivT(mxv), tt.bvc(64, uint64(cp))))
		m.require("panic.slice", bv{t: c}, in.Pos(), false)
	}
	lo := int(m.concretize(lov).int64())
	hi := int(m.concretize(hiv).int64())
	mx := int(m.concretize(mxv).int64())
	if lo < 0 || hi < lo || mx < hi || mx > cp {
		m.fail("panic.slice", in.Pos())
	}
	switch x := x.(type) {
	case slc:
		if x.arr == nil && hi == 0 {
			return slc{}
		}
		return slc{arr: x.arr, off: x.off + lo, ln: hi - lo, cp: mx - lo}
	case string, sstr:
		bs := strBytes(x)
		return mkStr(bs[lo:hi])
	case *value:
		a := (*x).(agg)
		arr := []value(a)
		return slc{arr: &arr, off: lo, ln: hi - lo, cp: mx - lo}
	}
	panic(abortPath{"unsupported:slice"})
}

func (fr *frame) typeAssert(in *ssa.TypeAssert) value {
	m := fr.m
	x := fr.get(in.X).(iface)
	_, toIface := in.AssertedType.Underlying().(*types.Interface)
	ok := false
	if x.t != nil {
		if toIface {
			ok = types.Implements(x.t, in.AssertedType.Underlying().(*types.Interface))
		} else {
			ok = types.Identical(x.t, in.AssertedType)
		}
	}
	var v value
	if ok {
		if toIface {
			v = x
		} else {
			v = x.v
		}
	} else {
		v = zero(in.AssertedType)
	}
	if in.CommaOk {
		return tup{v, bv{c: ok}}
	}
	if !ok {
		m.fail("panic.assert", in.Pos())
	}
	return v
}

func (m *machine) lookupMethod(t types.Type, meth *types.Func) *ssa.Function {
	ms := m.prog.MethodSets.MethodSet(t)
	sel := ms.Lookup(meth.Pkg(), meth.Name())
	if sel == nil {
		panic(abortPath{"internal:no method " + meth.Name() + " on " + t.String()})
	}
	fn := m.prog.MethodValue(sel)
	if fn == nil {
		panic(abortPath{"unsupported:abstract method " + meth.Name()})
	}
	return fn
}

// permuteMapOrder: in maporder=all harnesses the iteration order of small maps is a fork.
func (m *machine) permuteMapOrder(it *mapiter) {
	if !m.h.mapOrderAll || m.inInit || len(it.keys) < 2 {
		return
	}
	n := len(it.keys)
	if n > 4 {
		// larger maps: three representative orders - insertion order, its reverse, and a stride
		// permutation (i*k mod n, k coprime to n and close to n/2, so neighbours in insertion order
		// are far apart) - enough to expose a dependence on iteration order without claiming all n! orders
		switch m.enumerate(0, 2) {
		case 1:
			for i, j := 0, n-1; i < j; i, j = i+1, j-1 {
				it.keys[i], it.keys[j] = it.keys[j], it.keys[i]
				it.vals[i], it.vals[j] = it.vals[j], it.vals[i]
			}
		case 2:
			k := n/2 - 1
			for k > 1 && gcdInt(k, n) != 1 {
				k--
			}
			if k < 1 {
				k = 1
			}
			nk, nv := make([]value, n), make([]value, n)
			for i := 0; i < n; i++ {
				nk[i], nv[i] = it.keys[(i*k)%n], it.vals[(i*k)%n]
			}
			copy(it.keys, nk)
			copy(it.vals, nv)
		}
		return
	}
	// Fisher-Yates with enumerated choices
	for i := 0; i < n-1; i++ {
		j := int(m.enumerate(int64(i), int64(n-1)))
		it.keys[i], it.keys[j] = it.keys[j], it.keys[i]
		it.vals[i], it.vals[j] = it.vals[j], it.vals[i]
	}
}

func gcdInt(a, b int) int {
	for b != 0 {
		a, b = b, a%b
	}
	return a
}

// initCall runs one call of a package initialiser; if it cannot be interpreted its result is the
// zero value of its type.
func (fr *frame) initCall(in *ssa.Call) (res value) {
	m := fr.m
	depth, stack := m.depth, m.stack
	defer func() {
		if r := recover(); r != nil {
			a, ok := r.(abortPath)
			if !ok || !(strings.HasPrefix(a.why, "unsupported") || strings.HasPrefix(a.why, "internal:")) {
				panic(r)
			}
			m.depth, m.stack = depth, stack
			m.st.fnSeen["note:initialiser call skipped in "+fr.fn.Pkg.Pkg.Path()+": "+in.Common().String()+" ("+a.why+")"] = true
			res = zero(in.Type())
		}
	}()
	return fr.doCall(in.Common(), in.Pos())
}
