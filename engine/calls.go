package main

import (
	"fmt"
	"go/token"
	"go/types"
	"strings"

	"golang.org/x/tools/go/ssa"
)

func (fr *frame) doCall(cc *ssa.CallCommon, pos token.Pos) value {
	m := fr.m
	if cc.IsInvoke() {
		recv := fr.get(cc.Value).(iface)
		if recv.t == nil {
			m.fail("panic.nil", pos)
		}
		fn := m.lookupMethod(recv.t, cc.Method)
		args := make([]value, 0, len(cc.Args)+1)
		args = append(args, recv.v)
		for _, a := range cc.Args {
			args = append(args, fr.get(a))
		}
		return m.call(fn, args, nil, pos)
	}
	args := make([]value, 0, len(cc.Args))
	for _, a := range cc.Args {
		args = append(args, fr.get(a))
	}
	return fr.callValue(fr.get(cc.Value), cc, args, pos)
}

func (fr *frame) callValue(f value, cc *ssa.CallCommon, args []value, pos token.Pos) value {
	m := fr.m
	switch f := f.(type) {
	case *ssa.Builtin:
		return fr.builtin(f, cc, args, pos)
	case *closure:
		if f == nil {
			m.fail("panic.nilfunc", pos)
		}
		return m.call(f.fn, args, f.bind, pos)
	}
	panic(abortPath{fmt.Sprintf("unsupported:call of %T", f)})
}

// call dispatch: redirection, intrinsic/model, host-native, summary, body.
func (m *machine) call(fn *ssa.Function, args []value, bind []value, pos token.Pos) value {
	name := fn.String()
	if fn.Name() == "init" && fn.Pkg != nil && fn.Synthetic == "package initializer" {
		// a package initializer called from another one: run it isolated (an abort inside
		// it must not abort the importer's own initialisers)
		m.ensureInit(fn.Pkg)
		return nil
	}
	if !m.inInit {
		if r, ok := m.h.redirects[name]; ok {
			m.st.fnSeen["redirect:"+name+" -> "+r.Name()] = true
			return m.callBody(r, args, nil)
		}
	}
	if r, ok := m.intrinsic(name, fn, args, pos); ok {
		return r
	}
	if fn.Blocks == nil {
		if fn.Pkg != nil && !m.inInit {
			m.st.unsupported["nobody:"+name]++
		}
		panic(abortPath{"unsupported:nobody:" + name})
	}
	if m.h.summaries && !m.inInit && m.summarizable(fn) {
		anySym := false
		for _, a := range args {
			switch a := a.(type) {
			case iv:
				anySym = anySym || a.sym()
			case bv:
				anySym = anySym || a.sym()
			case fv:
				anySym = anySym || a.sym()
			}
		}
		if anySym {
			if r, ok := m.applySummary(fn, args, pos); ok {
				return r
			}
		}
	}
	return m.callBody(fn, args, bind)
}

func (fr *frame) builtin(b *ssa.Builtin, cc *ssa.CallCommon, args []value, pos token.Pos) value {
	m := fr.m
	switch b.Name() {
	case "len":
		switch x := args[0].(type) {
		case slc:
			return mkInt(int64(x.ln))
		case string:
			return mkInt(int64(len(x)))
		case sstr:
			return mkInt(int64(len(x)))
		case *amap:
			if x == nil {
				return mkInt(0)
			}
			return mkInt(int64(len(x.keys)))
		case agg:
			return mkInt(int64(len(x)))
		case *value:
			if x == nil {
				return mkInt(int64(cc.Args[0].Type().Underlying().(*types.Pointer).Elem().Underlying().(*types.Array).Len()))
			}
			return mkInt(int64(len((*x).(agg))))
		case nil:
			return mkInt(0)
		}
	case "cap":
		switch x := args[0].(type) {
		case slc:
			return mkInt(int64(x.cp))
		case agg:
			return mkInt(int64(len(x)))
		}
	case "append":
		return fr.appendBuiltin(cc, args, pos)
	case "copy":
		d := args[0].(slc)
		n := d.ln
		var src []value
		switch s := args[1].(type) {
		case slc:
			if s.ln < n {
				n = s.ln
			}
			src = make([]value, n)
			for i := 0; i < n; i++ {
				src[i] = (*s.arr)[s.off+i]
			}
		case string, sstr:
			bs := strBytes(s)
			if len(bs) < n {
				n = len(bs)
			}
			src = make([]value, n)
			for i := 0; i < n; i++ {
				src[i] = bs[i]
			}
		}
		for i := 0; i < n; i++ {
			m.writeElem(&(*d.arr)[d.off+i], src[i], pos)
		}
		return mkInt(int64(n))
	case "delete":
		mp, _ := args[0].(*amap)
		m.mapDelete(mp, args[1])
		return nil
	case "min", "max":
		acc := args[0]
		for _, a := range args[1:] {
			var less value
			if b.Name() == "min" {
				less = m.binop(token.LSS, a, acc, pos)
			} else {
				less = m.binop(token.GTR, a, acc, pos)
			}
			lb := less.(bv)
			if !lb.sym() {
				if lb.c {
					acc = a
				}
				continue
			}
			acc = m.iteValue(lb.t, a, acc)
		}
		return acc
	case "panic":
		m.fail("panic.explicit", pos)
	case "print", "println":
		return nil
	case "clear":
		switch x := args[0].(type) {
		case *amap:
			if x != nil {
				m.mapTouch(x)
				x.keys, x.vals = nil, nil
			}
		case slc:
			et := cc.Args[0].Type().Underlying().(*types.Slice).Elem()
			for i := 0; i < x.ln; i++ {
				m.writeElem(&(*x.arr)[x.off+i], zero(et), pos)
			}
		}
		return nil
	case "ssa:wrapnilchk":
		// wrapper for a method value / promoted method: the receiver pointer must not be nil
		if p, ok := args[0].(*value); ok && p == nil {
			m.fail("panic.nil", pos)
		}
		return args[0]
	case "recover":
		return iface{}
	}
	panic(abortPath{"unsupported:builtin " + b.Name()})
}

func (m *machine) writeElem(p *value, v value, pos token.Pos) {
	if m.h.globWrite && m.preexist != nil && !m.inInit && m.preexist[p] {
		m.fail("glob.write", pos)
	}
	m.store(p, v)
}

func (fr *frame) appendBuiltin(cc *ssa.CallCommon, args []value, pos token.Pos) value {
	m := fr.m
	s := args[0].(slc)
	var add []value
	switch t := args[1].(type) {
	case slc:
		add = make([]value, t.ln)
		for i := 0; i < t.ln; i++ {
			add[i] = (*t.arr)[t.off+i]
		}
	case string, sstr:
		for _, b := range strBytes(t) {
			add = append(add, b)
		}
	case nil:
	}
	if len(add) == 0 {
		return s
	}
	need := s.ln + len(add)
	if s.arr != nil && need <= s.cp {
		for i, v := range add {
			m.writeElem(&(*s.arr)[s.off+s.ln+i], v, pos)
		}
		return slc{arr: s.arr, off: s.off, ln: need, cp: s.cp}
	}
	var ncap int
	if m.h.appendExact {
		ncap = need
	} else {
		// Go's growth policy (without size-class rounding)
		ncap = s.cp
		dbl := ncap + ncap
		switch {
		case need > dbl:
			ncap = need
		case s.cp < 256:
			ncap = dbl
		default:
			for ncap < need {
				ncap += (ncap + 3*256) / 4
			}
		}
		if ncap < need {
			ncap = need
		}
	}
	if ncap > m.h.allocBudget && !m.inInit {
		m.fail("alloc.big", pos)
	}
	et := cc.Args[0].Type().Underlying().(*types.Slice).Elem()
	arr := make([]value, ncap)
	z := zero(et)
	_, isAgg := z.(agg)
	for i := range arr {
		switch {
		case i < s.ln:
			arr[i] = copyVal((*s.arr)[s.off+i])
		case i < need:
			arr[i] = copyVal(add[i-s.ln])
		case isAgg:
			arr[i] = zero(et)
		default:
			arr[i] = z
		}
	}
	return slc{arr: &arr, ln: need, cp: ncap}
}

// ---- helpers for building interpreter values of library types

// mkError builds an error value (*errors.errorString) with the given message.
func (m *machine) mkError(msg value) value {
	p := new(value)
	*p = agg{msg}
	return iface{t: m.eng.errT, v: p}
}

// mkWrapError builds a *fmt.wrapError{msg, err}.
func (m *machine) mkWrapError(msg value, inner value) value {
	if m.eng.wrapErrT == nil {
		return m.mkError(msg)
	}
	p := new(value)
	*p = agg{msg, inner}
	return iface{t: m.eng.wrapErrT, v: p}
}

func sliceOf(vals []value) slc {
	arr := append([]value{}, vals...)
	return slc{arr: &arr, ln: len(arr), cp: len(arr)}
}

func bytesToSlice(bs []iv) slc {
	arr := make([]value, len(bs))
	for i := range bs {
		arr[i] = bs[i]
	}
	return slc{arr: &arr, ln: len(arr), cp: len(arr)}
}

func sliceBytes(s slc) []iv {
	out := make([]iv, s.ln)
	for i := range out {
		out[i] = (*s.arr)[s.off+i].(iv)
	}
	return out
}

func concreteBytes(bs []iv) ([]byte, bool) {
	out := make([]byte, len(bs))
	for i, b := range bs {
		if b.sym() {
			return nil, false
		}
		out[i] = byte(b.c)
	}
	return out, true
}

func isHarnessRT(short string) bool { return strings.HasPrefix(short, "v") && len(short) > 1 && short[1] >= 'A' && short[1] <= 'Z' }
