package main

// Hash-consed SMT terms (bit-vectors, booleans, reals) with light simplification,
// DAG-compressed printing and concrete evaluation under a model.

import (
	"fmt"
	"math/big"
	"strconv"
	"strings"
)

const (
	sortBool = 0
	sortReal = -1
)

// T is one term node. w > 0: BitVec w; w == 0: Bool; w == -1: Real.
type T struct {
	op   string
	args []*T
	w    int
	k    uint64   // bv constant value, or packed parameters (extract hi<<8|lo, extend amount)
	name string   // variable name
	rat  *big.Rat // real constant
	id   int
	size int // tree size estimate (saturating)
	def  string
	lo, hi int64 // signed interval valid for all assignments when ivOK
	ivOK   bool
	vset []*T // variables occurring in the term (sorted by id), nil+vmany if more than maxVset
	vmany bool
}

const maxVset = 12

type termTable struct {
	tab  map[string]*T
	next int
	// evaluation memo
	evEpoch int
	evStamp []int
	evVal   []evalV
}

type evalV struct {
	ok bool
	u  uint64
	b  bool
	r  *big.Rat
}

func newTermTable() *termTable { return &termTable{tab: map[string]*T{}} }

func (tt *termTable) intern(op string, w int, k uint64, name string, rat *big.Rat, args ...*T) *T {
	var sb strings.Builder
	sb.WriteString(op)
	sb.WriteByte('|')
	sb.WriteString(strconv.Itoa(w))
	sb.WriteByte('|')
	sb.WriteString(strconv.FormatUint(k, 16))
	sb.WriteByte('|')
	sb.WriteString(name)
	if rat != nil {
		sb.WriteByte('|')
		sb.WriteString(rat.String())
	}
	for _, a := range args {
		sb.WriteByte(',')
		sb.WriteString(strconv.Itoa(a.id))
	}
	key := sb.String()
	if t, ok := tt.tab[key]; ok {
		return t
	}
	sz := 1
	for _, a := range args {
		sz += a.size
		if sz > 1<<30 {
			sz = 1 << 30
		}
	}
	t := &T{op: op, args: args, w: w, k: k, name: name, rat: rat, id: tt.next, size: sz}
	if op == "var" {
		t.vset = []*T{t}
	} else {
		for _, a := range args {
			if a.vmany {
				t.vmany = true
				break
			}
			t.vset = mergeVset(t.vset, a.vset)
			if len(t.vset) > maxVset {
				t.vmany = true
				break
			}
		}
		if t.vmany {
			t.vset = nil
		}
	}
	tt.next++
	tt.tab[key] = t
	computeInterval(t)
	return t
}

func mergeVset(a, b []*T) []*T {
	if len(a) == 0 {
		return b
	}
	if len(b) == 0 {
		return a
	}
	out := make([]*T, 0, len(a)+len(b))
	i, j := 0, 0
	for i < len(a) && j < len(b) {
		switch {
		case a[i].id < b[j].id:
			out = append(out, a[i])
			i++
		case a[i].id > b[j].id:
			out = append(out, b[j])
			j++
		default:
			out = append(out, a[i])
			i++
			j++
		}
	}
	out = append(out, a[i:]...)
	out = append(out, b[j:]...)
	return out
}

func (t *T) isConst() bool {
	return t.op == "bvconst" || t.op == "true" || t.op == "false" || t.op == "realconst"
}

func (tt *termTable) bvc(w int, v uint64) *T { return tt.intern("bvconst", w, v&mask(w), "", nil) }
func (tt *termTable) boolc(b bool) *T {
	if b {
		return tt.intern("true", 0, 0, "", nil)
	}
	return tt.intern("false", 0, 0, "", nil)
}
func (tt *termTable) realc(r *big.Rat) *T {
	return tt.intern("realconst", sortReal, 0, "", new(big.Rat).Set(r))
}
func (tt *termTable) realf(f float64) *T {
	r := new(big.Rat)
	if r.SetFloat64(f) == nil {
		r = new(big.Rat)
	}
	return tt.realc(r)
}
func (tt *termTable) v(name string, w int) *T { return tt.intern("var", w, 0, name, nil) }

func mask(w int) uint64 {
	if w >= 64 {
		return ^uint64(0)
	}
	return (uint64(1) << uint(w)) - 1
}

func sext(v uint64, w int) int64 {
	if w < 64 && v&(1<<uint(w-1)) != 0 {
		return int64(v | ^mask(w))
	}
	return int64(v)
}

// ---- constructors with simplification

func (tt *termTable) not(a *T) *T {
	switch a.op {
	case "true":
		return tt.boolc(false)
	case "false":
		return tt.boolc(true)
	case "not":
		return a.args[0]
	}
	return tt.intern("not", 0, 0, "", nil, a)
}

func (tt *termTable) and(as ...*T) *T {
	var out []*T
	seen := map[int]bool{}
	for _, a := range as {
		switch a.op {
		case "true":
			continue
		case "false":
			return a
		case "and":
			for _, x := range a.args {
				if !seen[x.id] {
					seen[x.id] = true
					out = append(out, x)
				}
			}
			continue
		}
		if !seen[a.id] {
			seen[a.id] = true
			out = append(out, a)
		}
	}
	switch len(out) {
	case 0:
		return tt.boolc(true)
	case 1:
		return out[0]
	}
	return tt.intern("and", 0, 0, "", nil, out...)
}

func (tt *termTable) or(as ...*T) *T {
	var out []*T
	seen := map[int]bool{}
	for _, a := range as {
		switch a.op {
		case "false":
			continue
		case "true":
			return a
		case "or":
			for _, x := range a.args {
				if !seen[x.id] {
					seen[x.id] = true
					out = append(out, x)
				}
			}
			continue
		}
		if !seen[a.id] {
			seen[a.id] = true
			out = append(out, a)
		}
	}
	switch len(out) {
	case 0:
		return tt.boolc(false)
	case 1:
		return out[0]
	}
	return tt.intern("or", 0, 0, "", nil, out...)
}

func (tt *termTable) ite(c, a, b *T) *T {
	switch c.op {
	case "true":
		return a
	case "false":
		return b
	}
	if a == b {
		return a
	}
	if a.w == 0 {
		if a.op == "true" && b.op == "false" {
			return c
		}
		if a.op == "false" && b.op == "true" {
			return tt.not(c)
		}
	}
	return tt.intern("ite", a.w, 0, "", nil, c, a, b)
}

func (tt *termTable) eq(a, b *T) *T {
	if a == b {
		return tt.boolc(true)
	}
	if a.isConst() && b.isConst() {
		switch a.op {
		case "bvconst":
			return tt.boolc(a.k == b.k)
		case "realconst":
			return tt.boolc(a.rat.Cmp(b.rat) == 0)
		default:
			return tt.boolc(a.op == b.op)
		}
	}
	if a.w == 0 {
		if a.op == "true" {
			return b
		}
		if b.op == "true" {
			return a
		}
		if a.op == "false" {
			return tt.not(b)
		}
		if b.op == "false" {
			return tt.not(a)
		}
	}
	if a.w > 0 && a.ivOK && b.ivOK && (a.hi < b.lo || b.hi < a.lo) {
		return tt.boolc(false)
	}
	// int(x) == int(y) / int(x) == c over reals: compare the truncations as integers-in-Real
	// instead of through int2bv (which every back end bit-blasts through div/mod chains).
	// Equivalent whenever the truncations fit the width; out-of-range float->int conversion
	// is implementation-defined in Go, and any counterexample is replayed natively anyway.
	if a.op == "real2bv" && b.op == "real2bv" && a.w == b.w {
		return tt.eq(tt.rtrunc(a.args[0]), tt.rtrunc(b.args[0]))
	}
	if a.op == "real2bv" && b.op == "bvconst" {
		return tt.eq(tt.rtrunc(a.args[0]), tt.realc(new(big.Rat).SetInt64(sext(b.k, a.w))))
	}
	if b.op == "real2bv" && a.op == "bvconst" {
		return tt.eq(tt.rtrunc(b.args[0]), tt.realc(new(big.Rat).SetInt64(sext(a.k, b.w))))
	}
	if a.id > b.id {
		a, b = b, a
	}
	return tt.intern("=", 0, 0, "", nil, a, b)
}

// bv binary arithmetic / bitwise
func (tt *termTable) bvbin(op string, a, b *T) *T {
	w := a.w
	if a.op == "bvconst" && b.op == "bvconst" {
		if v, ok := evalBVBin(op, w, a.k, b.k); ok {
			return tt.bvc(w, v)
		}
	}
	// identities
	switch op {
	case "bvadd":
		if a.op == "bvconst" && a.k == 0 {
			return b
		}
		if b.op == "bvconst" && b.k == 0 {
			return a
		}
		if a.op == "bvconst" {
			a, b = b, a
		}
		if b.op == "bvconst" && a.op == "bvadd" && a.args[1].op == "bvconst" {
			return tt.bvbin("bvadd", a.args[0], tt.bvc(w, a.args[1].k+b.k))
		}
	case "bvsub":
		if b.op == "bvconst" && b.k == 0 {
			return a
		}
		if a == b {
			return tt.bvc(w, 0)
		}
		if b.op == "bvconst" {
			// x - c  ==>  x + (-c), which then merges with a constant addend of x
			return tt.bvbin("bvadd", a, tt.bvc(w, -b.k))
		}
	case "bvmul":
		if a.op == "bvconst" && a.k == 1 {
			return b
		}
		if b.op == "bvconst" && b.k == 1 {
			return a
		}
		if (a.op == "bvconst" && a.k == 0) || (b.op == "bvconst" && b.k == 0) {
			return tt.bvc(w, 0)
		}
	case "bvand":
		if (a.op == "bvconst" && a.k == 0) || (b.op == "bvconst" && b.k == 0) {
			return tt.bvc(w, 0)
		}
		if a.op == "bvconst" && a.k == mask(w) {
			return b
		}
		if b.op == "bvconst" && b.k == mask(w) {
			return a
		}
		if a == b {
			return a
		}
	case "bvor":
		if a.op == "bvconst" && a.k == 0 {
			return b
		}
		if b.op == "bvconst" && b.k == 0 {
			return a
		}
		if a == b {
			return a
		}
	case "bvxor":
		if a.op == "bvconst" && a.k == 0 {
			return b
		}
		if b.op == "bvconst" && b.k == 0 {
			return a
		}
	case "bvshl", "bvlshr", "bvashr":
		if b.op == "bvconst" && b.k == 0 {
			return a
		}
	}
	return tt.intern(op, w, 0, "", nil, a, b)
}

func (tt *termTable) bvun(op string, a *T) *T {
	if a.op == "bvconst" {
		switch op {
		case "bvneg":
			return tt.bvc(a.w, -a.k)
		case "bvnot":
			return tt.bvc(a.w, ^a.k)
		}
	}
	return tt.intern(op, a.w, 0, "", nil, a)
}

// bv comparison: bvult bvule bvugt bvuge bvslt bvsle bvsgt bvsge
func (tt *termTable) bvcmp(op string, a, b *T) *T {
	if a.op == "bvconst" && b.op == "bvconst" {
		return tt.boolc(evalBVCmp(op, a.w, a.k, b.k))
	}
	if a == b {
		switch op {
		case "bvule", "bvuge", "bvsle", "bvsge":
			return tt.boolc(true)
		default:
			return tt.boolc(false)
		}
	}
	if v, ok := cmpByInterval(op, a, b); ok {
		return tt.boolc(v)
	}
	// x + y compared with x, where the sum cannot wrap and y >= 0: the sum is never smaller
	if a.op == "bvadd" && a.ivOK && a.lo >= 0 {
		for i := 0; i < 2; i++ {
			x, y := a.args[i], a.args[1-i]
			if x == b && x.ivOK && x.lo >= 0 && y.ivOK && y.lo >= 0 {
				switch op {
				case "bvult", "bvslt":
					return tt.boolc(false)
				case "bvuge", "bvsge":
					return tt.boolc(true)
				}
			}
		}
	}
	return tt.intern(op, 0, 0, "", nil, a, b)
}

func (tt *termTable) extract(hi, lo int, a *T) *T {
	if a.op == "bvconst" {
		return tt.bvc(hi-lo+1, a.k>>uint(lo))
	}
	if lo == 0 && hi == a.w-1 {
		return a
	}
	// extract of zero/sign extend back to original width
	if (a.op == "zero_extend" || a.op == "sign_extend") && lo == 0 && hi == a.args[0].w-1 {
		return a.args[0]
	}
	return tt.intern("extract", hi-lo+1, uint64(hi)<<8|uint64(lo), "", nil, a)
}

func (tt *termTable) zext(n int, a *T) *T {
	if n == 0 {
		return a
	}
	if a.op == "bvconst" {
		return tt.bvc(a.w+n, a.k)
	}
	return tt.intern("zero_extend", a.w+n, uint64(n), "", nil, a)
}

func (tt *termTable) sextT(n int, a *T) *T {
	if n == 0 {
		return a
	}
	if a.op == "bvconst" {
		return tt.bvc(a.w+n, uint64(sext(a.k, a.w)))
	}
	return tt.intern("sign_extend", a.w+n, uint64(n), "", nil, a)
}

// reals
func (tt *termTable) rbin(op string, a, b *T) *T {
	if a.op == "realconst" && b.op == "realconst" {
		r := new(big.Rat)
		switch op {
		case "+":
			return tt.realc(r.Add(a.rat, b.rat))
		case "-":
			return tt.realc(r.Sub(a.rat, b.rat))
		case "*":
			return tt.realc(r.Mul(a.rat, b.rat))
		case "/":
			if b.rat.Sign() != 0 {
				return tt.realc(r.Quo(a.rat, b.rat))
			}
		}
	}
	isZero := func(x *T) bool { return x.op == "realconst" && x.rat.Sign() == 0 }
	isOne := func(x *T) bool { return x.op == "realconst" && x.rat.Cmp(big.NewRat(1, 1)) == 0 }
	switch op {
	case "+":
		if isZero(a) {
			return b
		}
		if isZero(b) {
			return a
		}
	case "-":
		if isZero(b) {
			return a
		}
	case "*":
		if isZero(a) || isZero(b) {
			return tt.realc(new(big.Rat))
		}
		if isOne(a) {
			return b
		}
		if isOne(b) {
			return a
		}
	case "/":
		if isOne(b) {
			return a
		}
	}
	return tt.intern(op, sortReal, 0, "", nil, a, b)
}

func (tt *termTable) rneg(a *T) *T {
	if a.op == "realconst" {
		return tt.realc(new(big.Rat).Neg(a.rat))
	}
	return tt.intern("neg", sortReal, 0, "", nil, a)
}

func (tt *termTable) rcmp(op string, a, b *T) *T {
	if a.op == "realconst" && b.op == "realconst" {
		c := a.rat.Cmp(b.rat)
		switch op {
		case "<":
			return tt.boolc(c < 0)
		case "<=":
			return tt.boolc(c <= 0)
		case ">":
			return tt.boolc(c > 0)
		case ">=":
			return tt.boolc(c >= 0)
		}
	}
	return tt.intern(op, 0, 0, "", nil, a, b)
}

// to_real of signed bv (via bv2int)
func (tt *termTable) bv2real(a *T, signed bool) *T {
	if a.op == "bvconst" {
		if signed {
			return tt.realc(new(big.Rat).SetInt64(sext(a.k, a.w)))
		}
		return tt.realc(new(big.Rat).SetInt(new(big.Int).SetUint64(a.k)))
	}
	k := uint64(0)
	if signed {
		k = 1
	}
	return tt.intern("bv2real", sortReal, k, "", nil, a)
}

// rtrunc: truncation toward zero of a real, as a real
func (tt *termTable) rtrunc(a *T) *T {
	if a.op == "realconst" {
		q := new(big.Int).Quo(a.rat.Num(), a.rat.Denom())
		return tt.realc(new(big.Rat).SetInt(q))
	}
	return tt.intern("rtrunc", sortReal, 0, "", nil, a)
}

// real -> bv of width w, truncating toward zero (Go float->int conversion)
func (tt *termTable) real2bv(a *T, w int) *T {
	if a.op == "realconst" {
		q := new(big.Int).Quo(a.rat.Num(), a.rat.Denom()) // truncates toward zero
		return tt.bvc(w, uint64(q.Int64()))
	}
	// int(float64(x)) for a signed x of the same width is x when floats are modelled as reals
	// (the engine's stated approximation: rounding above 2^53 is not modelled)
	if a.op == "bv2real" && a.k == 1 && a.args[0].w == w {
		return a.args[0]
	}
	return tt.intern("real2bv", w, 0, "", nil, a)
}

// floor(real) as real
func (tt *termTable) rfloor(a *T) *T {
	if a.op == "realconst" {
		return tt.realc(ratFloor(a.rat))
	}
	return tt.intern("floor", sortReal, 0, "", nil, a)
}

func ratFloor(r *big.Rat) *big.Rat {
	q := new(big.Int)
	m := new(big.Int)
	q.DivMod(r.Num(), r.Denom(), m) // Euclidean: floor for positive denominators
	return new(big.Rat).SetInt(q)
}

// ---- concrete semantics

func evalBVBin(op string, w int, a, b uint64) (uint64, bool) {
	m := mask(w)
	a, b = a&m, b&m
	switch op {
	case "bvadd":
		return (a + b) & m, true
	case "bvsub":
		return (a - b) & m, true
	case "bvmul":
		return (a * b) & m, true
	case "bvand":
		return a & b, true
	case "bvor":
		return a | b, true
	case "bvxor":
		return a ^ b, true
	case "bvudiv":
		if b == 0 {
			return m, true
		}
		return a / b, true
	case "bvurem":
		if b == 0 {
			return a, true
		}
		return a % b, true
	case "bvsdiv":
		sa, sb := sext(a, w), sext(b, w)
		if sb == 0 {
			if sa >= 0 {
				return m, true
			}
			return 1, true
		}
		if sb == -1 {
			return uint64(-sa) & m, true
		}
		return uint64(sa/sb) & m, true
	case "bvsrem":
		sa, sb := sext(a, w), sext(b, w)
		if sb == 0 {
			return a, true
		}
		if sb == -1 {
			return 0, true
		}
		return uint64(sa%sb) & m, true
	case "bvshl":
		if b >= uint64(w) {
			return 0, true
		}
		return (a << b) & m, true
	case "bvlshr":
		if b >= uint64(w) {
			return 0, true
		}
		return a >> b, true
	case "bvashr":
		sa := sext(a, w)
		if b >= uint64(w) {
			b = uint64(w - 1)
		}
		return uint64(sa>>b) & m, true
	}
	return 0, false
}

func evalBVCmp(op string, w int, a, b uint64) bool {
	sa, sb := sext(a, w), sext(b, w)
	switch op {
	case "bvult":
		return a < b
	case "bvule":
		return a <= b
	case "bvugt":
		return a > b
	case "bvuge":
		return a >= b
	case "bvslt":
		return sa < sb
	case "bvsle":
		return sa <= sb
	case "bvsgt":
		return sa > sb
	case "bvsge":
		return sa >= sb
	}
	panic("bad cmp " + op)
}

// ---- evaluation under a model

type model struct {
	bv   map[string]uint64
	real map[string]*big.Rat
	bl   map[string]bool
}

func newModel() *model {
	return &model{bv: map[string]uint64{}, real: map[string]*big.Rat{}, bl: map[string]bool{}}
}

func (tt *termTable) beginEval() {
	tt.evEpoch++
}

// eval returns ok=false when the term cannot be evaluated (missing variable etc.).
func (tt *termTable) eval(t *T, m *model) evalV {
	if t.id < len(tt.evStamp) && tt.evStamp[t.id] == tt.evEpoch {
		return tt.evVal[t.id]
	}
	r := tt.eval1(t, m)
	for t.id >= len(tt.evStamp) {
		tt.evStamp = append(tt.evStamp, make([]int, 1024)...)
		tt.evVal = append(tt.evVal, make([]evalV, 1024)...)
	}
	tt.evStamp[t.id] = tt.evEpoch
	tt.evVal[t.id] = r
	return r
}

func (tt *termTable) eval1(t *T, m *model) evalV {
	bad := evalV{}
	switch t.op {
	case "bvconst":
		return evalV{ok: true, u: t.k}
	case "true":
		return evalV{ok: true, b: true}
	case "false":
		return evalV{ok: true, b: false}
	case "realconst":
		return evalV{ok: true, r: t.rat}
	case "var":
		switch {
		case t.w > 0:
			v, ok := m.bv[t.name]
			if !ok {
				// unconstrained variable: any value works only if the solver omitted it; be safe
				return bad
			}
			return evalV{ok: true, u: v & mask(t.w)}
		case t.w == 0:
			v, ok := m.bl[t.name]
			if !ok {
				return bad
			}
			return evalV{ok: true, b: v}
		default:
			v, ok := m.real[t.name]
			if !ok {
				return bad
			}
			return evalV{ok: true, r: v}
		}
	}
	// short-circuit forms first
	switch t.op {
	case "and":
		for _, a := range t.args {
			v := tt.eval(a, m)
			if !v.ok {
				return bad
			}
			if !v.b {
				return evalV{ok: true, b: false}
			}
		}
		return evalV{ok: true, b: true}
	case "or":
		for _, a := range t.args {
			v := tt.eval(a, m)
			if !v.ok {
				return bad
			}
			if v.b {
				return evalV{ok: true, b: true}
			}
		}
		return evalV{ok: true, b: false}
	case "ite":
		c := tt.eval(t.args[0], m)
		if !c.ok {
			return bad
		}
		if c.b {
			return tt.eval(t.args[1], m)
		}
		return tt.eval(t.args[2], m)
	}
	av := make([]evalV, len(t.args))
	for i, a := range t.args {
		av[i] = tt.eval(a, m)
		if !av[i].ok {
			return bad
		}
	}
	switch t.op {
	case "not":
		return evalV{ok: true, b: !av[0].b}
	case "=":
		a := t.args[0]
		switch {
		case a.w > 0:
			return evalV{ok: true, b: av[0].u == av[1].u}
		case a.w == 0:
			return evalV{ok: true, b: av[0].b == av[1].b}
		default:
			return evalV{ok: true, b: av[0].r.Cmp(av[1].r) == 0}
		}
	case "bvult", "bvule", "bvugt", "bvuge", "bvslt", "bvsle", "bvsgt", "bvsge":
		return evalV{ok: true, b: evalBVCmp(t.op, t.args[0].w, av[0].u, av[1].u)}
	case "bvneg":
		return evalV{ok: true, u: (-av[0].u) & mask(t.w)}
	case "bvnot":
		return evalV{ok: true, u: (^av[0].u) & mask(t.w)}
	case "extract":
		lo := int(t.k & 0xff)
		return evalV{ok: true, u: (av[0].u >> uint(lo)) & mask(t.w)}
	case "zero_extend":
		return evalV{ok: true, u: av[0].u}
	case "sign_extend":
		return evalV{ok: true, u: uint64(sext(av[0].u, t.args[0].w)) & mask(t.w)}
	case "+", "-", "*", "/":
		r := new(big.Rat)
		switch t.op {
		case "+":
			r.Add(av[0].r, av[1].r)
		case "-":
			r.Sub(av[0].r, av[1].r)
		case "*":
			r.Mul(av[0].r, av[1].r)
		case "/":
			if av[1].r.Sign() == 0 {
				return bad
			}
			r.Quo(av[0].r, av[1].r)
		}
		return evalV{ok: true, r: r}
	case "neg":
		return evalV{ok: true, r: new(big.Rat).Neg(av[0].r)}
	case "<", "<=", ">", ">=":
		c := av[0].r.Cmp(av[1].r)
		var b bool
		switch t.op {
		case "<":
			b = c < 0
		case "<=":
			b = c <= 0
		case ">":
			b = c > 0
		case ">=":
			b = c >= 0
		}
		return evalV{ok: true, b: b}
	case "bv2real":
		if t.k == 1 {
			return evalV{ok: true, r: new(big.Rat).SetInt64(sext(av[0].u, t.args[0].w))}
		}
		return evalV{ok: true, r: new(big.Rat).SetInt(new(big.Int).SetUint64(av[0].u))}
	case "real2bv":
		q := new(big.Int).Quo(av[0].r.Num(), av[0].r.Denom())
		if !q.IsInt64() {
			return bad
		}
		return evalV{ok: true, u: uint64(q.Int64()) & mask(t.w)}
	case "floor":
		return evalV{ok: true, r: ratFloor(av[0].r)}
	case "rtrunc":
		return evalV{ok: true, r: new(big.Rat).SetInt(new(big.Int).Quo(av[0].r.Num(), av[0].r.Denom()))}
	}
	if v, ok := evalBVBin(t.op, t.w, av[0].u, av[1].u); ok {
		return evalV{ok: true, u: v}
	}
	return bad
}

// ---- printing

const defThreshold = 24

// smt returns the SMT-LIB text of t; large shared subterms are emitted once as
// define-fun through emit (which must send the line to the solver and remember it).
func (tt *termTable) smt(t *T, emit func(string)) string {
	if t.def != "" {
		return t.def
	}
	var s string
	switch t.op {
	case "bvconst":
		return fmt.Sprintf("(_ bv%d %d)", t.k, t.w)
	case "true", "false":
		return t.op
	case "realconst":
		return ratSMT(t.rat)
	case "var":
		return t.name
	case "extract":
		s = fmt.Sprintf("((_ extract %d %d) %s)", t.k>>8, t.k&0xff, tt.smt(t.args[0], emit))
	case "zero_extend", "sign_extend":
		s = fmt.Sprintf("((_ %s %d) %s)", t.op, t.k, tt.smt(t.args[0], emit))
	case "neg":
		s = "(- " + tt.smt(t.args[0], emit) + ")"
	case "bv2real":
		a := tt.smt(t.args[0], emit)
		if t.k == 1 {
			w := t.args[0].w
			// signed value of a bit-vector as an integer
			s = fmt.Sprintf("(to_real (ite (bvslt %s (_ bv0 %d)) (- (bv2nat %s) %s) (bv2nat %s)))", a, w, a, pow2(w), a)
		} else {
			s = "(to_real (bv2nat " + a + "))"
		}
	case "real2bv":
		a := tt.smt(t.args[0], emit)
		s = fmt.Sprintf("((_ int2bv %d) (ite (>= %s 0.0) (to_int %s) (- (to_int (- %s)))))", t.w, a, a, a)
	case "floor":
		s = "(to_real (to_int " + tt.smt(t.args[0], emit) + "))"
	case "rtrunc":
		a := tt.smt(t.args[0], emit)
		s = fmt.Sprintf("(to_real (ite (>= %s 0.0) (to_int %s) (- (to_int (- %s)))))", a, a, a)
	default:
		var sb strings.Builder
		sb.WriteByte('(')
		sb.WriteString(t.op)
		for _, a := range t.args {
			sb.WriteByte(' ')
			sb.WriteString(tt.smt(a, emit))
		}
		sb.WriteByte(')')
		s = sb.String()
	}
	if len(s) > 160 && emit != nil {
		name := fmt.Sprintf("$t%d", t.id)
		emit(fmt.Sprintf("(define-fun %s () %s %s)", name, sortSMT(t.w), s))
		t.def = name
		return name
	}
	return s
}

func pow2(w int) string {
	return new(big.Int).Lsh(big.NewInt(1), uint(w)).String()
}

func sortSMT(w int) string {
	switch {
	case w > 0:
		return fmt.Sprintf("(_ BitVec %d)", w)
	case w == 0:
		return "Bool"
	}
	return "Real"
}

func ratSMT(r *big.Rat) string {
	neg := r.Sign() < 0
	a := new(big.Rat).Abs(r)
	var s string
	if a.IsInt() {
		s = a.Num().String() + ".0"
	} else {
		s = "(/ " + a.Num().String() + ".0 " + a.Denom().String() + ".0)"
	}
	if neg {
		return "(- " + s + ")"
	}
	return s
}

// vars collects the variable names occurring in t.
func (t *T) vars(seen map[int]bool, out map[string]int) {
	if seen[t.id] {
		return
	}
	seen[t.id] = true
	if t.op == "var" {
		out[t.name] = t.w
	}
	for _, a := range t.args {
		a.vars(seen, out)
	}
}
